CONSTANTS
  TraceFile = "trace.ndjson"
SPECIFICATION TraceSpec
INVARIANTS StreamInv
CONSTRAINT HighWater
POSTCONDITION TraceAccepted
CHECK_DEADLOCK FALSE
