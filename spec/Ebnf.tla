--------------------------------- MODULE Ebnf ---------------------------------
(* C14: what Parser.String() must denote.  EbnfOf(g) is the abstract EBNF of a grammar (productions in
   first-reference depth-first order from the root, each once; bodies = node trees with captures erased,
   token references lower-cased in < >, literals quoted, ~ (?= ) (?! ) and the ! ? * + modifiers kept).
   Norm(e) is the normal form of an EBNF expression in which redundant parentheses are removed, so that
   Norm(parsed text) = Norm(EbnfOf(g)) means "equal up to redundant parentheses".
   Expression = [alts |-> sequence of alternatives], an alternative = sequence of terms,
   term = [neg, kind \in {"name","lit","tok","grp"}, text, look \in {"","=","!"}, expr, rep \in {"","*","+","?","!"}]. *)
EXTENDS Integers, Sequences, FiniteSets, TLC

NoExpr == [alts |-> <<>>]
Atom(kind, text) == [neg |-> FALSE, kind |-> kind, text |-> text, look |-> "", expr |-> NoExpr, rep |-> ""]
Group(look, e) == [neg |-> FALSE, kind |-> "grp", text |-> "", look |-> look, expr |-> e, rep |-> ""]
One(terms) == [alts |-> <<terms>>]

RepOf(mode) == CASE mode = "opt" -> "?" [] mode = "star" -> "*" [] mode = "plus" -> "+" [] mode = "nonempty" -> "!" [] OTHER -> ""

-----------------------------------------------------------------------------
\* normal form
IsPlainGroup(t) == t.kind = "grp" /\ t.look = "" /\ ~t.neg /\ t.rep = ""

RECURSIVE NormExpr(_), NormAlts(_, _), NormSeq(_, _), NormTerm(_)
\* a term -> sequence of terms (a plain group around a single alternative is spliced)
NormTerm(t) ==
  IF t.kind # "grp" THEN <<t>>
  ELSE LET e == NormExpr(t.expr) IN
       IF t.look # "" THEN <<[t EXCEPT !.expr = e]>>
       ELSE IF IsPlainGroup(t) /\ Len(e.alts) = 1 THEN e.alts[1]
       ELSE IF Len(e.alts) = 1 /\ Len(e.alts[1]) = 1
               /\ (~(t.neg /\ e.alts[1][1].neg)) /\ (t.rep = "" \/ e.alts[1][1].rep = "")
               /\ ~(t.neg /\ e.alts[1][1].rep # "")      \* a term ~x+ denotes (~x)+ ; ~(x+) keeps its parentheses
            THEN \* ( x )* == x*,  ~( x ) == ~x : the modifiers move onto the single inner term
                 <<[e.alts[1][1] EXCEPT !.neg = t.neg \/ e.alts[1][1].neg,
                                        !.rep = IF t.rep # "" THEN t.rep ELSE e.alts[1][1].rep]>>
       ELSE <<[t EXCEPT !.expr = e]>>
NormSeq(terms, i) == IF i > Len(terms) THEN <<>> ELSE NormTerm(terms[i]) \o NormSeq(terms, i + 1)
\* an alternative that is a single plain group around several alternatives is spliced into the enclosing choice
NormAlts(alts, i) ==
  IF i > Len(alts) THEN <<>>
  ELSE LET s == NormSeq(alts[i], 1) IN
       (IF Len(s) = 1 /\ IsPlainGroup(s[1]) THEN s[1].expr.alts ELSE <<s>>) \o NormAlts(alts, i + 1)
NormExpr(e) == [alts |-> NormAlts(e.alts, 1)]

-----------------------------------------------------------------------------
\* abstract EBNF of a grammar node
Lower(s) == CASE s = "Ident" -> "ident" [] s = "Int" -> "int" [] s = "Comment" -> "comment" [] s = "Punct" -> "punct"
              [] s = "WS" -> "ws" [] s = "String" -> "string" [] s = "Float" -> "float" [] OTHER -> s

RECURSIVE ExprOf(_), TermsOf(_), KidTerms(_, _)
KidTerms(kids, i) == IF i > Len(kids) THEN <<>> ELSE TermsOf(kids[i]) \o KidTerms(kids, i + 1)
TermsOf(n) ==
  CASE n.op = "lit" -> <<Atom("lit", n.q)>>
    [] n.op = "ref" -> <<Atom("tok", Lower(n.t))>>
    [] n.op = "prod" -> <<Atom("name", n.p)>>
    [] n.op = "union" -> <<Atom("name", n.u)>>
    [] n.op = "cap" -> TermsOf(n.kid)
    [] n.op = "seq" -> <<Group("", ExprOf(n))>>
    [] n.op = "alt" -> <<Group("", ExprOf(n))>>
    [] n.op = "neg" -> <<[Group("", ExprOf(n.kid)) EXCEPT !.neg = TRUE]>>
    [] n.op = "look" -> <<Group(IF n.neg THEN "!" ELSE "=", ExprOf(n.kid))>>
    [] n.op = "grp" -> <<[Group("", ExprOf(n.kid)) EXCEPT !.rep = RepOf(n.mode)]>>
ExprOf(n) ==
  CASE n.op = "alt" -> [alts |-> [i \in 1..Len(n.kids) |-> (IF n.kids[i].op = "seq" THEN KidTerms(n.kids[i].kids, 1) ELSE TermsOf(n.kids[i]))]]
    [] n.op = "seq" -> One(KidTerms(n.kids, 1))
    [] OTHER -> One(TermsOf(n))

\* productions and unions referenced by an expression, in order of first occurrence
RECURSIVE RefsExpr(_), RefsAlts(_, _), RefsTerms(_, _)
RefsTerms(ts, i) == IF i > Len(ts) THEN <<>>
                    ELSE (IF ts[i].kind = "name" THEN <<ts[i].text>> ELSE IF ts[i].kind = "grp" THEN RefsExpr(ts[i].expr) ELSE <<>>) \o RefsTerms(ts, i + 1)
RefsAlts(as, i) == IF i > Len(as) THEN <<>> ELSE RefsTerms(as[i], 1) \o RefsAlts(as, i + 1)
RefsExpr(e) == RefsAlts(e.alts, 1)

ProdIdx(g, name) == CHOOSE i \in 1..Len(g.prods) : g.prods[i].name = name
IsProd(g, name) == \E i \in 1..Len(g.prods) : g.prods[i].name = name
\* definition of a production or a union
DefOf(g, name) == IF IsProd(g, name) THEN ExprOf(g.prods[ProdIdx(g, name)].body)
                  ELSE [alts |-> [i \in 1..Len(g.unions[name]) |-> <<Atom("name", g.unions[name][i])>>]]

\* depth-first, first-reference order: the definition is emitted when the name is first referenced
RECURSIVE Visit(_, _, _, _)
Visit(g, names, i, done) ==   \* done: sequence of names already emitted
  IF i > Len(names) THEN done
  ELSE IF \E k \in 1..Len(done) : done[k] = names[i] THEN Visit(g, names, i + 1, done)
  ELSE Visit(g, names, i + 1, Visit(g, RefsExpr(DefOf(g, names[i])), 1, Append(done, names[i])))
Order(g, root) == Visit(g, <<root>>, 1, <<>>)
EbnfOf(g, root) == LET o == Order(g, root) IN [k \in 1..Len(o) |-> [name |-> o[k], expr |-> DefOf(g, o[k])]]

\* ---- the ebnf package's printer (ebnf/ebnf.go String methods), as text ---------------------------------------------
\* Term: "~"? (name | literal | "<" token ">" | "(" ("?=" | "?!")? Expression ")") repetition; terms of a sequence are joined
\* by " ", alternatives by " | ".  (A literal's text carries its quotes.)
RECURSIVE PrintExpr(_), PrintAlts(_, _), PrintSeq(_, _), PrintTerm(_)
PrintTerm(t) == (IF t.neg THEN "~" ELSE "") \o
                (CASE t.kind = "name" -> t.text
                   [] t.kind = "lit" -> t.text
                   [] t.kind = "tok" -> "<" \o t.text \o ">"
                   [] t.kind = "grp" -> "(" \o (IF t.look = "" THEN "" ELSE "?" \o t.look) \o PrintExpr(t.expr) \o ")") \o t.rep
PrintSeq(ts, i) == IF i > Len(ts) THEN "" ELSE (IF i > 1 THEN " " ELSE "") \o PrintTerm(ts[i]) \o PrintSeq(ts, i + 1)
PrintAlts(as, i) == IF i > Len(as) THEN "" ELSE (IF i > 1 THEN " | " ELSE "") \o PrintSeq(as[i], 1) \o PrintAlts(as, i + 1)
PrintExpr(e) == PrintAlts(e.alts, 1)
\* a tree the ebnf grammar can produce: every alternative has a term, every group an expression, kinds carry their text
RECURSIVE ParseShaped(_)
ParseShaped(e) == /\ Len(e.alts) >= 1
                  /\ \A a \in 1..Len(e.alts) : /\ Len(e.alts[a]) >= 1
                                               /\ \A k \in 1..Len(e.alts[a]) :
                                                     LET t == e.alts[a][k] IN
                                                     IF t.kind = "grp" THEN t.text = "" /\ ParseShaped(t.expr)
                                                     ELSE t.text # "" /\ t.look = "" /\ t.expr = NoExpr

\* ---- the clauses of C14 on a parsed text `t` (sequence of [name, expr]) ------------------------------------------
Names(t) == [k \in 1..Len(t) |-> t[k].name]
DefinedOnce(t) == \A a, b \in 1..Len(t) : t[a].name = t[b].name => a = b
\* (productions implemented by user code - Parseable types, ParseTypeWith - are referenced but have no body to print)
AllRefsDefinedBut(t, user) == \A k \in 1..Len(t) : LET rs == RefsExpr(t[k].expr) IN \A r \in 1..Len(rs) : rs[r] \in user \/ \E d \in 1..Len(t) : t[d].name = rs[r]
AllRefsDefined(t) == \A k \in 1..Len(t) : LET rs == RefsExpr(t[k].expr) IN \A r \in 1..Len(rs) : \E d \in 1..Len(t) : t[d].name = rs[r]
RootFirst(t, root) == Len(t) >= 1 /\ t[1].name = root
SameUpToParens(t, u) == Len(t) = Len(u) /\ \A k \in 1..Len(t) : t[k].name = u[k].name /\ NormExpr(t[k].expr) = NormExpr(u[k].expr)
\* order-insensitive variant (only the root's place is part of the property)
SameAsSet(t, u) == Len(t) = Len(u) /\ \A k \in 1..Len(t) : \E j \in 1..Len(u) : t[k].name = u[j].name /\ NormExpr(t[k].expr) = NormExpr(u[j].expr)
=============================================================================
