CONSTANTS
  CasesFile = "cases.json"
  MaxIn = 4
  DevUnderflowPanics = FALSE
SPECIFICATION Spec
INVARIANTS LockStep GenNoPanic
CHECK_DEADLOCK FALSE
