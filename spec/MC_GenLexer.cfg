CONSTANTS
  CasesFile = "cases.json"
  MaxIn = 4
  DevUnderflowPanics = FALSE
  DevBackrefInvalidUtf8 = FALSE
SPECIFICATION Spec
INVARIANTS LockStep GenNoPanic
CHECK_DEADLOCK FALSE
