----------------------------- MODULE MC_EbnfTrees -----------------------------
(* C14, second sentence, on the ebnf package alone: EVERY small syntax tree of the EBNF grammar (not only those that
   Parser.String() produces) - every term kind, ~, both lookahead assertions, every repetition modifier, at two levels of
   nesting, in sequences and alternatives - is printed by the specification's printer (Ebnf!PrintExpr, a transcription of
   the String methods of ebnf/ebnf.go) and handed to the harness as tree + text: the real String() of the same tree, the
   real parse of that text and its second print are compared with them (B1).  TLC checks on every tree that it is one the
   EBNF grammar can produce (ParseShaped) and that printing distinguishes the trees explored (TextDeterminesTree, over the
   set of inner expressions).                                                                                  *)
EXTENDS Ebnf, Json
CONSTANT Deep          \* TRUE: inner sequences of two decorated terms (thorough tier)
VARIABLES t, done

Reps == {"", "?", "*", "+", "!"}
Leaf(kind, text, neg, rep) == [neg |-> neg, kind |-> kind, text |-> text, look |-> "", expr |-> NoExpr, rep |-> rep]
Leaves == {Leaf(k[1], k[2], n, r) : k \in {<<"name", "A">>, <<"lit", "\"x\"">>, <<"tok", "t">>}, n \in BOOLEAN, r \in Reps}
\* inner terms: a smaller decoration set keeps the product finite
InnerLeaves == {Leaf(k[1], k[2], n, r) : k \in {<<"name", "B">>, <<"lit", "\"|\"">>}, n \in BOOLEAN, r \in (IF Deep THEN Reps ELSE {"", "?", "!"})}
Plain == Leaf("name", "C", FALSE, "")
InnerSeqs == {<<a>> : a \in InnerLeaves} \cup {<<a, b>> : a \in InnerLeaves, b \in (IF Deep THEN InnerLeaves ELSE {Plain, Leaf("lit", "\"y\"", TRUE, "*")})}
InnerExprs == {[alts |-> <<s>>] : s \in InnerSeqs} \cup {[alts |-> <<s, <<b>>>>] : s \in InnerSeqs, b \in {Plain, Leaf("tok", "u", TRUE, "+")}}
Groups1 == {[neg |-> n, kind |-> "grp", text |-> "", look |-> l, expr |-> e, rep |-> r] : n \in BOOLEAN, l \in {"", "=", "!"}, e \in InnerExprs, r \in Reps}
\* second level: a group around a group (every decoration of the outer one, a sample of inner ones)
SampleG1 == {g \in Groups1 : Len(g.expr.alts) = 1 /\ Len(g.expr.alts[1]) = 1 /\ g.expr.alts[1][1].kind = "lit"}
Groups2 == {[neg |-> n, kind |-> "grp", text |-> "", look |-> l, expr |-> [alts |-> <<<<g>>>>], rep |-> r] : n \in BOOLEAN, l \in {"", "=", "!"}, g \in SampleG1, r \in Reps}
           \cup {[neg |-> FALSE, kind |-> "grp", text |-> "", look |-> "", expr |-> [alts |-> <<<<Plain, g>>, <<g>>>>], rep |-> "*"] : g \in SampleG1}
Tops == Leaves \cup Groups1 \cup Groups2
\* the production body around the term under test: alone, after a plain term, as second alternative
Body(x, shape) == CASE shape = 1 -> [alts |-> <<<<x>>>>]
                    [] shape = 2 -> [alts |-> <<<<Plain, x>>>>]
                    [] shape = 3 -> [alts |-> <<<<Plain>>, <<x, Plain>>>>]

Init == t \in {Body(x, sh) : x \in Tops, sh \in 1..3} /\ done = FALSE
Next == ~done /\ done' = TRUE /\ UNCHANGED t
        /\ PrintT("TREE|" \o ToJson([tree |-> t, text |-> PrintExpr(t)]))
Spec == Init /\ [][Next]_<<t, done>>
Shaped == ParseShaped(t)
\* the printer is injective on the inner expressions: two different trees never print alike (so a parser CAN recover the tree)
TextDeterminesTree == \A e1, e2 \in InnerExprs : PrintExpr(e1) = PrintExpr(e2) => e1 = e2
=============================================================================
