------------------------------- MODULE Grammar -------------------------------
(* Static analysis of a grammar (the node algebra of nodes.go as delivered by the case files):
   Nullable - can the node return a match without consuming a token, exactly as the engine behaves;
   LeftCalls - the productions a node can enter before any token is consumed;
   LeftRecursive(g) - some production reachable from the root can re-enter itself before consuming a token
   (C08: Build must reject exactly these).                                                        *)
EXTENDS Integers, Sequences, FiniteSets, TLC

ProdNames(g) == {g.prods[i].name : i \in 1..Len(g.prods)}
BodyOf(g, p) == g.prods[CHOOSE i \in 1..Len(g.prods) : g.prods[i].name = p].body
Members(g, u) == {g.unions[u][i] : i \in 1..Len(g.unions[u])}

\* the unconstrained empty literal "" matches any token, including EOF, which it does not consume
IsEmptyLit(n) == n.op = "lit" /\ n.s = "" /\ n.t = ""
RECURSIVE HasEmptyLit(_, _, _)
HasEmptyLit(g, n, fuel) ==
  CASE n.op = "lit" -> IsEmptyLit(n)
    [] n.op \in {"ref", "user", "user2", "user3"} -> FALSE
    [] n.op \in {"seq", "alt"} -> \E i \in 1..Len(n.kids) : HasEmptyLit(g, n.kids[i], fuel)
    [] n.op \in {"grp", "cap", "neg", "look"} -> HasEmptyLit(g, n.kid, fuel)
    [] n.op = "prod" -> fuel > 0 /\ HasEmptyLit(g, BodyOf(g, n.p), fuel - 1)
    [] n.op = "union" -> fuel > 0 /\ \E p \in Members(g, n.u) : HasEmptyLit(g, BodyOf(g, p), fuel - 1)

\* "!" (non-empty) demands a VALUE from its expression, not a consumed token.  YieldsWith: can the node match without consuming
\* a token AND hand back a value then?  An empty literal does; a capture around anything that matches nothing does (capture.Parse
\* returns the struct whenever its operand returned non-nil, even an empty list); an optional group passes on what its
\* expression yields; a repetition of an expression that matches nothing makes no progress and is no match at all.
RECURSIVE NullableWith(_, _, _), YieldsWith(_, _, _)
YieldsWith(g, n, NP) ==
  CASE n.op = "lit" -> IsEmptyLit(n)
    [] n.op = "ref" -> n.t = "EOF"
    [] n.op = "cap" -> NullableWith(g, n.kid, NP)
    [] n.op = "seq" -> (\A i \in 1..Len(n.kids) : NullableWith(g, n.kids[i], NP)) /\ (\E i \in 1..Len(n.kids) : YieldsWith(g, n.kids[i], NP))
    [] n.op = "alt" -> \E i \in 1..Len(n.kids) : NullableWith(g, n.kids[i], NP) /\ YieldsWith(g, n.kids[i], NP)
    [] n.op = "grp" -> (IF n.mode \in {"once", "opt"} THEN YieldsWith(g, n.kid, NP)
                        ELSE IF n.mode = "nonempty" THEN NullableWith(g, n.kid, NP) /\ YieldsWith(g, n.kid, NP)
                        ELSE FALSE)
    [] n.op = "prod" -> n.p \in NP
    [] n.op = "union" -> Members(g, n.u) \cap NP # {}
    [] OTHER -> FALSE
NullableWith(g, n, NP) ==
  CASE n.op = "lit" -> IsEmptyLit(n)
    [] n.op = "ref" -> n.t = "EOF"        \* the end-of-input token is matched, and handed back as a value, without being consumed
    [] n.op \in {"neg", "user", "user2", "user3"} -> FALSE
    [] n.op = "look" -> TRUE
    [] n.op = "seq" -> \A i \in 1..Len(n.kids) : NullableWith(g, n.kids[i], NP)
    [] n.op = "alt" -> \E i \in 1..Len(n.kids) : NullableWith(g, n.kids[i], NP)
    [] n.op = "grp" -> (IF n.mode = "nonempty"
                        THEN NullableWith(g, n.kid, NP) /\ YieldsWith(g, n.kid, NP)   \* "!" needs a value
                        ELSE n.mode \in {"opt", "star"} \/ NullableWith(g, n.kid, NP))
    [] n.op = "cap" -> NullableWith(g, n.kid, NP)
    [] n.op = "prod" -> n.p \in NP
    [] n.op = "union" -> Members(g, n.u) \cap NP # {}

RECURSIVE NullableProds(_, _, _)
NullableProds(g, NP, fuel) ==
  LET NP2 == {p \in ProdNames(g) : NullableWith(g, BodyOf(g, p), NP)} IN
  IF NP2 = NP \/ fuel = 0 THEN NP ELSE NullableProds(g, NP2, fuel - 1)

RECURSIVE LeftCalls(_, _, _), SeqLeft(_, _, _, _)
LeftCalls(g, n, NP) ==
  CASE n.op \in {"lit", "ref", "user", "user2", "user3"} -> {}
    [] n.op = "seq" -> SeqLeft(g, n.kids, 1, NP)
    [] n.op = "alt" -> UNION {LeftCalls(g, n.kids[i], NP) : i \in 1..Len(n.kids)}
    [] n.op \in {"grp", "cap", "neg", "look"} -> LeftCalls(g, n.kid, NP)
    [] n.op = "prod" -> {n.p}
    [] n.op = "union" -> Members(g, n.u)
SeqLeft(g, kids, i, NP) ==
  IF i > Len(kids) THEN {}
  ELSE LeftCalls(g, kids[i], NP) \cup (IF NullableWith(g, kids[i], NP) THEN SeqLeft(g, kids, i + 1, NP) ELSE {})

RECURSIVE Reach(_, _, _)
Reach(E, S, fuel) == LET S2 == S \cup UNION {E[p] : p \in S} IN IF S2 = S \/ fuel = 0 THEN S ELSE Reach(E, S2, fuel - 1)

RECURSIVE AllCalls(_, _)
AllCalls(g, n) ==
  CASE n.op \in {"lit", "ref", "user", "user2", "user3"} -> {}
    [] n.op \in {"seq", "alt"} -> UNION {AllCalls(g, n.kids[i]) : i \in 1..Len(n.kids)}
    [] n.op \in {"grp", "cap", "neg", "look"} -> AllCalls(g, n.kid)
    [] n.op = "prod" -> {n.p}
    [] n.op = "union" -> Members(g, n.u)

\* only productions the root can reach are part of the grammar (a registered but unreferenced union member is never parsed)
LeftRecursive(g) ==
  LET NP == NullableProds(g, {}, Len(g.prods) + 1)
      E == [p \in ProdNames(g) |-> LeftCalls(g, BodyOf(g, p), NP)]
      A == [p \in ProdNames(g) |-> AllCalls(g, BodyOf(g, p))]
      Used == Reach(A, {g.prods[1].name}, 10)
  IN \E p \in Used : p \in Reach(E, E[p], 10)

=============================================================================
