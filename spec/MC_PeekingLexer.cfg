CONSTANTS
  MaxLen = 3
  Slots = 2
SPECIFICATION MCSpec
VIEW view
INVARIANTS TypeOK PeekIsFirstNonElided CursorCounts SavedConsistent NoOutOfRangeRead
PROPERTIES NextMoves PeekAnyMeaning FFToPeekAny RestoreIsExact ObservationsPure
CHECK_DEADLOCK FALSE
