------------------------------ MODULE Position ------------------------------
(* lexer.Position: byte offset, line, column.  PosOf is the meaning property C04 gives to a position
   (from the input alone); Advance is the incremental update of lexer.Position.Advance over a span.
   Add is lexer.Position.Add: the position of a place inside an embedded text, given where the embedded text starts.
   Characters are <<code point, byte width, is-newline>>.                                    *)
EXTENDS Integers, Sequences, TLC

Pos(off, line, col) == [off |-> off, line |-> line, col |-> col]
StartPos == Pos(0, 1, 1)

\* meaning: position of the character index i (1-based; Len+1 = end of input)
RECURSIVE BytesBefore(_, _), NewlinesBefore(_, _), CharsSinceNewline(_, _)
BytesBefore(s, i) == IF i <= 1 THEN 0 ELSE s[i - 1][2] + BytesBefore(s, i - 1)
NewlinesBefore(s, i) == IF i <= 1 THEN 0 ELSE s[i - 1][3] + NewlinesBefore(s, i - 1)
CharsSinceNewline(s, i) == IF i <= 1 \/ s[i - 1][3] = 1 THEN 0 ELSE 1 + CharsSinceNewline(s, i - 1)
PosOf(s, i) == Pos(BytesBefore(s, i), 1 + NewlinesBefore(s, i), 1 + CharsSinceNewline(s, i))

\* the code: p.Offset += len(span); lines := count("\n"); if lines == 0 { col += runes(span) } else { col = runes(span[lastNL:]) }
RECURSIVE SpanBytes(_, _, _), SpanNewlines(_, _, _), RunesFromLastNL(_, _, _)
SpanBytes(s, a, b) == IF a >= b THEN 0 ELSE s[a][2] + SpanBytes(s, a + 1, b)
SpanNewlines(s, a, b) == IF a >= b THEN 0 ELSE s[a][3] + SpanNewlines(s, a + 1, b)
\* number of characters of s[a..b-1] from its last newline (inclusive) to the end
RunesFromLastNL(s, a, b) == IF s[b - 1][3] = 1 THEN 1 ELSE 1 + RunesFromLastNL(s, a, b - 1)
Advance(p, s, a, b) ==   \* span = s[a .. b-1]
  LET lines == SpanNewlines(s, a, b) IN
  Pos(p.off + SpanBytes(s, a, b), p.line + lines,
      IF lines = 0 THEN p.col + (b - a) ELSE RunesFromLastNL(s, a, b))

\* the code of lexer.Position.Add ("the sum of this position and pos ... useful when parsing values from a parent grammar"):
\* q is a position inside an embedded text that starts at p
Add(p, q) == Pos(p.off + q.off, p.line + q.line - 1, IF q.line > 1 THEN q.col ELSE p.col + q.col - 1)
\* sub-text s[a ..] as a text of its own
TextFrom(s, a) == [k \in 1..(Len(s) - a + 1) |-> s[a + k - 1]]

PosStr(p) == ToString(p.off) \o ":" \o ToString(p.line) \o ":" \o ToString(p.col)
=============================================================================
