CONSTANTS
  CasesFile = "cases.json"
  DevApplyAll = FALSE
  DevRawStart = FALSE
  DevEmptyTokPanics = FALSE
SPECIFICATION Spec
CHECK_DEADLOCK FALSE
