----------------------------- MODULE MC_GenLexer -----------------------------
(* C05: the generated lexer (same state machine as StatefulLexer with the possessive matcher PossEnd, as
   cmd/participle's generator documents) run in lock step with the runtime lexer (backtracking matcher)
   on every rule map of the supported class x every input.  A run becomes "tolerated" at the first step
   at which some rule of the current state matches differently under the two semantics; until then the two
   machines must be in identical states and emit identical tokens (invariant LockStep).  Each finished
   run is printed: the common stream, or TOLERATED.                                          *)
EXTENDS StatefulLexer, Json
CONSTANTS CasesFile, MaxIn
Data == JsonDeserialize(CasesFile)
Cases == Data.cases
Alpha == Data.alpha
NA == Len(Alpha)

VARIABLES gi, input, rst, gst, status, gstatus, toks, gtoks, tol
vars == <<gi, input, rst, gst, status, gstatus, toks, gtoks, tol>>

Chars(inp) == [k \in 1..Len(inp) |-> <<Alpha[inp[k]][1], Alpha[inp[k]][2], Alpha[inp[k]][3]>>]
RECURSIVE InputName(_, _)
InputName(inp, k) == IF k > Len(inp) THEN "" ELSE Alpha[inp[k]][4] \o InputName(inp, k + 1)
TokStr(t) == t.name \o "@" \o PosStr(t.pos) \o "+" \o ToString(SpanBytes(Chars(input), t.from, t.to))
RECURSIVE ToksStr(_, _)
ToksStr(ts, k) == IF k > Len(ts) THEN "" ELSE TokStr(ts[k]) \o " " \o ToksStr(ts, k + 1)

Init == /\ gi \in 1..Len(Cases)
        /\ input \in UNION {[1..n -> 1..NA] : n \in 0..MaxIn}
        /\ rst = InitLexer /\ gst = InitLexer /\ status = "run" /\ gstatus = "run" /\ toks = <<>> /\ gtoks = <<>> /\ tol = FALSE

Final(r) == CASE r.status = "eof" -> "EOF@" \o PosStr(r.st.pos) [] r.status = "err" -> "ERR@" \o PosStr(r.st.pos) [] OTHER -> "PANIC"

BothCall ==
  /\ status = "run" /\ ~tol
  /\ LET r == CallM(Cases[gi], Chars(input), rst, [poss |-> FALSE, track |-> TRUE])
         g == CallM(Cases[gi], Chars(input), gst, [poss |-> TRUE, track |-> FALSE]) IN
     /\ tol' = r.diff
     /\ rst' = r.st /\ status' = r.status /\ toks' = IF r.status = "run" THEN Append(toks, r.tok) ELSE toks
     /\ gst' = g.st /\ gstatus' = g.status /\ gtoks' = IF g.status = "run" THEN Append(gtoks, g.tok) ELSE gtoks
     /\ IF r.diff THEN PrintT("EXPECT|" \o Cases[gi].id \o "|" \o InputName(input, 1) \o "|tolerated|TOLERATED")
        ELSE IF r.status # "run" THEN PrintT("EXPECT|" \o Cases[gi].id \o "|" \o InputName(input, 1) \o "|" \o r.why \o "|" \o ToksStr(toks, 1) \o Final(r))
        ELSE TRUE
  /\ UNCHANGED <<gi, input>>
Spec == Init /\ [][BothCall]_vars

\* the generated machine follows the runtime machine exactly until a tolerated step
\* (groups are not compared: the supported class has no back-references, and the possessive matcher records none)
Proj(st) == [i |-> st.i, pos |-> st.pos, names |-> [k \in 1..Len(st.stack) |-> st.stack[k].name]]
LockStep == ~tol => (Proj(gst) = Proj(rst) /\ gstatus = status /\ gtoks = toks)
GenNoPanic == ~tol => gstatus # "panic"
=============================================================================
