CONSTANTS
  NProcs = 2
  WithNul = FALSE
  KeyMode = "quoted"
  Procs <- MCProcs
  Scenarios <- MCScenarios
  Histories <- MCHistories
SPECIFICATION MCSpec
INVARIANTS ResultsSequential CacheCoherent KeyInjective
PROPERTY Terminates
CHECK_DEADLOCK FALSE
