------------------------------ MODULE LexStream ------------------------------
(* A lexer run seen from outside (C04): a sequence of Emit steps over a fixed input, ended by one EOF.
   Nothing about rules is assumed; every clause is stated from the input alone, so the same module judges
   the stateful, simple, generated and text/scanner-based lexers.                               *)
EXTENDS Position, Integers, Sequences, TLC

VARIABLES input,     \* sequence of characters <<code point, byte width, is-newline>>
          noDrop,    \* TRUE when the rule set drops nothing (no lower-case rule, no skipped text)
          lastEnd,   \* byte offset just after the previous token
          ntok,      \* tokens emitted
          finished   \* EOF seen
lsvars == <<input, noDrop, lastEnd, ntok, finished>>

TotalBytes(s) == BytesBefore(s, Len(s) + 1)
\* character index whose first byte is at byte offset off (0 if off is not a character boundary)
RECURSIVE IdxAt(_, _, _, _)
IdxAt(s, off, i, acc) == IF acc = off THEN i ELSE IF i > Len(s) \/ acc > off THEN 0 ELSE IdxAt(s, off, i + 1, acc + s[i][2])
CharIdx(s, off) == IdxAt(s, off, 1, 0)

LSInit(s, nd) == input = s /\ noDrop = nd /\ lastEnd = 0 /\ ntok = 0 /\ finished = FALSE

\* a token: value = the input bytes at [off, off+len), position = PosOf(off)
Emit(off, len, line, col, valueOk, fileOk) ==
  /\ ~finished
  /\ len > 0 /\ off >= lastEnd /\ off + len <= TotalBytes(input)          \* increasing, non-overlapping, inside the input
  /\ noDrop => off = lastEnd                                                  \* nothing dropped: contiguous
  /\ valueOk /\ fileOk
  /\ LET i == CharIdx(input, off) IN i # 0 /\ PosOf(input, i) = Pos(off, line, col)
  /\ lastEnd' = off + len /\ ntok' = ntok + 1 /\ UNCHANGED <<input, noDrop, finished>>

\* the final EOF: positioned at the end of the input
EmitEOF(off, line, col, valueOk, fileOk) ==
  /\ ~finished
  /\ off = TotalBytes(input) /\ PosOf(input, Len(input) + 1) = Pos(off, line, col)
  /\ noDrop => lastEnd = off                                                  \* concatenation of the values is the input
  /\ valueOk /\ fileOk
  /\ finished' = TRUE /\ UNCHANGED <<input, noDrop, lastEnd, ntok>>

StreamInv == lastEnd <= TotalBytes(input) /\ ntok <= Len(input)
=============================================================================
