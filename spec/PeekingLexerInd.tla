-------------------------- MODULE PeekingLexerInd --------------------------
(* Typed, recursion-free restatement of PeekingLexer.tla for Apalache: the loops of lexer/peek.go are described by their
   postconditions, and the cursor invariant of C12 is shown INDUCTIVE (IndInit => IndInv, IndInv /\ Next => IndInv') for
   every stream of at most MaxLen tokens with symbolic contents - a bound far above what TLC enumerates.              *)
EXTENDS Integers, Sequences, FiniteSets, Apalache

CONSTANT
  \* @type: Int;
  MaxLen

VARIABLES
  \* @type: Seq(Str);
  toks,
  \* @type: Int;
  raw,
  \* @type: Int;
  nxt,
  \* @type: Int;
  cur

\* @type: (Str) => Bool;
Elided(k) == k \in {"E", "X"}
Kinds == {"N", "E", "X", "EOF"}

\* a well-formed stream: only kinds, exactly one EOF, at the end
WellFormed == /\ Len(toks) >= 1 /\ Len(toks) <= MaxLen + 1
              /\ \A i \in DOMAIN toks : toks[i] \in Kinds
              /\ toks[Len(toks)] = "EOF"
              /\ \A i \in DOMAIN toks : (toks[i] = "EOF") => i = Len(toks)

\* j is the first index >= i holding EOF or a non-elided token
\* @type: (Int, Int) => Bool;
FirstNonElidedFrom(i, j) == /\ j >= i /\ j <= Len(toks)
                            /\ \A k \in DOMAIN toks : (k >= i /\ k < j) => Elided(toks[k])
                            /\ (toks[j] = "EOF" \/ ~Elided(toks[j]))
\* @type: (Int) => Int;
CountBefore(r) == Cardinality({k \in DOMAIN toks : k < r /\ ~Elided(toks[k]) /\ toks[k] # "EOF"})

IndInv == /\ WellFormed
          /\ raw >= 1 /\ raw <= Len(toks)
          /\ FirstNonElidedFrom(raw, nxt)
          /\ cur = CountBefore(raw)

IndInit == /\ toks = Gen(MaxLen + 1) /\ raw = Gen(1) /\ nxt = Gen(1) /\ cur = Gen(1)
           /\ IndInv
Init == IndInit

\* Next(): returns toks[nxt]; at EOF nothing moves, else raw' = nxt + 1 and nxt' = first non-elided from there
NextOp == IF toks[nxt] = "EOF" THEN UNCHANGED <<toks, raw, nxt, cur>>
          ELSE /\ raw' = nxt + 1 /\ cur' = cur + 1
               /\ \E j \in DOMAIN toks : FirstNonElidedFrom(nxt + 1, j) /\ nxt' = j
               /\ UNCHANGED toks
\* FastForward(c): consumes through index c (stopping at EOF); c any index 1..Len+1
FastForward == \E c \in 1..(MaxLen + 2) :
                 \E r \in DOMAIN toks :
                    \* r = position reached by the loop: raw if c < raw, else min(c + 1, index of EOF)
                    /\ (IF c < raw THEN r = raw ELSE IF c >= Len(toks) THEN r = Len(toks) ELSE r = c + 1)
                    /\ raw' = r /\ cur' = CountBefore(r)
                    /\ \E j \in DOMAIN toks : FirstNonElidedFrom(r, j) /\ nxt' = j
                    /\ UNCHANGED toks
Observe == UNCHANGED <<toks, raw, nxt, cur>>     \* Peek, RawPeek, PeekAny, Range, MakeCheckpoint
Next == NextOp \/ FastForward \/ Observe
=============================================================================
