------------------------------- MODULE Quoting -------------------------------
(* C18.  (1) Go string-literal quoting over an abstract alphabet: a n t (letters), Q ("), S ('), B (`),
   K (backslash), N (newline), E (a 2-byte rune), F (slash).  Quote is strconv.Quote restricted to the alphabet,
   UnquoteIntended what participle.Unquote must compute: interpreted strings and single-quoted sequences
   with escape processing, back-quoted strings verbatim, invalid escape -> error.
   (2) The token-mapper pipeline: which mapper sees which token, in which order.                   *)
EXTENDS Integers, Sequences, FiniteSets, TLC

Content == {"a", "n", "Q", "S", "B", "K", "N", "E", "R", "F"}  \* R = U+FFFD, a VALID rune that looks like a decoding error; F = "/"
                                                               \* (backslash-slash is NOT an escape of Go literals)

RECURSIVE QuoteBody(_, _, _)
QuoteBody(x, i, q) ==  \* strconv.Quote / QuoteRune escapes restricted to the alphabet; q = the quote symbol
  IF i > Len(x) THEN <<>>
  ELSE (CASE x[i] = q -> <<"K", q>>
          [] x[i] = "K" -> <<"K", "K">>
          [] x[i] = "N" -> <<"K", "n">>
          [] OTHER -> <<x[i]>>) \o QuoteBody(x, i + 1, q)
Quote(x) == <<"Q">> \o QuoteBody(x, 1, "Q") \o <<"Q">>
QuoteChar(c) == <<"S">> \o QuoteBody(<<c>>, 1, "S") \o <<"S">>
RawOk(x) == \A i \in 1..Len(x) : x[i] # "B"
RawQuote(x) == <<"B">> \o x \o <<"B">>

RECURSIVE UnqBody(_, _, _)
\* returns <<"ok", seq>> or <<"err">>
UnqBody(b, i, q) ==
  IF i > Len(b) THEN <<"ok", <<>>>>
  ELSE IF b[i] = q THEN <<"err">>
  ELSE IF b[i] # "K" THEN (LET r == UnqBody(b, i + 1, q) IN IF r[1] = "err" THEN r ELSE <<"ok", <<b[i]>> \o r[2]>>)
  ELSE IF i = Len(b) THEN <<"err">>
  ELSE LET e == b[i + 1]
           v == CASE e = "n" -> "N" [] e = "t" -> "T" [] e = "a" -> "G" [] e = "K" -> "K"
                  [] e = "Q" /\ q = "Q" -> "Q" [] e = "S" /\ q = "S" -> "S" [] OTHER -> "bad"
       IN IF v = "bad" THEN <<"err">>
          ELSE (LET r == UnqBody(b, i + 2, q) IN IF r[1] = "err" THEN r ELSE <<"ok", <<v>> \o r[2]>>)
UnquoteIntended(t) ==
  LET q == t[1]  b == SubSeq(t, 2, Len(t) - 1) IN
  IF q = "B" THEN <<"ok", b>> ELSE UnqBody(b, 1, q)

\* theorems: Unquote inverts quoting
QuoteInverts(x) == UnquoteIntended(Quote(x)) = <<"ok", x>>
RawInverts(x) == RawOk(x) => UnquoteIntended(RawQuote(x)) = <<"ok", x>>
SingleInverts(x) == UnquoteIntended(<<"S">> \o QuoteBody(x, 1, "S") \o <<"S">>) = <<"ok", x>>

-----------------------------------------------------------------------------
\* (2) mapper pipeline.  A stream is a sequence of token types (the final EOF is implicit); a mapper is
\* [id, sel] with sel = set of selected types ({} = every token).  Global mappers run first, then the
\* mappers selected for the token's type, each group in registration order; every non-EOF token exactly once,
\* in stream order, before elision.
Applies(m, ty) == m.sel = {} \/ ty \in m.sel
RECURSIVE CallsFor(_, _, _, _)
CallsFor(ms, k, ty, globalPass) ==
  IF k > Len(ms) THEN <<>>
  ELSE (IF (globalPass /\ ms[k].sel = {}) \/ (~globalPass /\ ms[k].sel # {} /\ ty \in ms[k].sel) THEN <<ms[k].id>> ELSE <<>>)
       \o CallsFor(ms, k + 1, ty, globalPass)
RECURSIVE CallLog(_, _, _)
\* sequence of <<mapper id, token index>>
CallLog(stream, i, ms) ==
  IF i > Len(stream) THEN <<>>
  ELSE LET ids == CallsFor(ms, 1, stream[i], TRUE) \o CallsFor(ms, 1, stream[i], FALSE) IN
       [k \in 1..Len(ids) |-> <<ids[k], i>>] \o CallLog(stream, i + 1, ms)
\* each mapper sees each selected token exactly once
SeesExactlyOnce(stream, ms) ==
  LET log == CallLog(stream, 1, ms) IN
  \A k \in 1..Len(ms) : \A i \in 1..Len(stream) :
     Cardinality({j \in 1..Len(log) : log[j] = <<ms[k].id, i>>}) = (IF Applies(ms[k], stream[i]) THEN 1 ELSE 0)
\* Upper(types): the set of token indices whose text is upper-cased
UpperSet(stream, sel) == {i \in 1..Len(stream) : stream[i] \in sel}

RECURSIVE Cat(_, _)
Cat(x, i) == IF i > Len(x) THEN "" ELSE x[i] \o Cat(x, i + 1)
Show(r) == IF r[1] = "err" THEN "err" ELSE "ok:" \o Cat(r[2], 1)
=============================================================================
