CONSTANTS
  CasesFile = "cases.json"
  DevApplyAll = FALSE
  DevRawStart = FALSE
  DevEmptyTokPanics = FALSE
SPECIFICATION Spec
INVARIANT LookaheadMonotone
CHECK_DEADLOCK FALSE
