-------------------------------- MODULE Regex --------------------------------
(* Matching semantics over Go's simplified regexp/syntax tree (the harness obtains the tree with
   syntax.Parse(p, syntax.Perl).Simplify() and hands it over as JSON):

     Ends(re, E, i, caps)   all outcomes [e, c] of matching re at position i, in backtracking priority
                            order; the head is the leftmost-first (Perl/RE2) match with its groups, i.e.
                            what regexp.FindStringSubmatchIndex returns for ^(?:p);
     PossEnd(re, E, i)      the possessive, no-give-back semantics the lexer generator documents.

   A text is a sequence of characters <<code point, byte width, is-newline>>; an invalid byte is the
   character U+FFFD of width 1, as Go's regexp and rune counting treat it.  E = [s |-> text,
   grp |-> groups of the rule that entered the current lexer state] (group texts as code-point
   sequences; grp[1] is group 0).  A rune 57344+N (U+E000+N) inside a literal stands for the
   back-reference \N: it matches the N-th group literally.                                     *)
EXTENDS Integers, Sequences, FiniteSets

Chr(s, i) == s[i][1]
IsWord(c) == (c >= 48 /\ c <= 57) \/ (c >= 65 /\ c <= 90) \/ (c >= 97 /\ c <= 122) \/ c = 95
WordAt(s, i) == i >= 1 /\ i <= Len(s) /\ IsWord(Chr(s, i))
\* simple case folding for the alphabets used here: ASCII letters, and the Latin-1 pair 0xC9/0xE9
\* plus the two non-ASCII runes that fold to ASCII letters: U+017F (long s) ~ s, U+212A (Kelvin sign) ~ k
\* and one non-letter pair with case variants: U+2167 (Roman numeral eight) ~ U+2177
Lower(c) == IF c >= 65 /\ c <= 90 THEN c + 32 ELSE IF c = 201 THEN 233 ELSE IF c = 383 THEN 115 ELSE IF c = 8490 THEN 107
            ELSE IF c = 8551 THEN 8567 ELSE c
EqFold(a, b, fold) == IF fold THEN Lower(a) = Lower(b) ELSE a = b
BackrefBase == 57344
IsBackref(r) == r >= BackrefBase /\ r < BackrefBase + 10

RECURSIVE InClass(_, _, _)
InClass(runes, k, c) == IF k > Len(runes) THEN FALSE
                        ELSE IF runes[k] <= c /\ c <= runes[k + 1] THEN TRUE ELSE InClass(runes, k + 2, c)

\* match the code-point sequence t[k..] literally at i: end position or 0
RECURSIVE TextEnd(_, _, _, _, _)
TextEnd(t, k, s, i, fold) ==
  IF k > Len(t) THEN i
  ELSE IF i <= Len(s) /\ EqFold(Chr(s, i), t[k], fold) THEN TextEnd(t, k + 1, s, i + 1, fold) ELSE 0

RECURSIVE LitEnd(_, _, _, _, _)
LitEnd(runes, k, E, i, fold) ==  \* end position after matching runes[k..] at i, or 0
  IF k > Len(runes) THEN i
  ELSE IF IsBackref(runes[k])
       THEN LET g == runes[k] - BackrefBase
                e == IF g + 1 <= Len(E.grp) THEN TextEnd(E.grp[g + 1], 1, E.s, i, FALSE) ELSE 0
            IN IF e = 0 THEN 0 ELSE LitEnd(runes, k + 1, E, e, fold)
       ELSE IF i <= Len(E.s) /\ EqFold(Chr(E.s, i), runes[k], fold) THEN LitEnd(runes, k + 1, E, i + 1, fold) ELSE 0

\* empty-width assertions, shared by both semantics
EmptyOk(op, s, i) ==
  CASE op = "BeginText" -> i = 1
    [] op = "EndText" -> i = Len(s) + 1
    [] op = "BeginLine" -> i = 1 \/ Chr(s, i - 1) = 10
    [] op = "EndLine" -> i = Len(s) + 1 \/ Chr(s, i) = 10
    [] op = "WordBoundary" -> WordAt(s, i - 1) # WordAt(s, i)
    [] op = "NoWordBoundary" -> WordAt(s, i - 1) = WordAt(s, i)
    [] op = "EmptyMatch" -> TRUE
    [] op = "NoMatch" -> FALSE
IsEmptyOp(op) == op \in {"BeginText", "EndText", "BeginLine", "EndLine", "WordBoundary", "NoWordBoundary", "EmptyMatch", "NoMatch"}

\* one character
CharOk(re, s, i) ==
  /\ i <= Len(s)
  /\ CASE re.op = "CharClass" -> InClass(re.runes, 1, Chr(s, i))
       [] re.op = "AnyCharNotNL" -> Chr(s, i) # 10
       [] re.op = "AnyChar" -> TRUE
IsCharOp(op) == op \in {"CharClass", "AnyCharNotNL", "AnyChar"}

-----------------------------------------------------------------------------
\* backtracking semantics with sub-match groups.  caps: sequence of <<start, end>> (end exclusive), <<0,0>> = unset
O(e, c) == [e |-> e, c |-> c]

RECURSIVE Ends(_, _, _, _), EndsConcat(_, _, _, _, _), EndsAlt(_, _, _, _, _), EndsStar(_, _, _, _, _)
RECURSIVE FlatStar(_, _, _, _, _), FlatConcat(_, _, _, _, _), FlatCap(_, _, _, _)

Ends(re, E, i, caps) ==
  CASE re.op = "Literal" -> (LET e == LitEnd(re.runes, 1, E, i, re.fold) IN IF e = 0 THEN <<>> ELSE <<O(e, caps)>>)
    [] IsCharOp(re.op) -> IF CharOk(re, E.s, i) THEN <<O(i + 1, caps)>> ELSE <<>>
    [] IsEmptyOp(re.op) -> IF EmptyOk(re.op, E.s, i) THEN <<O(i, caps)>> ELSE <<>>
    [] re.op = "Capture" -> FlatCap(Ends(re.sub[1], E, i, caps), 1, re.cap, i)
    [] re.op = "Concat" -> EndsConcat(re.sub, 1, E, i, caps)
    [] re.op = "Alternate" -> EndsAlt(re.sub, 1, E, i, caps)
    [] re.op = "Quest" -> IF re.ng THEN <<O(i, caps)>> \o Ends(re.sub[1], E, i, caps) ELSE Ends(re.sub[1], E, i, caps) \o <<O(i, caps)>>
    [] re.op = "Star" -> EndsStar(re.sub[1], E, i, caps, re.ng)
    [] re.op = "Plus" -> FlatStar(Ends(re.sub[1], E, i, caps), 1, re.sub[1], E, re.ng)

FlatCap(os, j, n, i) ==
  IF j > Len(os) THEN <<>>
  ELSE <<O(os[j].e, [os[j].c EXCEPT ![n] = <<i, os[j].e>>])>> \o FlatCap(os, j + 1, n, i)

EndsAlt(subs, k, E, i, caps) == IF k > Len(subs) THEN <<>> ELSE Ends(subs[k], E, i, caps) \o EndsAlt(subs, k + 1, E, i, caps)

EndsConcat(subs, k, E, i, caps) ==
  IF k > Len(subs) THEN <<O(i, caps)>>
  ELSE FlatConcat(Ends(subs[k], E, i, caps), 1, subs, k + 1, E)
FlatConcat(os, j, subs, k, E) ==
  IF j > Len(os) THEN <<>> ELSE EndsConcat(subs, k, E, os[j].e, os[j].c) \o FlatConcat(os, j + 1, subs, k, E)

\* greedy: iterate first (only iterations that make progress), then stop here; non-greedy the other way round
EndsStar(sub, E, i, caps, ng) ==
  LET more == FlatStar(SelectSeq(Ends(sub, E, i, caps), LAMBDA o : o.e > i), 1, sub, E, ng)
  IN IF ng THEN <<O(i, caps)>> \o more ELSE more \o <<O(i, caps)>>
FlatStar(os, j, sub, E, ng) ==
  IF j > Len(os) THEN <<>> ELSE EndsStar(sub, E, os[j].e, os[j].c, ng) \o FlatStar(os, j + 1, sub, E, ng)

NoCaps(n) == [k \in 1..n |-> <<0, 0>>]
\* leftmost-first match of ^(?:re) on the text E.s: [e |-> 0] if none, else end (1 + matched length) and groups
BtMatch(re, ncap, E) == LET os == Ends(re, E, 1, NoCaps(ncap)) IN IF os = <<>> THEN [e |-> 0, c |-> <<>>] ELSE os[1]

-----------------------------------------------------------------------------
\* possessive semantics (what the generated lexer code implements): every operator commits to its first
\* successful choice and never gives characters back.  Returns the end position or 0.
RECURSIVE PossEnd(_, _, _), PossConcat(_, _, _, _), PossAlt(_, _, _, _), PossStar(_, _, _)
PossEnd(re, E, i) ==
  CASE re.op = "Literal" -> LitEnd(re.runes, 1, E, i, re.fold)
    [] IsCharOp(re.op) -> IF CharOk(re, E.s, i) THEN i + 1 ELSE 0
    [] IsEmptyOp(re.op) -> IF EmptyOk(re.op, E.s, i) THEN i ELSE 0
    [] re.op = "Capture" -> PossEnd(re.sub[1], E, i)
    [] re.op = "Concat" -> PossConcat(re.sub, 1, E, i)
    [] re.op = "Alternate" -> PossAlt(re.sub, 1, E, i)
    [] re.op = "Quest" -> (LET e == PossEnd(re.sub[1], E, i) IN IF e = 0 THEN i ELSE e)
    [] re.op = "Star" -> PossStar(re.sub[1], E, i)
    [] re.op = "Plus" -> (LET e == PossEnd(re.sub[1], E, i) IN IF e = 0 THEN 0 ELSE IF e = i THEN i ELSE PossStar(re.sub[1], E, e))
PossConcat(subs, k, E, i) == IF k > Len(subs) THEN i
                             ELSE LET e == PossEnd(subs[k], E, i) IN IF e = 0 THEN 0 ELSE PossConcat(subs, k + 1, E, e)
PossAlt(subs, k, E, i) == IF k > Len(subs) THEN 0
                          ELSE LET e == PossEnd(subs[k], E, i) IN IF e # 0 THEN e ELSE PossAlt(subs, k + 1, E, i)
PossStar(sub, E, i) == LET e == PossEnd(sub, E, i) IN IF e = 0 \/ e = i THEN i ELSE PossStar(sub, E, e)

\* syntactic classes used to delimit the generator's documented supported class
RECURSIVE HasNonGreedy(_), NGKids(_, _), HasBackrefRune(_), BRKids(_, _)
NGKids(subs, k) == IF k > Len(subs) THEN FALSE ELSE HasNonGreedy(subs[k]) \/ NGKids(subs, k + 1)
HasNonGreedy(re) == (re.op \in {"Quest", "Star", "Plus"} /\ re.ng) \/ NGKids(re.sub, 1)
BRKids(subs, k) == IF k > Len(subs) THEN FALSE ELSE HasBackrefRune(subs[k]) \/ BRKids(subs, k + 1)
HasBackrefRune(re) == (re.op = "Literal" /\ \E k \in 1..Len(re.runes) : IsBackref(re.runes[k])) \/ BRKids(re.sub, 1)
=============================================================================
