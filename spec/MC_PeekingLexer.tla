-------------------------- MODULE MC_PeekingLexer --------------------------
(* Exhaustive exploration of PeekingLexer for all streams up to MaxLen, every operation with every
   argument in every reachable state.  Each explored transition is printed as one EDGE line, which
   the harness replays into a real lexer.PeekingLexer (binding B1: transition coverage).        *)
EXTENDS PeekingLexer

RECURSIVE KStr(_, _)
KStr(t, i) == IF i > Len(t) THEN "" ELSE (IF t[i] = "EOF" THEN "$" ELSE t[i]) \o KStr(t, i + 1)
Trip(c) == S(c[1]) \o "," \o S(c[2]) \o "," \o S(c[3])
RECURSIVE SavedStr(_, _)
SavedStr(sv, i) == IF i > Slots THEN "" ELSE (IF i > 1 THEN ";" ELSE "") \o Trip(sv[i]) \o SavedStr(sv, i + 1)

Edge == "EDGE|" \o KStr(toks, 1) \o "|" \o Trip(<<raw, nxt, cur>>) \o "|" \o SavedStr(saved, 1)
        \o "|" \o ret'[1] \o "|" \o ret'[2] \o "|" \o ret'[3]
        \o "|" \o Trip(<<raw', nxt', cur'>>) \o "|" \o SavedStr(saved', 1)

MCNext == NextStep /\ PrintT(Edge)
MCSpec == Init /\ [][MCNext]_vars
=============================================================================
