CONSTANTS
  CasesFile = "cases.json"
  DevApplyAll = FALSE
  DevRawStart = FALSE
  DevEmptyTokPanics = FALSE
SPECIFICATION Spec
INVARIANT NoDeadCapture
CHECK_DEADLOCK FALSE
