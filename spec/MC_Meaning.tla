------------------------------ MODULE MC_Meaning ------------------------------
(* Evaluates Meaning over a case file: every grammar x every input x every lookahead of the case.
   One EXPECT line per (grammar, lookahead, input) is printed and replayed into the real parser (B1).
   The invariants are the specification-level theorems behind C02, C10, C11 and C13, evaluated for
   every case of the family (each check selects its own in the cfg).                              *)
EXTENDS Meaning, Json

CONSTANTS CasesFile
Cases == JsonDeserialize(CasesFile)
VARIABLES gi, ii, done
vars == <<gi, ii, done>>

G == Cases[gi]
Toks == G.inputs[ii].toks

RECURSIVE PrintAll(_)
PrintAll(k) == IF k > Len(G.ks) THEN TRUE
               ELSE /\ PrintT("EXPECT|" \o G.id \o "|" \o ToString(G.ks[k]) \o "|" \o ToString(ii - 1) \o "|" \o Outcome(G, Toks, G.ks[k]))
                    /\ PrintAll(k + 1)

Init == gi \in 1..Len(Cases) /\ ii \in 1..Len(Cases[gi].inputs) /\ done = FALSE
Next == ~done /\ PrintAll(1) /\ done' = TRUE /\ UNCHANGED <<gi, ii>>
Spec == Init /\ [][Next]_vars

-----------------------------------------------------------------------------
RECURSIVE HasOp(_, _)
HasOp(n, ops) == n.op \in ops
               \/ ("kids" \in DOMAIN n /\ \E i \in 1..Len(n.kids) : HasOp(n.kids[i], ops))
               \/ ("kid" \in DOMAIN n /\ HasOp(n.kid, ops))
NoNegLook(g) == \A i \in 1..Len(g.prods) : ~HasOp(g.prods[i].body, {"neg", "look"})

\* C13: lookahead values in increasing strength; -1 (unlimited) is the largest
Stronger(a, b) == a # b /\ (b < 0 \/ (a >= 0 /\ a < b))   \* every negative value means unlimited
IsOk(r) == r # "err" /\ r # "bug" /\ r # "skip"
LookaheadMonotone ==
  (done /\ NoNegLook(G)) =>
     LET res == [k \in 1..Len(G.ks) |-> Outcome(G, Toks, G.ks[k])] IN
     \A a, b \in 1..Len(G.ks) : (Stronger(G.ks[a], G.ks[b]) /\ IsOk(res[a])) => res[b] = res[a]

\* C10: deleting every elided token changes nothing (grammars of the family do not name elided types and
\* carry no raw-token-index fields)
Project(t) == SelectSeq(t, LAMBDA x : ~x.el)
\* (grammars with lexer.Token fields print raw token indices, which re-spacing shifts: for those only the relation on the
\* real outcomes with tokens compared by type and text is checked, see props/parser.py)
HasIndexFields(g) == \E i \in 1..Len(g.prods) : \E j \in 1..Len(g.prods[i].fields) : g.prods[i].fields[j].kind \in {"token", "tokens", "pos"}
\* the antecedent of C10: the grammar never names an elided token type (the core lexer elides WS and Comment)
ElidedTypes == {"WS", "Comment"}
RECURSIVE NodeNamesElided(_)
NodeNamesElided(n) ==
  CASE n.op \in {"lit", "ref"} -> n.t \in ElidedTypes
    [] n.op \in {"seq", "alt"} -> \E i \in 1..Len(n.kids) : NodeNamesElided(n.kids[i])
    [] n.op \in {"grp", "cap", "neg", "look"} -> NodeNamesElided(n.kid)
    [] OTHER -> FALSE
NamesElided(g) == \E i \in 1..Len(g.prods) : NodeNamesElided(g.prods[i].body)
ElisionIndependent ==
  (done /\ ~HasIndexFields(G) /\ ~NamesElided(G)) => \A k \in 1..Len(G.ks) : LET a == Outcome(G, Toks, G.ks[k])  b == Outcome(G, Project(Toks), G.ks[k]) IN
                                   (a # "bug" /\ b # "bug") => a = b

\* C02: no write of an abandoned attempt targets a struct value that survives it
NoDeadCapture ==
  done => \A k \in 1..Len(G.ks) : LET r == RootEval(G, Toks, G.ks[k]) IN
             r.k = "ok" => ~\E i \in 1..Len(r.log) : "dead" \in DOMAIN r.log[i]

\* C11: node runs nest, siblings are disjoint and ordered, Pos lies in the run, the root's run ends at the last consumed token
NodeWrites(log, id) == SelectSeq(log, LAMBDA e : "inst" \in DOMAIN e /\ e.inst = id /\ Len(e.vals) > 0 /\ "node" \in DOMAIN e.vals[1])
RECURSIVE Kids(_, _)
Kids(ws, i) == IF i > Len(ws) THEN <<>> ELSE [j \in 1..Len(ws[i].vals) |-> ws[i].vals[j].node] \o Kids(ws, i + 1)
RECURSIVE Live(_, _, _)
Live(log, S, fuel) == LET S2 == S \cup UNION {{Kids(NodeWrites(log, id), 1)[j] : j \in 1..Len(Kids(NodeWrites(log, id), 1))} : id \in S}
                      IN IF S2 = S \/ fuel = 0 THEN S ELSE Live(log, S2, fuel - 1)
WellFormedAt(log, id) ==
  LET h == Hdr(log, id)
      ks == Kids(NodeWrites(log, id), 1)
  IN /\ h.start <= h.end
     /\ (h.end > h.start /\ h.pos < h.end => h.pos >= h.start)
     /\ \A j \in 1..Len(ks) : Hdr(log, ks[j]).start >= h.start /\ Hdr(log, ks[j]).end <= h.end
     /\ \A j \in 1..(Len(ks) - 1) : Hdr(log, ks[j]).end <= Hdr(log, ks[j + 1]).start
NodeRunsWellFormed ==
  done => \A k \in 1..Len(G.ks) :
     LET r == RootEval(G, Toks, G.ks[k]) IN
     Accepted(G, Toks, G.ks[k]) =>
        /\ \A id \in Live(r.log, {r.vals[1].node}, 12) : WellFormedAt(r.log, id)
        /\ Hdr(r.log, r.vals[1].node).end = r.st.raw
=============================================================================
