CONSTANTS
  CasesFile = "cases.json"
  DevApplyAll = FALSE
  DevRawStart = FALSE
  DevEmptyTokPanics = FALSE
SPECIFICATION Spec
INVARIANT NodeRunsWellFormed
CHECK_DEADLOCK FALSE
