---------------------------- MODULE PeekingLexer ----------------------------
(* lexer/peek.go: the three cursors of a PeekingLexer over a fixed token stream, updated
   incrementally exactly as the code updates them, one action per public operation.
   The invariants state the abstract meaning property C12 gives to every observation, from the
   raw cursor alone.  Indices are 1-based here (Go's RawCursor + 1).                        *)
EXTENDS Integers, Sequences, FiniteSets, TLC

CONSTANTS MaxLen,      \* streams of 0..MaxLen tokens followed by EOF
          Slots        \* number of checkpoint slots (checkpoints are values in Go; a caller may hold several)

\* token kinds: "N" ordinary, "E" elided, "X" elided and selected by the predicate {"X"}; the last token is "EOF"
Kinds == {"N", "E", "X"}
Streams == UNION { { s \o <<"EOF">> : s \in [1..n -> Kinds] } : n \in 0..MaxLen }
Elided(k) == k \in {"E", "X"}
\* (the last one accepts an elided kind AND the ordinary kind: the first token it accepts from the raw cursor on wins)
Preds == {{}, {"X"}, {"N"}, {"E", "X"}, {"N", "X"}}
NoCp == <<0, 0, 0>>

VARIABLES toks,    \* the stream
          raw,     \* rawCursor: next possibly elided token
          nxt,     \* nextCursor: next non-elided token
          cur,     \* cursor: number of non-elided tokens consumed
          saved,   \* checkpoint slots: <<raw, nxt, cur>> or NoCp
          ret,     \* <<operation, argument, result>> of the last operation (output only)
          reads    \* stream indices dereferenced by the last operation (output only)
vars == <<toks, raw, nxt, cur, saved, ret, reads>>
view == <<toks, raw, nxt, cur, saved>>

Eof == Len(toks)

\* ---- abstract meaning (what the property talks about) ---------------------------------------
RECURSIVE FirstNonElided(_, _)
FirstNonElided(t, i) == IF t[i] = "EOF" \/ ~Elided(t[i]) THEN i ELSE FirstNonElided(t, i + 1)
RECURSIVE CountNonElided(_, _, _)   \* non-elided, non-EOF tokens in a..b
CountNonElided(t, a, b) == IF a > b THEN 0 ELSE (IF t[a] # "EOF" /\ ~Elided(t[a]) THEN 1 ELSE 0) + CountNonElided(t, a + 1, b)
RECURSIVE PeekAnyAt(_, _, _)
PeekAnyAt(t, i, M) == IF t[i] = "EOF" \/ t[i] \in M \/ ~Elided(t[i]) THEN i ELSE PeekAnyAt(t, i + 1, M)

\* ---- the code's own loops ------------------------------------------------------------------------
\* advanceToNonElided: returns <<index reached, set of indices read>>
RECURSIVE Adv(_, _, _)
Adv(t, i, rd) == IF t[i] = "EOF" \/ ~Elided(t[i]) THEN <<i, rd \cup {i}>> ELSE Adv(t, i + 1, rd \cup {i})
\* FastForward loop: for ; raw <= c; raw++ { EOF -> break; non-elided -> cursor++ }
RECURSIVE FFLoop(_, _, _, _, _)
FFLoop(t, r, c, cu, rd) == IF r > c THEN <<r, cu, rd>>
                           ELSE IF t[r] = "EOF" THEN <<r, cu, rd \cup {r}>>
                           ELSE FFLoop(t, r + 1, c, IF Elided(t[r]) THEN cu ELSE cu + 1, rd \cup {r})
RECURSIVE PALoop(_, _, _, _)
PALoop(t, i, M, rd) == IF t[i] = "EOF" \/ t[i] \in M \/ ~Elided(t[i]) THEN <<i, rd \cup {i}>> ELSE PALoop(t, i + 1, M, rd \cup {i})

S(n) == ToString(n)
PredName(M) == CASE M = {} -> "none" [] M = {"X"} -> "X" [] M = {"N"} -> "N" [] M = {"N", "X"} -> "NX" [] OTHER -> "EX"

Init == /\ toks \in Streams
        /\ raw = 1 /\ nxt = Adv(toks, 1, {})[1] /\ cur = 0
        /\ saved = [s \in 1..Slots |-> NoCp] /\ ret = <<"init", "", "">> /\ reads = {}

Next == /\ IF toks[nxt] = "EOF"
           THEN UNCHANGED <<raw, nxt, cur>> /\ reads' = {nxt}
           ELSE LET a == Adv(toks, nxt + 1, {nxt}) IN
                raw' = nxt + 1 /\ cur' = cur + 1 /\ nxt' = a[1] /\ reads' = a[2]
        /\ ret' = <<"Next", "", S(nxt)>> /\ UNCHANGED <<toks, saved>>
Peek == ret' = <<"Peek", "", S(nxt)>> /\ reads' = {nxt} /\ UNCHANGED <<toks, raw, nxt, cur, saved>>
RawPeek == ret' = <<"RawPeek", "", S(raw)>> /\ reads' = {raw} /\ UNCHANGED <<toks, raw, nxt, cur, saved>>
PeekAny(M) == LET r == PALoop(toks, raw, M, {}) IN
              ret' = <<"PeekAny", PredName(M), S(r[1])>> /\ reads' = r[2] /\ UNCHANGED <<toks, raw, nxt, cur, saved>>
\* FastForward(c): c any index 1..Len+1 (Go cursor c-1, up to one past the stream)
FastForward(c) == LET f == FFLoop(toks, raw, c, cur, {})
                      a == Adv(toks, f[1], f[3]) IN
                  /\ raw' = f[1] /\ cur' = f[2] /\ nxt' = a[1] /\ reads' = a[2]
                  /\ ret' = <<"FastForward", S(c), "">> /\ UNCHANGED <<toks, saved>>
\* Range(a, b): the tokens with Go indices a-1 .. b-2, i.e. 1-based a .. b-1
Range(a, b) == /\ ret' = <<"Range", S(a) \o "," \o S(b), S(b - a)>> /\ reads' = a..(b - 1)
               /\ UNCHANGED <<toks, raw, nxt, cur, saved>>
MakeCheckpoint(s) == /\ saved' = [saved EXCEPT ![s] = <<raw, nxt, cur>>] /\ ret' = <<"MakeCheckpoint", S(s), "">>
                     /\ reads' = {} /\ UNCHANGED <<toks, raw, nxt, cur>>
LoadCheckpoint(s) == /\ saved[s] # NoCp /\ raw' = saved[s][1] /\ nxt' = saved[s][2] /\ cur' = saved[s][3]
                     /\ ret' = <<"LoadCheckpoint", S(s), "">> /\ reads' = {} /\ UNCHANGED <<toks, saved>>

NextStep == \/ Next \/ Peek \/ RawPeek
            \/ \E s \in 1..Slots : MakeCheckpoint(s) \/ LoadCheckpoint(s)
            \/ \E M \in Preds : PeekAny(M)
            \/ \E c \in 1..(Len(toks) + 1) : FastForward(c)
            \/ \E a \in 1..(Len(toks) + 1) : \E b \in a..(Len(toks) + 1) : Range(a, b)
Spec == Init /\ [][NextStep]_vars

\* ---- C12 as invariants over the incremental state -------------------------------------------------
TypeOK == raw \in 1..Eof /\ nxt \in raw..Eof /\ cur \in 0..Eof
PeekIsFirstNonElided == nxt = FirstNonElided(toks, raw) /\ \A i \in raw..(nxt - 1) : Elided(toks[i])
CursorCounts == cur = CountNonElided(toks, 1, raw - 1)
SavedConsistent == \A s \in 1..Slots : saved[s] = NoCp \/
                      (saved[s][2] = FirstNonElided(toks, saved[s][1]) /\ saved[s][3] = CountNonElided(toks, 1, saved[s][1] - 1))
NoOutOfRangeRead == reads \subseteq 1..Len(toks)
\* action properties
NextMoves == [][ret'[1] = "Next" => IF toks[nxt] = "EOF" THEN UNCHANGED <<raw, nxt, cur>>
                                     ELSE raw' = nxt + 1 /\ cur' = cur + 1]_vars
PeekAnyMeaning == [][ret'[1] = "PeekAny" => \E M \in Preds : ret'[2] = PredName(M) /\ ret'[3] = S(PeekAnyAt(toks, raw, M))]_vars
FFToPeekAny == [][\A M \in Preds : \A c \in 1..(Len(toks) + 1) :
                    (ret'[1] = "FastForward" /\ ret'[2] = S(c) /\ c = PeekAnyAt(toks, raw, M))
                       => raw' = (IF toks[c] = "EOF" THEN c ELSE c + 1)]_vars
RestoreIsExact == [][\A s \in 1..Slots : (ret'[1] = "LoadCheckpoint" /\ ret'[2] = S(s)) => <<raw', nxt', cur'>> = saved[s]]_vars
ObservationsPure == [][ret'[1] \in {"Peek", "RawPeek", "PeekAny", "Range", "MakeCheckpoint"} => UNCHANGED <<raw, nxt, cur>>]_vars
=============================================================================
