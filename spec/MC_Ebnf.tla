-------------------------------- MODULE MC_Ebnf --------------------------------
(* C14 trace-style validation: the case file carries, per grammar, the abstract grammar and what the real
   Parser.String() produced after parsing it with the ebnf package (field real: status, tree, roundtrip).
   Each clause of the property is an invariant over the cases; one EBNF line per case reports the verdict. *)
EXTENDS Ebnf, Json
CONSTANT CasesFile
Cases == JsonDeserialize(CasesFile)
VARIABLES gi, done
C == Cases[gi]
Tree == C.real.tree
Verdict ==
  IF C.real.status # "ok" THEN C.real.status
  ELSE IF ~RootFirst(Tree, C.root) THEN "root-not-first"
  ELSE IF ~DefinedOnce(Tree) THEN "defined-twice"
  ELSE IF ~AllRefsDefinedBut(Tree, {C.userprods[i] : i \in 1..Len(C.userprods)}) THEN "undefined-reference"
  ELSE IF C.structure /\ ~SameAsSet(Tree, EbnfOf(C, C.root)) THEN "structure-differs"
  ELSE IF ~C.real.roundtrip THEN "print-parse-print-differs"
  ELSE "ok"
Init == gi \in 1..Len(Cases) /\ done = FALSE
Next == ~done /\ PrintT("EBNF|" \o C.id \o "|" \o Verdict) /\ done' = TRUE /\ UNCHANGED gi
Spec == Init /\ [][Next]_<<gi, done>>
\* the specification's own output is well formed
SpecWellFormed == C.structure => LET e == EbnfOf(C, C.root) IN RootFirst(e, C.root) /\ DefinedOnce(e) /\ AllRefsDefined(e)
\* Norm is idempotent
NormIdempotent == C.structure => LET e == EbnfOf(C, C.root) IN \A k \in 1..Len(e) : NormExpr(NormExpr(e[k].expr)) = NormExpr(e[k].expr)
=============================================================================
