----------------------------- MODULE Trace_ErrOK -----------------------------
(* C06, the error well-formedness clause, as a trace specification.  Each event is the set of raw facts the harness read
   from one failing Parse / ParseString / ParseBytes call through the public error API; the location clause is judged with
   Position!PosOf on the input itself (not with the harness's arithmetic).
   event: chars (input characters), off/line/col (Position of the error), isError (implements participle.Error), fileOk
   (position carries the supplied filename), textOk (Error() = [file:]line:col: + Message()), kind ("unexpected" | "other"),
   tokenInStream (an unexpected-token error names a token of Parser.Lex's stream), lexFailed, astNil.                  *)
EXTENDS LexStream, Json
CONSTANT TraceFile
Trace == ndJsonDeserialize(TraceFile)
VARIABLE l
E == Trace[l]

Located(e) == /\ e.off >= 0 /\ e.off <= TotalBytes(e.chars)
              /\ LET i == CharIdx(e.chars, e.off) IN i # 0 /\ PosOf(e.chars, i) = Pos(e.off, e.line, e.col)
ErrOK(e) == /\ e.isError /\ e.fileOk /\ Located(e) /\ e.textOk
            /\ (e.kind = "unexpected" => e.tokenInStream)
            /\ (e.lexFailed <=> e.astNil)            \* lexing failure: nil AST; parse failure: non-nil partial AST

TraceInit == TLCSet(1, 1) /\ l = 1
             /\ input = <<>> /\ noDrop = FALSE /\ lastEnd = 0 /\ ntok = 0 /\ finished = FALSE
TCheck == l <= Len(Trace) /\ ErrOK(E) /\ l' = l + 1 /\ UNCHANGED lsvars
TraceSpec == TraceInit /\ [][TCheck]_<<lsvars, l>>
HighWater == TLCSet(1, IF TLCGet(1) < l THEN l ELSE TLCGet(1))
TraceAccepted == LET hw == TLCGet(1) IN IF hw = Len(Trace) + 1 THEN TRUE ELSE PrintT("REJECTED|" \o ToString(hw)) /\ FALSE
=============================================================================
