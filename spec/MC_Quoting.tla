------------------------------ MODULE MC_Quoting ------------------------------
(* Mode "unquote": every string up to MaxLen over the alphabet in the three quoting styles (plus the raw bodies as
   literal text, which exercises invalid escapes): the inversion theorems are invariants and one Q line per literal gives
   the expected result of participle.Unquote.  Mode "mappers": every stream up to MaxStream over three token types x
   every choice of NMappers mappers (3 with longer streams, 6 with streams of at most one token): invariant SeesExactlyOnce, one M line with the expected call log.          *)
EXTENDS Quoting
CONSTANTS MaxLen, MaxStream, Mode, NMappers
Strings == UNION {[1..k -> Content] : k \in 0..MaxLen}
Types == {"A", "B", "C"}
Sels == {{}, {"A"}, {"B"}, {"A", "B"}, {"C"}}
VARIABLES s, form, stream, msel, done
vars == <<s, form, stream, msel, done>>
Ms == [k \in 1..Len(msel) |-> [id |-> k, sel |-> msel[k]]]

Text == CASE form = "dq" -> Quote(s)
          [] form = "raw" -> RawQuote(s)
          [] form = "sq" -> <<"S">> \o QuoteBody(s, 1, "S") \o <<"S">>
          [] form = "dqbody" -> <<"Q">> \o s \o <<"Q">>       \* arbitrary text between double quotes: invalid escapes
          [] form = "sqbody" -> <<"S">> \o s \o <<"S">>

\* number of consecutive backslashes immediately before position i
RECURSIVE BackslashesBefore(_, _)
BackslashesBefore(x, i) == IF i <= 1 \/ x[i - 1] # "K" THEN 0 ELSE 1 + BackslashesBefore(x, i - 1)
\* the text q x q lexes as one literal: every quote inside is escaped, no raw newline, the closing quote is not escaped
OneLiteral(x, q) == /\ \A i \in 1..Len(x) : x[i] # "N" /\ (x[i] = q => BackslashesBefore(x, i) % 2 = 1)
                    /\ BackslashesBefore(x, Len(x) + 1) % 2 = 0

Init == /\ done = FALSE
        /\ IF Mode = "unquote"
           THEN /\ s \in Strings /\ form \in {"dq", "raw", "sq", "dqbody", "sqbody"}
                /\ (form = "raw" => RawOk(s))
                /\ (form = "dqbody" => OneLiteral(s, "Q"))
                /\ (form = "sqbody" => OneLiteral(s, "S"))
                /\ stream = <<>> /\ msel = <<>>
           ELSE /\ s = <<>> /\ form = ""
                /\ stream \in UNION {[1..k -> Types] : k \in 0..MaxStream}
                /\ msel \in [1..NMappers -> Sels]
RECURSIVE SelStr(_, _), LogStr(_, _), SeqStr(_, _)
SeqStr(x, i) == IF i > Len(x) THEN "" ELSE x[i] \o SeqStr(x, i + 1)
SelName(S) == CASE S = {} -> "*" [] S = {"A"} -> "A" [] S = {"B"} -> "B" [] S = {"C"} -> "C" [] OTHER -> "AB"
SelStr(m, k) == IF k > Len(m) THEN "" ELSE (IF k > 1 THEN "," ELSE "") \o SelName(m[k]) \o SelStr(m, k + 1)
LogStr(l, k) == IF k > Len(l) THEN "" ELSE (IF k > 1 THEN " " ELSE "") \o ToString(l[k][1]) \o "@" \o ToString(l[k][2]) \o LogStr(l, k + 1)
Next == /\ ~done /\ done' = TRUE /\ UNCHANGED <<s, form, stream, msel>>
        /\ IF Mode = "unquote" THEN PrintT("Q|" \o form \o "|" \o Cat(Text, 1) \o "|" \o Show(UnquoteIntended(Text)))
           ELSE PrintT("M|" \o SeqStr(stream, 1) \o "|" \o SelStr(msel, 1) \o "|" \o LogStr(CallLog(stream, 1, Ms), 1))
Spec == Init /\ [][Next]_vars
Inversion == Mode = "unquote" => (QuoteInverts(s) /\ RawInverts(s) /\ SingleInverts(s))
ExactlyOnce == Mode = "mappers" => SeesExactlyOnce(stream, Ms)
=============================================================================
