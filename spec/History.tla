------------------------------- MODULE History -------------------------------
(* C09, the sequential clause ("repeated use"): a built parser, a lexer definition and the package-level ebnf parser are
   objects whose calls are PURE - the result of a call is a function of the call alone, whatever calls were made on the
   object before it (successful ones, ones that failed half-way, ones that panicked and were recovered) and whatever other
   objects were used in the process.
   State: `fresh` maps a call (object kind + entry point + arguments, as a string) to the result it gives on an object
   that has never been used; it is learnt from Fresh events.  A Used event is allowed only if its result is that result.
   (Concurrency.tla covers the concurrent clause for the one shared mutable structure of the design.)                  *)
EXTENDS Integers, Sequences, TLC

VARIABLE fresh          \* [known calls -> result]
NoKnowledge == <<>>     \* the empty function

Known(c) == c \in DOMAIN fresh
\* a never-used object performs call c and returns r (the first such observation defines the call's result)
Fresh(c, r) == /\ (Known(c) => fresh[c] = r)
               /\ fresh' = IF Known(c) THEN fresh ELSE [x \in DOMAIN fresh \cup {c} |-> IF x = c THEN r ELSE fresh[x]]
\* an object with a history performs call c and returns r
Used(c, r) == Known(c) /\ fresh[c] = r /\ UNCHANGED fresh
=============================================================================
