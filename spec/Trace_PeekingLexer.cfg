CONSTANTS
  MaxLen = 0
  Slots = 2
  TraceFile = "trace.ndjson"
SPECIFICATION TraceSpec
VIEW tview
INVARIANTS TypeOK PeekIsFirstNonElided CursorCounts SavedConsistent NoOutOfRangeRead
PROPERTIES NextMoves PeekAnyMeaning FFToPeekAny RestoreIsExact ObservationsPure
CONSTRAINT HighWater
POSTCONDITION TraceAccepted
CHECK_DEADLOCK FALSE
