---------------------------- MODULE StatefulLexer ----------------------------
(* lexer/stateful.go: one StatefulLexer over one input.  The state is what the Go object holds between
   calls (remaining input as a character index, running position, state stack with the groups captured
   by the rule that entered each state); the single action NextCall is one call of Next(), defined by the
   operator Call that follows the code path by path.  Rule maps come from a JSON case file prepared by
   the harness (patterns already parsed to simplified regexp/syntax trees).                        *)
EXTENDS Regex, Position, TLC

CONSTANTS DevUnderflowPanics,     \* TRUE reproduces the pinned code: Pop/Return with only Root on the stack panics (repaired)
          DevBackrefInvalidUtf8   \* TRUE reproduces a recorded finding: a back-reference to a group containing an invalid
                                  \* UTF-8 byte is a lexing error (the expanded pattern does not compile) instead of a literal match

Top(stack) == stack[Len(stack)]
PopStack(stack) == SubSeq(stack, 1, Len(stack) - 1)

\* include expansion: included states spliced in place, repeatedly (lexer.New)
RECURSIVE ExpandRules(_, _, _)
ExpandRules(all, rs, k) ==
  IF k > Len(rs) THEN <<>>
  ELSE (IF rs[k].act = "include" THEN ExpandRules(all, all[rs[k].state], 1) ELSE <<rs[k]>>) \o ExpandRules(all, rs, k + 1)
RulesOf(c, state) == ExpandRules(c.rules, c.rules[state], 1)

Rest(s, i) == SubSeq(s, i, Len(s))
CodePoints(s, a, b) == [k \in 1..(b - a) |-> s[a + k - 1][1]]   \* text of s[a..b-1]

\* walk the rules of the current state in order: the first rule whose pattern matches the remaining input
\* (as a text of its own) is selected; a Return rule reached first wins; a back-reference to a group the
\* entering rule did not capture is an error when that rule is reached.
\* groups handed to the entered state: group 0 = the whole match, then every sub-match ("" when unset)
Groups(s, i, len, caps) ==
  <<CodePoints(s, i, i + len)>> \o
  [n \in 1..Len(caps) |-> IF caps[n] = <<0, 0>> THEN <<>> ELSE CodePoints(s, i + caps[n][1] - 1, i + caps[n][2] - 1)]

\* Matching one rule at character index i.  Three matchers:
\*   backtracking (Regex!BtMatch, the runtime lexer), possessive (Regex!PossEnd, the generated lexers), and an ORACLE:
\*   a rule whose tree is [op |-> "Oracle"] is looked up in c.oracle, a table recorded from the standard library's regexp for
\*   lexers whose patterns are beyond Regex.tla (trace validation of realistic lexers): entries [state, groups, tab] with
\*   tab[rule index][i] = [len (-1: no match), groups].
OracleLookup(c, name, grp, k, i) ==
  LET e == CHOOSE e \in 1..Len(c.oracle) : c.oracle[e].state = name /\ c.oracle[e].groups = grp IN c.oracle[e].tab[k][i]
RuleMatch(c, name, r, k, s, i, grp, poss) ==
  IF r.tree.op = "Oracle"
  THEN LET o == OracleLookup(c, name, grp, k, i) IN [len |-> o.len, grps |-> o.groups]
  ELSE LET E == [s |-> Rest(s, i), grp |-> grp]
           m == IF poss THEN [e |-> PossEnd(r.tree, E, 1), c |-> NoCaps(r.ncap)] ELSE BtMatch(r.tree, r.ncap, E) IN
       IF m.e = 0 THEN [len |-> -1, grps |-> <<>>] ELSE [len |-> m.e - 1, grps |-> Groups(s, i, m.e - 1, m.c)]

\* walk the rules of the current state in order (see above); name = the state, for the oracle
RECURSIVE Scan(_, _, _, _, _, _, _, _)
Scan(c, name, rs, k, s, i, grp, poss) ==
  IF k > Len(rs) THEN [kind |-> "none"]
  ELSE IF rs[k].act = "return" THEN [kind |-> "return"]
  ELSE IF \E n \in 1..Len(rs[k].backrefs) : rs[k].backrefs[n] + 1 > Len(grp) THEN [kind |-> "badref", k |-> k]
  ELSE IF DevBackrefInvalidUtf8 /\ \E n \in 1..Len(rs[k].backrefs) : \E j \in 1..Len(grp[rs[k].backrefs[n] + 1]) : grp[rs[k].backrefs[n] + 1][j] = 65533
       THEN [kind |-> "badref", k |-> k]
  ELSE LET m == RuleMatch(c, name, rs[k], k, s, i, grp, poss) IN
       IF m.len < 0 THEN Scan(c, name, rs, k + 1, s, i, grp, poss) ELSE [kind |-> "match", k |-> k, len |-> m.len, grps |-> m.grps]

\* some rule of the state matches differently under the two semantics on the remaining input (C05's tolerated case)
RECURSIVE AnyDiff(_, _, _, _)
AnyDiff(rs, k, s, i) ==
  IF k > Len(rs) THEN FALSE
  ELSE IF rs[k].act \in {"return", "include"} THEN AnyDiff(rs, k + 1, s, i)
  ELSE LET E == [s |-> Rest(s, i), grp |-> <<>>] IN
       BtMatch(rs[k].tree, rs[k].ncap, E).e # PossEnd(rs[k].tree, E, 1) \/ AnyDiff(rs, k + 1, s, i)

NoTok == [name |-> "", from |-> 0, to |-> 0, pos |-> StartPos]
Res(st, status, tok) == [st |-> st, status |-> status, tok |-> tok, why |-> "", diff |-> FALSE]
Err(st, why) == [st |-> st, status |-> "err", tok |-> NoTok, why |-> why, diff |-> FALSE]

\* one call of Next().  st = [i, pos, stack]; stack entries [name, groups].
\* opt = [poss |-> matcher, track |-> whether to report in .diff that some visited step was a tolerated one]
RECURSIVE CallM(_, _, _, _)
WithDiff(r, d) == [r EXCEPT !.diff = r.diff \/ d]
CallM(c, s, st, opt) ==
  IF st.stack = <<>> THEN Res(st, "panic", NoTok)
  ELSE IF st.i > Len(s) THEN Res(st, "eof", [name |-> "EOF", from |-> st.i, to |-> st.i, pos |-> st.pos])
  ELSE LET rs == RulesOf(c, Top(st.stack).name)
           sc == Scan(c, Top(st.stack).name, rs, 1, s, st.i, Top(st.stack).groups, opt.poss)
           d == opt.track /\ AnyDiff(rs, 1, s, st.i)
       IN IF d THEN WithDiff(Err(st, "tolerated"), TRUE) ELSE
          CASE sc.kind = "return" ->
                 (IF Len(st.stack) = 1
                  THEN (IF DevUnderflowPanics THEN Res(st, "panic", NoTok) ELSE Err(st, "underflow"))
                  ELSE CallM(c, s, [st EXCEPT !.stack = PopStack(st.stack)], opt))
            [] sc.kind = "none" -> Err(st, "nomatch")
            [] sc.kind = "badref" -> Err(st, "badref")
            [] sc.kind = "match" ->
                 (LET r == rs[sc.k]
                      j == st.i + sc.len
                      pos2 == Advance(st.pos, s, st.i, j)
                      under == r.act = "pop" /\ Len(st.stack) = 1
                      stack2 == CASE r.act = "push" -> Append(st.stack, [name |-> r.state, groups |-> sc.grps])
                                  [] r.act = "pop" -> PopStack(st.stack)
                                  [] OTHER -> st.stack
                      st2 == [i |-> j, pos |-> pos2, stack |-> stack2]
                  IN IF sc.len = 0 THEN Err(st, "empty")       \* an action or a plain rule that matched nothing
                     ELSE IF under /\ ~DevUnderflowPanics THEN Err(st, "underflow")
                     ELSE IF under /\ r.elided THEN Res(st2, "panic", NoTok)
                     ELSE IF r.elided THEN CallM(c, s, st2, opt)
                     ELSE Res(st2, "run", [name |-> r.name, from |-> st.i, to |-> j, pos |-> st.pos]))

Call(c, s, st) == CallM(c, s, st, [poss |-> FALSE, track |-> FALSE])

InitLexer == [i |-> 1, pos |-> StartPos, stack |-> <<[name |-> "Root", groups |-> <<>>]>>]

\* symbol table of lexer.New: EOF = -1, then one fresh number per rule in sorted state order over the expanded
\* rules, a repeated name keeping the last number.  Returned as a sequence of <<name, number>> in assignment order.
RECURSIVE SymSeq(_, _, _, _, _)
SymSeq(c, states, si, k, n) ==
  IF si > Len(states) THEN <<>>
  ELSE LET rs == RulesOf(c, states[si]) IN
       IF k > Len(rs) THEN SymSeq(c, states, si + 1, 1, n)
       ELSE <<<<rs[k].name, n>>>> \o SymSeq(c, states, si, k + 1, n - 1)
Symbols(c) == SymSeq(c, c.states, 1, 1, -2)     \* c.states: state names sorted
SymbolOf(c, name) == LET ss == Symbols(c)
                         idx == {k \in 1..Len(ss) : ss[k][1] = name}
                     IN ss[CHOOSE k \in idx : \A k2 \in idx : k2 <= k][2]
=============================================================================
