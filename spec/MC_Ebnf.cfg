CONSTANTS
  CasesFile = "ecases.json"
SPECIFICATION Spec
INVARIANTS SpecWellFormed NormIdempotent
CHECK_DEADLOCK FALSE
