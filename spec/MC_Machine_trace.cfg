CONSTANTS
  CasesFile = "cases.json"
  DevApplyAll = FALSE
  DevRawStart = FALSE
  DevEmptyTokPanics = FALSE
SPECIFICATION MSpec
INVARIANTS Refines CtxDiscipline CursorOrder NoReentry ErrCarried DepthSane TraceConforms NodeTraceConforms
PROPERTIES Terminates NoWriteBeforeCommit
CHECK_DEADLOCK FALSE
