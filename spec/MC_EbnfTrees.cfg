CONSTANTS
  Deep = FALSE
SPECIFICATION Spec
INVARIANTS Shaped
CHECK_DEADLOCK FALSE
