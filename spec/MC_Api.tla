-------------------------------- MODULE MC_Api --------------------------------
(* C15: every entry point of a parser is the same function of (grammar, input, options):
     Parse(reader) = ParseString = ParseBytes = ParseFromLexer(Upgrade(Parser.Lex(input))) = Meaning(g, Tokens(input), opts),
   with or without the Trace option, and the definition's Lex / LexString / LexBytes all yield Tokens(input).
   For each case the single specification value is printed together with the state in which ParseFromLexer with trailing
   input allowed must leave the caller's lexer (raw cursor just after the last consumed token, Peek = next non-elided).  *)
EXTENDS Meaning, Json
CONSTANT CasesFile
Cases == JsonDeserialize(CasesFile)
VARIABLES gi, ii, done
G == Cases[gi]
Toks == G.inputs[ii].toks
EntryPoints == {"Parse", "ParseString", "ParseBytes", "ParseFromLexer", "ParseString+Trace", "ParseBytes+Trace"}
\* the specification of every entry point is one and the same operator
Result(ep, k) == Outcome(G, Toks, k)
After(k) == LET r == RootEval(G, Toks, k)
                env == [g |-> G, toks |-> Toks, K |-> k] IN
            IF r.k = "ok" THEN "ok cursor=" \o ToString(r.st.raw) \o " peek=" \o ToString(NxtFrom(env, r.st.raw))
            ELSE IF r.k = "bug" THEN "bug" ELSE "err"
RECURSIVE PrintAll(_)
PrintAll(k) == IF k > Len(G.ks) THEN TRUE
               ELSE /\ PrintT("API|" \o G.id \o "|" \o ToString(G.ks[k]) \o "|" \o ToString(ii - 1) \o "|" \o After(G.ks[k]) \o "|" \o Result("ParseString", G.ks[k]))
                    /\ PrintAll(k + 1)
Init == gi \in 1..Len(Cases) /\ ii \in 1..Len(Cases[gi].inputs) /\ done = FALSE
Next == ~done /\ PrintAll(1) /\ done' = TRUE /\ UNCHANGED <<gi, ii>>
Spec == Init /\ [][Next]_<<gi, ii, done>>
AllAgree == \A a, b \in EntryPoints : \A k \in 1..Len(G.ks) : done => Result(a, G.ks[k]) = Result(b, G.ks[k])
=============================================================================
