CONSTANTS
  CasesFile = "ncases.json"
SPECIFICATION Spec
INVARIANT EmptyRejected
CHECK_DEADLOCK FALSE
