--------------------------- MODULE ContextProtocol ---------------------------
(* The parse-context protocol of context.go on its own: Branch, Accept, Stop/Drop, Defer, and the entry / exit of a
   production (strct.Parse: ApplyFrom at exit), with EVERY well-nested caller - no grammar, no input: each step is chosen
   nondeterministically.  It answers the design question behind C02 for all grammars at once (up to the bounds): does a
   capture made in an attempt that is later abandoned ever reach a struct value that survives the attempt?

   State:
     ctxs    stack of contexts [pend, nid0]; pend = captures deferred and not yet applied (capture = [id, inst]),
             nid0 = the next instance id when the context was branched (instances >= nid0 were created inside it)
     frames  stack of production frames [inst, from, depth]: the instance under construction, the length of the context's
             pending list at entry, and the context depth at entry
     nid     next instance id;  cid  next capture id
     writes  captures applied so far: [id, inst, depth, nid0] (depth / nid0 of the context that applied them)
     dropped ids of instances created inside a branch that was abandoned afterwards (unreachable from the result)
     droppedB ids of abandoned branches; every write remembers the branches that were open when it was applied
   ApplyAll = TRUE reproduces the pinned tree (a completing production applied every pending capture of its context). *)
EXTENDS Integers, Sequences, FiniteSets, TLC

CONSTANTS MaxDepth,    \* bound on nested branches
          MaxFrames,   \* bound on nested productions
          MaxCaps,     \* bound on captures made
          MaxBranches, \* bound on branches opened in a behaviour
          MaxInst,     \* bound on struct values created in a behaviour
          ApplyAll     \* deviation switch (see above)

VARIABLES ctxs, frames, nid, cid, bidn, writes, dropped, droppedB
vars == <<ctxs, frames, nid, cid, bidn, writes, dropped, droppedB>>

Top(s) == s[Len(s)]
Pop(s) == SubSeq(s, 1, Len(s) - 1)
SetTop(s, x) == [s EXCEPT ![Len(s)] = x]

Init == /\ ctxs = <<[pend |-> <<>>, nid0 |-> 1, bid |-> 0]>>
        /\ frames = <<>> /\ nid = 1 /\ cid = 1 /\ bidn = 1 /\ writes = {} /\ dropped = {} /\ droppedB = {}
OpenBranches == {ctxs[d].bid : d \in 2..Len(ctxs)}

\* a production is entered: a new struct value is created
Enter == /\ Len(frames) < MaxFrames /\ nid <= MaxInst
         /\ frames' = Append(frames, [inst |-> nid, from |-> Len(Top(ctxs).pend), depth |-> Len(ctxs)])
         /\ nid' = nid + 1 /\ UNCHANGED <<ctxs, cid, bidn, writes, dropped, droppedB>>
\* a capture of the production under construction is deferred in the current context
Defer == /\ frames # <<>> /\ cid <= MaxCaps
         /\ ctxs' = SetTop(ctxs, [Top(ctxs) EXCEPT !.pend = Append(@, [id |-> cid, inst |-> Top(frames).inst])])
         /\ cid' = cid + 1 /\ UNCHANGED <<frames, nid, bidn, writes, dropped, droppedB>>
\* the production completes (or fails with a partial AST) in the context it was entered in: its captures are applied
Exit == /\ frames # <<>>
        /\ Top(frames).depth = Len(ctxs)
        /\ LET c == Top(ctxs)
               from == IF ApplyAll THEN 0 ELSE Top(frames).from
               applied == SubSeq(c.pend, from + 1, Len(c.pend)) IN
           /\ writes' = writes \cup {[id |-> applied[k].id, inst |-> applied[k].inst, depth |-> Len(ctxs), nid0 |-> c.nid0, open |-> OpenBranches] : k \in 1..Len(applied)}
           /\ ctxs' = SetTop(ctxs, [c EXCEPT !.pend = SubSeq(c.pend, 1, from)])
        /\ frames' = Pop(frames) /\ UNCHANGED <<nid, cid, bidn, dropped, droppedB>>
\* a choice point opens a branch (alternative, optional, repetition, negation, lookahead)
Branch == /\ Len(ctxs) < MaxDepth /\ bidn <= MaxBranches
          /\ ctxs' = Append(ctxs, [pend |-> <<>>, nid0 |-> nid, bid |-> bidn]) /\ bidn' = bidn + 1
          /\ UNCHANGED <<frames, nid, cid, writes, dropped, droppedB>>
\* no production entered inside the branch is still open
BranchQuiet == IF frames = <<>> THEN TRUE ELSE Top(frames).depth < Len(ctxs)
\* the branch matched (or failed beyond the lookahead: Stop commits): its pending captures move to the parent
Accept == /\ Len(ctxs) > 1 /\ BranchQuiet
          /\ LET b == Top(ctxs)  p == ctxs[Len(ctxs) - 1] IN
             ctxs' = Append(SubSeq(ctxs, 1, Len(ctxs) - 2), [p EXCEPT !.pend = p.pend \o b.pend])
          /\ UNCHANGED <<frames, nid, cid, bidn, writes, dropped, droppedB>>
\* the branch is abandoned: everything created inside it becomes unreachable
Drop == /\ Len(ctxs) > 1 /\ BranchQuiet
        /\ dropped' = dropped \cup (Top(ctxs).nid0..(nid - 1)) /\ droppedB' = droppedB \cup {Top(ctxs).bid}
        /\ ctxs' = Pop(ctxs) /\ UNCHANGED <<frames, nid, cid, bidn, writes>>

Next == Enter \/ Defer \/ Exit \/ Branch \/ Accept \/ Drop
Spec == Init /\ [][Next]_vars

-----------------------------------------------------------------------------
TypeOK == Len(ctxs) >= 1 /\ Len(ctxs) <= MaxDepth /\ Len(frames) <= MaxFrames
\* C02's mechanism: a write performed inside a branch targets only struct values created inside that branch
NoWriteBeforeCommit == \A w \in writes : w.depth = 1 \/ w.inst >= w.nid0
\* C02 itself: a capture applied while some branch was open that was abandoned later is visible only on struct values
\* that were abandoned with it - never on a value that survives
NoDeadCaptureVisible == \A w \in writes : (w.open \cap droppedB # {}) => w.inst \in dropped
\* a capture is applied at most once
AppliedOnce == \A a, b \in writes : a.id = b.id => a = b
\* pending captures of a context target instances of frames that are still open or already complete in scope
PendingTargetsKnown == \A d \in 1..Len(ctxs) : \A k \in 1..Len(ctxs[d].pend) : ctxs[d].pend[k].inst < nid
=============================================================================
