----------------------------- MODULE MC_TagSyntax -----------------------------
(* C19: classifies every token soup up to MaxLen over the tag alphabet (Mode "soup"), or the token lists of a
   case file (Mode "cases": single-token edits of valid grammars), and prints one CLASS line each; the harness
   builds a struct type carrying the corresponding tag text with the real Build.                       *)
EXTENDS TagSyntax, Json
CONSTANTS MaxLen, Mode, CasesFile
Cases == IF Mode = "cases" THEN JsonDeserialize(CasesFile) ELSE <<>>
VARIABLES soup, id, done
vars == <<soup, id, done>>
Init == /\ done = FALSE
        /\ IF Mode = "soup"
           THEN id = "" /\ soup \in UNION { [1..n -> {Alpha[j] : j \in 1..Len(Alpha)}] : n \in 1..MaxLen }
           ELSE \E k \in 1..Len(Cases) : id = Cases[k].id /\ soup = Cases[k].toks
Next == ~done /\ PrintT("CLASS|" \o id \o "|" \o Join(soup, 1) \o "|" \o Class(soup)) /\ done' = TRUE /\ UNCHANGED <<soup, id>>
Spec == Init /\ [][Next]_vars
\* consistency of the oracle: the three classes partition, and a well-formed soup has none of the listed defects
\* except through an unknown type / self capture
OracleConsistent == WellFormed(soup) => ~(Unclosed(soup, 1, <<>>) \/ EmptyAlt(soup))
=============================================================================
