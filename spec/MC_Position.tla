----------------------------- MODULE MC_Position -----------------------------
(* Position bookkeeping: for every input up to MaxIn characters (ASCII, newline, multi-byte, invalid byte)
   and every way of splitting it into spans, folding lexer.Position.Advance over the spans gives the
   position PosOf defines from the input alone.  Every explored step is printed and replayed on the real
   Position.Advance; AddIsRelative states what Position.Add computes (replayed on the real Position.Add).                                                                         *)
EXTENDS Position, Integers, Sequences, TLC
CONSTANTS MaxIn
\* characters: <<code, width, newline, name>>
Alpha == << <<97, 1, 0, "a">>, <<10, 1, 1, "n">>, <<233, 2, 0, "e">>, <<65533, 1, 0, "x">>, <<13, 1, 0, "m">>,
          <<65533, 1, 0, "u">> >>     \* u: a stray UTF-8 continuation byte (0xA9), x: a byte that can start nothing (0xFF)
VARIABLES input, i, pos
vars == <<input, i, pos>>
Chars(inp) == [k \in 1..Len(inp) |-> <<Alpha[inp[k]][1], Alpha[inp[k]][2], Alpha[inp[k]][3]>>]
RECURSIVE InputName(_, _)
InputName(inp, k) == IF k > Len(inp) THEN "" ELSE Alpha[inp[k]][4] \o InputName(inp, k + 1)

Init == input \in UNION {[1..n -> 1..Len(Alpha)] : n \in 0..MaxIn} /\ i = 1 /\ pos = StartPos
Step(j) == /\ pos' = Advance(pos, Chars(input), i, j) /\ i' = j /\ UNCHANGED input
           /\ PrintT("ADV|" \o InputName(input, 1) \o "|" \o ToString(i) \o "|" \o ToString(j) \o "|" \o PosStr(pos) \o "|" \o PosStr(pos'))
\* lexer.Position.Add: for every place a the embedded text input[a ..] starts at, the position of character i inside it
\* (counted from 0:1:1) added to the position of a is the position of i in the whole input.  Every instance is printed and
\* replayed on the real Position.Add.
AddIsRelative == \A a \in 1..i :
   LET c == Chars(input)  pa == PosOf(c, a)  rel == PosOf(TextFrom(c, a), i - a + 1) IN
   /\ PrintT("ADD|" \o PosStr(pa) \o "|" \o PosStr(rel) \o "|" \o PosStr(Add(pa, rel)))
   /\ Add(pa, rel) = PosOf(c, i)
Next == \E j \in (i + 1)..(Len(input) + 1) : Step(j)
Spec == Init /\ [][Next]_vars
AdvanceFoldsToPosOf == pos = PosOf(Chars(input), i)
=============================================================================
