------------------------------ MODULE TagSyntax ------------------------------
(* The struct-tag language of participle (grammar.go) over an abstract token alphabet, as the README
   documents it:   disj := seq ('|' seq)* ;  seq := term+ ;  term := atom modifier? ;
   atom := '@@' | '@' atom | literal (':' Type)? | '!' atom | '~' atom | '[' disj ']' | '{' disj '}'
         | '(' disj ')' | '(?=' disj ')' | '(?!' disj ')' | TokenType
   with the documented rule that every operator needs an operand.  Class(t) is the three-valued oracle of
   C19:  "MustBuild" (well-formed, all token types known), "MustError" (unknown token type; unclosed group
   or lookahead; ? * + ! @ ~ applied to nothing; empty alternative), "Either" (anything else: only
   totality - no panic, no hang - is demanded).
   Alphabet: "@", "Ident" (a known token type), "Foo" (an unknown one), "Lit" (a quoted literal),
   ( ) [ ] { } | ? * + ! ~ : = and "Bad" (a malformed token)                                                              *)
EXTENDS Integers, Sequences, FiniteSets, TLC

Alpha == <<"@", "Ident", "Foo", "Lit", "(", ")", "[", "]", "{", "}", "|", "?", "*", "+", "!", "~", ":", "=", "Bad">>
\* "Bad" is a lexically malformed token (lone quote or back-quote, unterminated string or comment): nothing but
\* totality is demanded of a tag containing one

Tok(t, i) == IF i <= Len(t) THEN t[i] ELSE "EOF"
TermStart == {"@", "Lit", "!", "~", "[", "{", "(", "Ident", "Foo"}
Mods == {"!", "+", "*", "?"}
Ok(i) == [ok |-> TRUE, i |-> i, err |-> ""]
Fail(i, e) == [ok |-> FALSE, i |-> i, err |-> e]

RECURSIVE PDisj(_, _), PDisjRest(_, _), PSeq(_, _, _), PTerm(_, _), PAtom(_, _)

\* documented grammar:  disj := seq ('|' seq)* ; seq := term+ ; term := atom mod? ; atom := ...
PDisj(t, i) == LET r == PSeq(t, i, 0) IN IF ~r.ok THEN r ELSE PDisjRest(t, r.i)
PDisjRest(t, i) == IF Tok(t, i) = "|" THEN (LET r == PSeq(t, i + 1, 0) IN IF ~r.ok THEN r ELSE PDisjRest(t, r.i)) ELSE Ok(i)
PSeq(t, i, n) ==
  IF Tok(t, i) \in TermStart
  THEN (LET r == PTerm(t, i) IN IF ~r.ok THEN r ELSE PSeq(t, r.i, n + 1))
  ELSE IF n = 0 THEN Fail(i, "emptyalt") ELSE Ok(i)
PTerm(t, i) == LET r == PAtom(t, i) IN
  IF ~r.ok THEN r ELSE IF Tok(t, r.i) \in Mods THEN Ok(r.i + 1) ELSE r
PAtom(t, i) ==
  LET k == Tok(t, i) IN
  CASE k = "@" -> (IF Tok(t, i + 1) = "@" THEN Ok(i + 2)
                   ELSE IF Tok(t, i + 1) \in TermStart THEN PAtom(t, i + 1) ELSE Fail(i, "nothing"))
    [] k = "Lit" -> (IF Tok(t, i + 1) = ":"
                     THEN (IF Tok(t, i + 2) = "Ident" THEN Ok(i + 3)
                           ELSE IF Tok(t, i + 2) = "Foo" THEN Fail(i, "unknown") ELSE Fail(i, "badtype"))
                     ELSE Ok(i + 1))
    [] k \in {"!", "~"} -> (IF Tok(t, i + 1) \in TermStart THEN PAtom(t, i + 1) ELSE Fail(i, "nothing"))
    [] k = "[" -> (LET r == PDisj(t, i + 1) IN IF ~r.ok THEN r ELSE IF Tok(t, r.i) = "]" THEN Ok(r.i + 1) ELSE Fail(r.i, "unclosed"))
    [] k = "{" -> (LET r == PDisj(t, i + 1) IN IF ~r.ok THEN r ELSE IF Tok(t, r.i) = "}" THEN Ok(r.i + 1) ELSE Fail(r.i, "unclosed"))
    [] k = "(" -> (IF Tok(t, i + 1) = "?"
                   THEN (IF Tok(t, i + 2) \in {"=", "!"}
                         THEN (LET r == PDisj(t, i + 3) IN IF ~r.ok THEN r ELSE IF Tok(t, r.i) = ")" THEN Ok(r.i + 1) ELSE Fail(r.i, "unclosed"))
                         ELSE Fail(i, "badlook"))
                   ELSE (LET r == PDisj(t, i + 1) IN IF ~r.ok THEN r ELSE IF Tok(t, r.i) = ")" THEN Ok(r.i + 1) ELSE Fail(r.i, "unclosed")))
    [] k = "Ident" -> Ok(i + 1)
    [] k = "Foo" -> Fail(i, "unknown")
    [] OTHER -> Fail(i, "stray")

WellFormed(t) == LET r == PDisj(t, 1) IN r.ok /\ r.i = Len(t) + 1

\* syntactic scans for the defect classes the property lists
HasUnknown(t) == \E i \in 1..Len(t) : t[i] = "Foo"
Closer(o) == CASE o = "(" -> ")" [] o = "[" -> "]" [] o = "{" -> "}"
RECURSIVE Unclosed(_, _, _)
Unclosed(t, i, st) ==
  IF i > Len(t) THEN st # <<>>
  ELSE IF t[i] \in {"(", "[", "{"} THEN Unclosed(t, i + 1, <<t[i]>> \o st)
  ELSE IF t[i] \in {")", "]", "}"} THEN
       (IF st = <<>> THEN Unclosed(t, i + 1, st)   \* stray closer: not "unclosed"
        ELSE IF Closer(st[1]) = t[i] THEN Unclosed(t, i + 1, Tail(st)) ELSE TRUE)
  ELSE Unclosed(t, i + 1, st)
\* position i expects the start of a term
ExpectsTerm(t, i) == i = 1 \/ t[i - 1] \in {"|", "[", "{"} \/ (t[i - 1] = "(" ) \/ (i >= 4 /\ t[i - 3] = "(" /\ t[i - 2] = "?" /\ t[i - 1] \in {"=", "!"})
NothingDefect(t) ==
  \/ \E i \in 1..Len(t) : t[i] \in {"*", "+"} /\ ExpectsTerm(t, i)
  \/ \E i \in 1..Len(t) : t[i] = "?" /\ ExpectsTerm(t, i) /\ ~(i > 1 /\ t[i - 1] = "(")
  \/ \E i \in 1..Len(t) : t[i] \in {"@", "~"} /\ ~(Tok(t, i + 1) \in TermStart)
  \/ \E i \in 1..Len(t) : t[i] = "!" /\ ExpectsTerm(t, i) /\ ~(Tok(t, i + 1) \in TermStart) /\ ~(i >= 3 /\ t[i - 2] = "(" /\ t[i - 1] = "?")
EmptyAlt(t) ==
  \/ Tok(t, 1) = "|" \/ t[Len(t)] = "|"
  \/ \E i \in 1..(Len(t) - 1) : (t[i] = "|" /\ t[i + 1] \in {"|", ")", "]", "}"}) \/ (t[i] \in {"(", "[", "{"} /\ t[i + 1] \in {"|", ")", "]", "}"})

\* "@@" captures a sub-production: only meaningful on struct/union-typed fields; on a scalar field nothing is demanded
HasSelfCapture(t) == \E i \in 1..(Len(t) - 1) : t[i] = "@" /\ t[i + 1] = "@"
\* a capture inside a capture, or several captures in one scalar field, are legal tag syntax; so is a lone type reference
HasBad(t) == \E i \in 1..Len(t) : t[i] = "Bad"
Class(t) ==
  IF t = <<>> \/ HasBad(t) THEN "Either"
  ELSE IF HasSelfCapture(t) /\ WellFormed(t) THEN "Either"
  ELSE IF WellFormed(t) THEN "MustBuild"
  ELSE IF HasUnknown(t) \/ Unclosed(t, 1, <<>>) \/ NothingDefect(t) \/ EmptyAlt(t) THEN "MustError"
  ELSE "Either"

RECURSIVE Join(_, _)
Join(t, i) == IF i > Len(t) THEN "" ELSE (IF i > 1 THEN " " ELSE "") \o (IF t[i] = "|" THEN "OR" ELSE t[i]) \o Join(t, i + 1)
=============================================================================
