CONSTANTS
  MaxDepth = 3
  MaxFrames = 3
  MaxCaps = 3
  MaxBranches = 4
  MaxInst = 3
  ApplyAll = FALSE
SPECIFICATION Spec
INVARIANTS TypeOK NoWriteBeforeCommit NoDeadCaptureVisible AppliedOnce PendingTargetsKnown
CHECK_DEADLOCK FALSE
