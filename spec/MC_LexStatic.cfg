CONSTANTS
  CasesFile = "cases.json"
  MaxIn = 3
  Mode = "syms"
  DevUnderflowPanics = FALSE
SPECIFICATION Spec
INVARIANT RoundTripStable
CHECK_DEADLOCK FALSE
