CONSTANTS
  CasesFile = "cases.json"
  MaxIn = 3
  Mode = "syms"
  DevUnderflowPanics = FALSE
  DevBackrefInvalidUtf8 = FALSE
SPECIFICATION Spec
INVARIANT RoundTripStable
CHECK_DEADLOCK FALSE
