CONSTANTS
  CasesFile = "cases.json"
  MaxIn = 3
  ExtraCalls = 1
  DevUnderflowPanics = FALSE
  DevBackrefInvalidUtf8 = FALSE
SPECIFICATION Spec
INVARIANTS StackNonEmpty NoPanic
PROPERTIES Terminates EofStutters Progress
CHECK_DEADLOCK FALSE
