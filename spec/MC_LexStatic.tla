----------------------------- MODULE MC_LexStatic -----------------------------
(* Static facts of a lexer case file, printed once per case:
     SYMS  - the symbol table the specification assigns (compared with def.Symbols());
     REGEX - for every pattern and every text up to MaxIn, the match BtMatch computes (compared with the
             standard library's regexp: the self-check of Regex.tla; a disagreement is a defect of the
             specification, never of participle).                                              *)
EXTENDS StatefulLexer, Json
CONSTANTS CasesFile, MaxIn, Mode     \* Mode: "syms" | "regex"
Data == JsonDeserialize(CasesFile)
Cases == Data.cases
Alpha == Data.alpha
NA == Len(Alpha)
VARIABLES gi, input, done
vars == <<gi, input, done>>

Chars(inp) == [k \in 1..Len(inp) |-> <<Alpha[inp[k]][1], Alpha[inp[k]][2], Alpha[inp[k]][3]>>]
RECURSIVE InputName(_, _)
InputName(inp, k) == IF k > Len(inp) THEN "" ELSE Alpha[inp[k]][4] \o InputName(inp, k + 1)

RECURSIVE SymStr(_, _)
SymStr(ss, k) == IF k > Len(ss) THEN "" ELSE (IF k > 1 THEN "," ELSE "") \o ss[k][1] \o "=" \o ToString(ss[k][2]) \o SymStr(ss, k + 1)
\* last assignment of each name wins: print only the final one per name
FinalSyms(c) == LET ss == Symbols(c) IN SelectSeq(ss, LAMBDA p : p[2] = SymbolOf(c, p[1]))

RECURSIVE CapStr(_, _)
CapStr(cs, k) == IF k > Len(cs) THEN "" ELSE (IF k > 1 THEN "," ELSE "") \o ToString(cs[k][1]) \o "-" \o ToString(cs[k][2]) \o CapStr(cs, k + 1)

\* one line per (state, rule) with a pattern and no back-reference
RECURSIVE RegexLines(_, _, _, _)
RegexLines(c, si, k, s) ==
  IF si > Len(c.states) THEN TRUE
  ELSE LET rs == c.rules[c.states[si]] IN
       IF k > Len(rs) THEN RegexLines(c, si + 1, 1, s)
       ELSE /\ (IF rs[k].act \in {"include", "return"} \/ Len(rs[k].backrefs) > 0 THEN TRUE
                ELSE LET m == BtMatch(rs[k].tree, rs[k].ncap, [s |-> s, grp |-> <<>>]) IN
                     PrintT("REGEX|" \o c.id \o "|" \o c.states[si] \o "|" \o ToString(k) \o "|" \o InputName(input, 1)
                            \o "|" \o ToString(m.e) \o "|" \o (IF m.e = 0 THEN "" ELSE CapStr(m.c, 1))))
            /\ RegexLines(c, si, k + 1, s)

\* serialised form of a definition: per state, the expanded rules by origin
RECURSIVE OrgStr(_, _), StatesStr(_, _)
OrgStr(rs, k) == IF k > Len(rs) THEN "" ELSE (IF k > 1 THEN "," ELSE "") \o ToString(rs[k].orgs) \o "#" \o ToString(rs[k].orgi) \o OrgStr(rs, k + 1)
StatesStr(c, si) == IF si > Len(c.states) THEN ""
                    ELSE (IF si > 1 THEN ";" ELSE "") \o ToString(si) \o "=" \o OrgStr(RulesOf(c, c.states[si]), 1) \o StatesStr(c, si + 1)
\* the round-tripped definition: every state already expanded
Expanded(c) == [c EXCEPT !.rules = [s \in DOMAIN c.rules |-> RulesOf(c, s)]]
\* expansion is idempotent and the symbol table is stable when the expanded rules are fed back (C16)
RoundTripStable == \A g \in 1..Len(Cases) :
                      /\ \A si \in 1..Len(Cases[g].states) :
                            RulesOf(Expanded(Cases[g]), Cases[g].states[si]) = RulesOf(Cases[g], Cases[g].states[si])
                      /\ Symbols(Expanded(Cases[g])) = Symbols(Cases[g])

Init == /\ gi \in 1..Len(Cases)
        /\ input \in (IF Mode = "syms" THEN {<<>>} ELSE UNION {[1..n -> 1..NA] : n \in 0..MaxIn})
        /\ done = FALSE
Next == /\ ~done /\ done' = TRUE /\ UNCHANGED <<gi, input>>
        /\ IF Mode = "syms" THEN PrintT("SYMS|" \o Cases[gi].id \o "|" \o SymStr(FinalSyms(Cases[gi]), 1))
                                 /\ PrintT("JSON|" \o Cases[gi].id \o "|" \o StatesStr(Cases[gi], 1))
           ELSE RegexLines(Cases[gi], 1, 1, Chars(input))
Spec == Init /\ [][Next]_vars
=============================================================================
