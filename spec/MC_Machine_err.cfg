CONSTANTS
  CasesFile = "cases.json"
  DevApplyAll = FALSE
  DevRawStart = FALSE
  DevEmptyTokPanics = FALSE
SPECIFICATION MSpec
INVARIANTS Refines CtxDiscipline CursorOrder NoReentry ErrCarried DepthSane ErrorConforms
PROPERTIES Terminates NoWriteBeforeCommit
CHECK_DEADLOCK FALSE
