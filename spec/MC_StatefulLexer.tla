--------------------------- MODULE MC_StatefulLexer ---------------------------
(* Model-checking instance of StatefulLexer: every rule map of the case file x every input of length
   <= MaxIn over the case file's alphabet; one NextCall step per call of Next(), ExtraCalls further
   calls after EOF or an error.  The invariants are the clauses of C03/C04/C07 that can be stated on the
   run itself; each finished run is printed as one EXPECT line and replayed into lexer.New(rules).  *)
EXTENDS StatefulLexer, Json

CONSTANTS CasesFile, MaxIn, ExtraCalls
Data == JsonDeserialize(CasesFile)
Cases == Data.cases
Alpha == Data.alpha        \* sequence of <<code point, byte width, is-newline, name>>
NA == Len(Alpha)

VARIABLES gi,      \* case index
          input,   \* sequence of alphabet indices
          st,      \* lexer state [i, pos, stack]
          status,  \* "run" | "eof" | "err" | "panic"
          toks,    \* tokens emitted so far
          extra    \* calls made after termination
vars == <<gi, input, st, status, toks, extra>>

Chars(inp) == [k \in 1..Len(inp) |-> <<Alpha[inp[k]][1], Alpha[inp[k]][2], Alpha[inp[k]][3]>>]
RECURSIVE InputName(_, _)
InputName(inp, k) == IF k > Len(inp) THEN "" ELSE Alpha[inp[k]][4] \o InputName(inp, k + 1)

TokStr(t) == t.name \o "@" \o PosStr(t.pos) \o "+" \o ToString(SpanBytes(Chars(input), t.from, t.to))
RECURSIVE ToksStr(_, _)
ToksStr(ts, k) == IF k > Len(ts) THEN "" ELSE TokStr(ts[k]) \o " " \o ToksStr(ts, k + 1)

Init == /\ gi \in 1..Len(Cases)
        /\ input \in UNION {[1..n -> 1..NA] : n \in 0..MaxIn}
        /\ st = InitLexer /\ status = "run" /\ toks = <<>> /\ extra = 0

Expect(r) == "EXPECT|" \o Cases[gi].id \o "|" \o InputName(input, 1) \o "|" \o r.why \o "|" \o ToksStr(toks, 1)
             \o (CASE r.status = "eof" -> "EOF@" \o PosStr(r.st.pos)
                   [] r.status = "err" -> "ERR@" \o PosStr(r.st.pos)
                   [] OTHER -> "PANIC")

NextCall ==
  /\ status = "run"
  /\ LET r == Call(Cases[gi], Chars(input), st) IN
     /\ st' = r.st /\ status' = r.status
     /\ toks' = IF r.status = "run" THEN Append(toks, r.tok) ELSE toks
     /\ IF r.status # "run" THEN PrintT(Expect(r)) ELSE TRUE
  /\ UNCHANGED <<gi, input, extra>>

\* further calls once the lexer has returned EOF or an error: never a panic, EOF repeats in place
ExtraCall ==
  /\ status \in {"eof", "err"} /\ extra < ExtraCalls
  /\ LET r == Call(Cases[gi], Chars(input), st) IN
     /\ st' = r.st
     /\ status' = IF status = "eof" THEN r.status ELSE IF r.status = "panic" THEN "panic" ELSE "err"
  /\ extra' = extra + 1 /\ UNCHANGED <<gi, input, toks>>

Next == NextCall \/ ExtraCall
Spec == Init /\ [][Next]_vars /\ WF_vars(NextCall)

-----------------------------------------------------------------------------
S == Chars(input)
StackNonEmpty == status # "panic" => Len(st.stack) >= 1
NoPanic == status # "panic"
PositionExact == st.pos = PosOf(S, st.i)
TokensWellFormed ==
  \A k \in 1..Len(toks) :
     /\ toks[k].from >= 1 /\ toks[k].to > toks[k].from /\ toks[k].to <= Len(S) + 1      \* non-empty, inside the input
     /\ toks[k].pos = PosOf(S, toks[k].from)
     /\ k > 1 => toks[k].from >= toks[k - 1].to                                            \* ordered, non-overlapping
FinishesWithinInput == Len(toks) <= Len(S)
EofOnlyAtEnd == status = "eof" => st.i = Len(S) + 1
\* action properties
EofStutters == [][status = "eof" => (status' = "eof" /\ st' = st)]_vars
Progress == [][status = "run" => (st'.i > st.i \/ status' # "run")]_vars
Terminates == <>(status # "run")
=============================================================================
