------------------------- MODULE Trace_StatefulLexer -------------------------
(* Trace validation of REALISTIC stateful lexers (C03, binding B2): the patterns of these lexers are beyond Regex.tla, so
   the outcome of every (rule, position, groups) match is recorded from the standard library's regexp into an oracle table,
   and everything else - which rule is selected (first in declared order, includes spliced), Push/Pop/Return stack moves,
   groups handed to entered states, elision, position bookkeeping, error conditions - is decided by StatefulLexer!Call.
   One event per call of Next() on the real lexer, with the state stack read through the verif accessor before and after. *)
EXTENDS StatefulLexer, Json
CONSTANT TraceFile
Trace == ndJsonDeserialize(TraceFile)
VARIABLES l, c, chars, st, ended
tvars == <<l, c, chars, st, ended>>
E == Trace[l]

Stack(js) == [k \in 1..Len(js) |-> [name |-> js[k].name, groups |-> js[k].groups]]
TraceInit == /\ TLCSet(1, 2) /\ l = 2 /\ Trace[1].ev = "reset"
             /\ c = Trace[1].def /\ chars = Trace[1].chars /\ st = InitLexer /\ ended = FALSE
TReset == /\ l <= Len(Trace) /\ E.ev = "reset"
          /\ c' = E.def /\ chars' = E.chars /\ st' = InitLexer /\ ended' = FALSE /\ l' = l + 1
\* one call of Next(): the logged pre-state is the specification's state; the logged result and post-state are Call's
TCall == /\ l <= Len(Trace) /\ E.ev = "call" /\ ~ended
         /\ E.pre.i = st.i /\ Stack(E.pre.stack) = st.stack
         /\ LET r == Call(c, chars, st) IN
            /\ r.status # "panic"
            /\ E.res = (IF r.status = "run" THEN "tok" ELSE r.status)
            /\ (r.status = "run" => E.name = r.tok.name /\ E.from = r.tok.from /\ E.to = r.tok.to
                                    /\ E.off = r.tok.pos.off /\ E.line = r.tok.pos.line /\ E.col = r.tok.pos.col)
            /\ (r.status \in {"eof", "err"} => E.off = r.st.pos.off /\ E.line = r.st.pos.line /\ E.col = r.st.pos.col)
            /\ (r.status # "err" => E.post.i = r.st.i /\ Stack(E.post.stack) = r.st.stack)
            /\ st' = r.st /\ ended' = (r.status # "run")
         /\ l' = l + 1 /\ UNCHANGED <<c, chars>>
TraceNext == TReset \/ TCall
TraceSpec == TraceInit /\ [][TraceNext]_tvars
HighWater == TLCSet(1, IF TLCGet(1) < l THEN l ELSE TLCGet(1))
TraceAccepted == LET hw == TLCGet(1) IN IF hw = Len(Trace) + 1 THEN TRUE ELSE PrintT("REJECTED|" \o ToString(hw)) /\ FALSE
\* invariants of the run itself
StackNonEmptyT == Len(st.stack) >= 1
PositionExactT == st.pos = PosOf(chars, st.i)
=============================================================================
