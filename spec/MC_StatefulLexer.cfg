CONSTANTS
  CasesFile = "cases.json"
  MaxIn = 4
  ExtraCalls = 2
  DevUnderflowPanics = FALSE
  DevBackrefInvalidUtf8 = FALSE
SPECIFICATION Spec
INVARIANTS StackNonEmpty NoPanic PositionExact TokensWellFormed FinishesWithinInput EofOnlyAtEnd
PROPERTIES EofStutters Progress
CHECK_DEADLOCK FALSE
