---------------------------- MODULE ParserMachine ----------------------------
(* Small-step machine mirroring nodes.go / context.go: a control stack of node frames (one frame per Go call of a
   node's Parse), a stack of parse contexts (top = current branch; Branch / Accept / Stop / Defer / Apply are the state
   transformers BranchCtx / AcceptCtx / StopCommits / ...), a global write log.  One Start/Ret action pair per node kind.
   Refinement: at termination its outcome equals Meaning!Outcome for the same case (invariant Refines, checked by TLC
   for every case of the family).  The variable evs is the projection of the behaviour on the operations of context.go
   - exactly what the verif hooks of /repo record - so a recorded hook trace must equal it (trace validation, B2).
   ERROR SELECTION (context.go deepestError / deepestErrorDepth, the error values built in nodes.go and parser.go): every
   failing result carries the error [t, u] = (index of the token whose position the error reports - 0 when no position is
   known -, is it an UnexpectedTokenError); every context carries de / dd, transformed by MaybeUpdate / StopUpd / Accept
   exactly as in context.go; `eout` is the error the parse finally reports.  The properties do not say WHICH located
   error a failing parse must report, so a disagreement here is model drift, not a violation (ErrorConforms).
   PARTIAL AST: what a failing parse hands back next to its error (the captures applied before the failure) is computed at
   Terminate from the same write log (PART lines); compared with the real partial AST, again as drift only.          *)
EXTENDS Meaning, Json

CONSTANT CasesFile
Cases == JsonDeserialize(CasesFile)

VARIABLES gi, ii, ki, done, ctl, ctxs, log, nid, ret, out, evs, eout, trc
mvars == <<gi, ii, ki, done, ctl, ctxs, log, nid, ret, out, evs, eout, trc>>
\* projection of a behaviour on the operations of context.go (what hook H4 logs), cursors 0-based as in Go
N(i) == ToString(i)
EvB(c) == <<"b," \o N(c.st.raw - 1) \o "," \o N(c.st.cur)>>
EvA(b, p) == <<"a," \o N(b.st.raw - 1) \o "," \o N(b.st.cur) \o "," \o N(Len(b.pend)) \o "," \o N(Len(p.pend))>>
EvS(b, p, commit) == <<"s," \o N(b.st.cur) \o "," \o N(p.st.cur) \o "," \o (IF commit THEN "1" ELSE "0")>>
EvD(from, to, n) == <<"d," \o N(from - 1) \o "," \o N(to - 1) \o "," \o N(n)>>
EvP(n) == <<"p," \o N(n)>>
RECURSIVE JoinEvs(_, _)
JoinEvs(es, i) == IF i > Len(es) THEN "" ELSE es[i] \o ";" \o JoinEvs(es, i + 1)

G == Cases[gi]
Toks == G.inputs[ii].toks
KK == G.ks[ki]
Env == [g |-> G, toks |-> Toks, K |-> KK]

\* error values
NoErr == [t |-> 0, u |-> FALSE, none |-> TRUE]
E(t, u) == [t |-> t, u |-> u, none |-> FALSE]
FE0 == [saw |-> FALSE, deep |-> 0, vals |-> <<>>, nn |-> FALSE, e |-> NoErr]
F(n, self) == [n |-> n, self |-> self, ph |-> "start", i |-> 0, acc |-> <<>>, nn |-> FALSE, fe |-> FE0, a |-> 0, b |-> 0]
RetE(k, vals, nn, e) == [k |-> k, vals |-> vals, nn |-> nn, e |-> e]
Ret(k, vals, nn) == RetE(k, vals, nn, NoErr)
NoRet == Ret("none", <<>>, FALSE)

Top == ctl[Len(ctl)]
Pop(s) == SubSeq(s, 1, Len(s) - 1)
SetTop(s, x) == [s EXCEPT ![Len(s)] = x]
C == ctxs[Len(ctxs)]            \* current context
P == ctxs[Len(ctxs) - 1]        \* its parent (only used while a branch is open)

KidsOf(n) == IF n.op = "union"
             THEN [j \in 1..Len(G.unions[n.u]) |-> [op |-> "prod", p |-> G.unions[n.u][j]]]
             ELSE n.kids
PeekOf(c) == NxtFrom(Env, c.st.raw)                                  \* index of the token ctx.Peek() returns
Unexpected(c) == E(PeekOf(c), TRUE)                                   \* &UnexpectedTokenError{Unexpected: *ctx.Peek()}
MaxI(a, b) == IF a >= b THEN a ELSE b
\* context.go MaybeUpdateError / the bookkeeping half of Stop / DeepestError
MaybeUpdate(c, e) == IF c.st.cur >= c.dd THEN [c EXCEPT !.de = e, !.dd = c.st.cur] ELSE c
StopUpd(p, b, e) == IF b.dd > p.dd THEN [p EXCEPT !.de = b.de, !.dd = b.dd]
                    ELSE IF b.st.cur >= p.dd THEN [p EXCEPT !.de = e, !.dd = MaxI(b.st.cur, b.dd)]
                    ELSE p
Deepest(c, e) == IF c.st.cur >= c.dd THEN e ELSE IF ~c.de.none THEN c.de ELSE e
LoopLim(n) == [min |-> IF n.mode = "plus" THEN 1 ELSE 0, max |-> IF n.mode = "opt" THEN 1 ELSE G.maxiter]

\* --- the parse trace (participle.Trace): one line per node entered = per Start action: nesting depth, the token ctx.Peek()
\* returns, the node kind.  Parenthesis-only groups (mode once) are transparent: they print no line and add no depth here (the
\* harness drops their lines from the recorded trace and re-bases the depths).  A union prints its own line and its
\* disjunction's.
\* (a one-element sequence of the case file is not a node of the real grammar either)
Transparent(n) == (n.op = "grp" /\ n.mode = "once") \/ (n.op = "seq" /\ Len(n.kids) = 1)
W(f) == IF Transparent(f.n) THEN 0 ELSE IF f.n.op = "union" THEN 2 ELSE 1
RECURSIVE SumW(_, _)
SumW(s, i) == IF i = 0 THEN 0 ELSE W(s[i]) + SumW(s, i - 1)
PeekVal == LET j == NxtFrom(Env, C.st.raw) IN IF IsEOF(Env, j) THEN "<EOF>" ELSE Toks[j].v
TrNow == IF ctl = <<>> \/ Top.ph # "start" THEN <<>>
         ELSE LET d == SumW(ctl, Len(ctl) - 1)  n == Top.n IN
              IF Transparent(n) THEN <<>>
              ELSE IF n.op = "union" THEN <<[d |-> d, k |-> "union", v |-> PeekVal], [d |-> d + 1, k |-> "alt", v |-> PeekVal]>>
              ELSE <<[d |-> d, k |-> n.op, v |-> PeekVal]>>
Emit(e) == evs' = evs \o e /\ trc' = trc \o TrNow

\* --- the three context operations of context.go, as state transformers on `ctxs` ---
BranchCtx(cs) == Append(cs, [st |-> cs[Len(cs)].st, pend |-> <<>>, nid0 |-> nid, dd |-> cs[Len(cs)].dd, de |-> cs[Len(cs)].de])
AcceptCtx(cs) == LET b == cs[Len(cs)]  p == cs[Len(cs) - 1] IN
                 Append(SubSeq(cs, 1, Len(cs) - 2),
                        [p EXCEPT !.st = b.st, !.pend = p.pend \o b.pend,
                                  !.dd = IF b.dd >= p.dd THEN b.dd ELSE p.dd, !.de = IF b.dd >= p.dd THEN b.de ELSE p.de])
DropCtx(cs) == Pop(cs)
\* ctx.Stop(err, branch): the parent's deepest-error bookkeeping is updated whether or not the failure commits
StopCtx(cs, e) == LET b == cs[Len(cs)]  p == cs[Len(cs) - 1] IN
                  Append(SubSeq(cs, 1, Len(cs) - 2), StopUpd(p, b, e)) \o <<b>>
\* the same update on the parent alone (group: ctx.MaybeUpdateError(err) before ctx.Stop)
ParentUpd(cs, e) == LET b == cs[Len(cs)]  p == cs[Len(cs) - 1] IN
                    Append(SubSeq(cs, 1, Len(cs) - 2), MaybeUpdate(p, e)) \o <<b>>
StopCommits(cs) == KK >= 0 /\ cs[Len(cs)].st.cur > cs[Len(cs) - 1].st.cur + KK

\* generic transition helpers
Go(ctl2, ctxs2, log2, nid2, ret2) ==
  /\ ctl' = ctl2 /\ ctxs' = ctxs2 /\ log' = log2 /\ nid' = nid2 /\ ret' = ret2
  /\ UNCHANGED <<gi, ii, ki, done, out, eout>>
Finish(ctxs2, log2, r) == Go(Pop(ctl), ctxs2, log2, nid, r)                 \* pop my frame, hand r to the caller
Call(frame2, child, ctxs2, nid2) == Go(Append(SetTop(ctl, frame2), child), ctxs2, log, nid2, NoRet)

Running == ~done /\ ctl # <<>> /\ ret.k # "bug"

\* ---------------------------------------------------------------- leaves
LitRef == /\ Running /\ Top.ph = "start" /\ Top.n.op \in {"lit", "ref"}
          /\ Emit(<<>>)
          /\ LET n == Top.n
                 m == IF n.op = "lit" THEN [s |-> n.s, t |-> n.t, ci |-> CiSet(G), fs |-> n.fs] ELSE [s |-> "", t |-> n.t, ci |-> {}, fs |-> ""]
                 j == PeekAnyFrom(Env, C.st.raw, m)
             IN IF Matches(Toks[j], m)
                THEN Finish(SetTop(ctxs, [C EXCEPT !.st = FastForward(Env, C.st, j)]), log, Ret("ok", <<[s |-> Toks[j].v]>>, TRUE))
                ELSE Finish(ctxs, log, Ret("no", <<>>, FALSE))

\* a Parseable child implemented by user code: exactly one token through PeekingLexer.Next()
UserLeaf == /\ Running /\ Top.ph = "start" /\ Top.n.op = "user"
            /\ Emit(<<>>)
            /\ LET p == NxtFrom(Env, C.st.raw) IN
               IF IsEOF(Env, p) THEN Finish(ctxs, log, Ret("no", <<>>, FALSE))
               ELSE Finish(SetTop(ctxs, [C EXCEPT !.st = [raw |-> p + 1, cur |-> C.st.cur + 1, fc |-> C.st.fc]]), log, Ret("ok", <<[user |-> Toks[p].v]>>, TRUE))

User2Leaf == /\ Running /\ Top.ph = "start" /\ Top.n.op = "user2"
             /\ Emit(<<>>)
             /\ LET p == NxtFrom(Env, C.st.raw) IN
                IF IsEOF(Env, p) \/ Toks[p].t # "Ident" THEN Finish(ctxs, log, Ret("no", <<>>, FALSE))
                ELSE Finish(SetTop(ctxs, [C EXCEPT !.st = [raw |-> p + 1, cur |-> C.st.cur + 1, fc |-> C.st.fc]]), log, Ret("ok", <<[user2 |-> Toks[p].v]>>, TRUE))

\* user code that fails AFTER taking a token, with an error wrapping the "no match" sentinel (a participle.Error located at the
\* token it wanted to be "!")
User3Leaf == /\ Running /\ Top.ph = "start" /\ Top.n.op = "user3"
             /\ Emit(<<>>)
             /\ LET p == NxtFrom(Env, C.st.raw) IN
                IF IsEOF(Env, p) THEN Finish(ctxs, log, Ret("no", <<>>, FALSE))
                ELSE LET q == NxtFrom(Env, p + 1) IN
                     IF ~IsEOF(Env, q) /\ Toks[q].v = "!"
                     THEN Finish(SetTop(ctxs, [C EXCEPT !.st = [raw |-> q + 1, cur |-> C.st.cur + 2, fc |-> C.st.fc]]), log, Ret("ok", <<[user3 |-> Toks[p].v]>>, TRUE))
                     ELSE Finish(SetTop(ctxs, [C EXCEPT !.st = [raw |-> p + 1, cur |-> C.st.cur + 1, fc |-> C.st.fc]]), log, RetE("err", <<>>, FALSE, E(q, FALSE)))

\* ---------------------------------------------------------------- sequence
SeqStart == /\ Running /\ Top.ph = "start" /\ Top.n.op = "seq"
          /\ Emit(<<>>)
            /\ Call([Top EXCEPT !.ph = "wait", !.i = 1], F(Top.n.kids[1], Top.self), ctxs, nid)
SeqRet == /\ Running /\ Top.ph = "wait" /\ Top.n.op = "seq" /\ ret.k # "none"
          /\ Emit(<<>>)
          /\ CASE ret.k = "err" -> Finish(ctxs, log, RetE("err", Top.acc \o ret.vals, Top.nn \/ Len(ret.vals) > 0, ret.e))
               [] ret.k = "no" -> (IF Top.i = 1 THEN Finish(ctxs, log, Ret("no", <<>>, FALSE))
                                   ELSE Finish(ctxs, log, RetE("err", Top.acc, Top.nn, Unexpected(C))))
               [] ret.k = "ok" -> (IF Top.i = Len(Top.n.kids)
                                   THEN Finish(ctxs, log, Ret("ok", Top.acc \o ret.vals, TRUE))
                                   ELSE Call([Top EXCEPT !.i = Top.i + 1, !.acc = Top.acc \o ret.vals, !.nn = TRUE],
                                             F(Top.n.kids[Top.i + 1], Top.self), ctxs, nid))

\* ---------------------------------------------------------------- disjunction / union: Branch, then Stop or Accept
AltStart == /\ Running /\ Top.ph = "start" /\ Top.n.op \in {"alt", "union"}
          /\ Emit(EvB(C))
            /\ Call([Top EXCEPT !.ph = "wait", !.i = 1], F(KidsOf(Top.n)[1], Top.self), BranchCtx(ctxs), nid)
\* all alternatives failed: ctx.MaybeUpdateError(firstError); return firstValues, firstError
AltExhaust(cs, fe) == IF fe.saw
                      THEN Finish(SetTop(cs, MaybeUpdate(cs[Len(cs)], fe.e)), log,
                                  IF Top.n.op = "union" THEN RetE("err", <<>>, FALSE, fe.e) ELSE RetE("err", fe.vals, fe.nn, fe.e))
                      ELSE Finish(cs, log, Ret("no", <<>>, FALSE))
AltNext(fe, cs) == IF Top.i = Len(KidsOf(Top.n)) THEN AltExhaust(DropCtx(cs), fe)
                   ELSE Call([Top EXCEPT !.i = Top.i + 1, !.fe = fe], F(KidsOf(Top.n)[Top.i + 1], Top.self), BranchCtx(DropCtx(cs)), nid)
AltRet == /\ Running /\ Top.ph = "wait" /\ Top.n.op \in {"alt", "union"} /\ ret.k # "none"
          /\ Emit(LET more == Top.i < Len(KidsOf(Top.n)) IN
                   CASE ret.k = "err" -> EvS(C, P, StopCommits(ctxs)) \o (IF StopCommits(ctxs) THEN EvA(C, P) ELSE IF more THEN EvB(P) ELSE <<>>)
                     [] ret.k = "ok" -> (IF C.st.raw = P.st.raw /\ ~IsEOF(Env, P.st.raw) THEN <<>> ELSE EvA(C, P))
                     [] OTHER -> (IF more THEN EvB(P) ELSE <<>>))
          /\ CASE ret.k = "err" ->
                   (IF StopCommits(ctxs)                                                      \* Stop() == true: Accept and fail
                    THEN Finish(AcceptCtx(StopCtx(ctxs, ret.e)), log, IF Top.n.op = "union" THEN RetE("err", <<>>, FALSE, ret.e) ELSE ret)
                    ELSE AltNext(IF C.st.cur >= Top.fe.deep
                                 THEN [saw |-> TRUE, deep |-> C.st.cur, vals |-> ret.vals, nn |-> ret.nn, e |-> ret.e]
                                 ELSE [Top.fe EXCEPT !.saw = TRUE], StopCtx(ctxs, ret.e)))
               [] ret.k = "ok" ->
                   (IF C.st.raw = P.st.raw /\ ~IsEOF(Env, P.st.raw)
                    THEN Go(ctl, ctxs, log, nid, Ret("bug", <<>>, FALSE))
                    ELSE Finish(AcceptCtx(ctxs), log, ret))
               [] ret.k = "no" -> AltNext(Top.fe, ctxs)

\* ---------------------------------------------------------------- groups
GrpStart == /\ Running /\ Top.ph = "start" /\ Top.n.op = "grp"
          /\ Emit(IF Top.n.mode \in {"once", "nonempty"} THEN <<>> ELSE EvB(C))
            /\ IF Top.n.mode \in {"once", "nonempty"}
               THEN Call([Top EXCEPT !.ph = "wait"], F(Top.n.kid, Top.self), ctxs, nid)
               ELSE Call([Top EXCEPT !.ph = "wait", !.a = 0], F(Top.n.kid, Top.self), BranchCtx(ctxs), nid)
LoopFinish(cs, o, onn, m) ==
  IF m >= G.maxiter THEN Finish(cs, log, RetE("err", <<>>, FALSE, E(PeekOf(cs[Len(cs)]), FALSE)))   \* "too many iterations"
  ELSE IF LoopLim(Top.n).min = 0 \/ onn THEN Finish(cs, log, Ret("ok", o, TRUE))
  ELSE Finish(cs, log, Ret("no", <<>>, FALSE))
GrpRet == /\ Running /\ Top.ph = "wait" /\ Top.n.op = "grp" /\ ret.k # "none"
          /\ Emit(IF Top.n.mode \in {"once", "nonempty"} THEN <<>>
                   ELSE CASE ret.k = "err" -> EvS(C, P, StopCommits(ctxs)) \o (IF StopCommits(ctxs) THEN EvA(C, P) ELSE <<>>)
                          [] ret.k = "no" -> EvA(C, P)
                          [] OTHER -> EvA(C, P) \o (IF Top.a + 1 >= LoopLim(Top.n).max THEN <<>> ELSE EvB(C)))
          /\ CASE Top.n.mode = "once" -> Finish(ctxs, log, ret)
               [] Top.n.mode = "nonempty" ->
                    (IF ret.k = "err" THEN Finish(ctxs, log, ret)
                     ELSE IF Len(ret.vals) = 0 THEN Finish(ctxs, log, [ret EXCEPT !.k = "err", !.e = E(PeekOf(C), FALSE)])  \* "cannot be empty"
                     ELSE Finish(ctxs, log, ret))
               [] OTHER ->
                    (CASE ret.k = "err" ->
                            (LET cs1 == StopCtx(ParentUpd(ctxs, ret.e), ret.e) IN
                             IF StopCommits(ctxs)
                             THEN Finish(AcceptCtx(cs1), log, RetE("err", Top.acc \o ret.vals, Top.nn \/ Len(ret.vals) > 0, ret.e))
                             ELSE LoopFinish(DropCtx(cs1), Top.acc, Top.nn, Top.a))
                       [] ret.k = "no" -> LoopFinish(DropCtx(ctxs), Top.acc, Top.nn, Top.a)
                       [] ret.k = "ok" ->
                            (IF C.st.raw = P.st.raw /\ LoopLim(Top.n).max > 1
                             THEN \* the loop spins without progress up to MaxIterations: "too many iterations" at the same token
                                  (LET cs1 == Append(SubSeq(ctxs, 1, Len(ctxs) - 2),
                                                     [P EXCEPT !.dd = IF C.dd >= P.dd THEN C.dd ELSE P.dd, !.de = IF C.dd >= P.dd THEN C.de ELSE P.de]) IN
                                   Finish(cs1, log, RetE("err", <<>>, FALSE, E(PeekOf(cs1[Len(cs1)]), FALSE))))
                             ELSE LET o == Top.acc \o ret.vals  onn == Top.nn \/ Len(ret.vals) > 0  m == Top.a + 1 IN
                                  IF m >= LoopLim(Top.n).max THEN LoopFinish(AcceptCtx(ctxs), o, onn, m)
                                  ELSE Call([Top EXCEPT !.acc = o, !.nn = onn, !.a = m], F(Top.n.kid, Top.self),
                                            BranchCtx(AcceptCtx(ctxs)), nid)))

\* ---------------------------------------------------------------- capture = Defer
CapStart == /\ Running /\ Top.ph = "start" /\ Top.n.op = "cap"
          /\ Emit(<<>>)
            /\ Call([Top EXCEPT !.ph = "wait", !.a = C.st.raw, !.b = C.st.fc], F(Top.n.kid, Top.self),
                    SetTop(ctxs, [C EXCEPT !.st.fc = 0]), nid)
CapRet == /\ Running /\ Top.ph = "wait" /\ Top.n.op = "cap" /\ ret.k # "none"
          /\ Emit(IF ret.nn /\ ret.k # "no" THEN EvD(IF DevRawStart \/ C.st.fc = 0 THEN Top.a ELSE C.st.fc, C.st.raw, Len(ret.vals)) ELSE <<>>)
          /\ LET from == IF DevRawStart \/ C.st.fc = 0 THEN Top.a ELSE C.st.fc
                 d == [inst |-> Top.self, f |-> Top.n.f, kind |-> Top.n.fk, from |-> from, to |-> C.st.raw, vals |-> ret.vals]
                 fc2 == IF Top.b # 0 THEN Top.b ELSE C.st.fc          \* restore the enclosing capture's first token
                 c1 == [C EXCEPT !.st.fc = fc2]
                 cs2 == IF ret.nn THEN SetTop(ctxs, [c1 EXCEPT !.pend = Append(C.pend, d)]) ELSE SetTop(ctxs, c1)
             IN IF ret.k = "no" THEN Finish(SetTop(ctxs, c1), log, ret)
                ELSE Finish(cs2, log, RetE(ret.k, <<[self |-> Top.self]>>, TRUE, ret.e))

\* ---------------------------------------------------------------- production = struct value + Apply
ProdStart == /\ Running /\ Top.ph = "start" /\ Top.n.op = "prod"
          /\ Emit(<<>>)
             /\ Call([Top EXCEPT !.ph = "wait", !.i = nid, !.a = Len(C.pend), !.b = C.st.raw],
                     F(Body(G, Top.n.p), nid), ctxs, nid + 1)
ProdRet == /\ Running /\ Top.ph = "wait" /\ Top.n.op = "prod" /\ ret.k # "none"
          /\ Emit(IF ret.k = "no" THEN <<>> ELSE EvP(IF DevApplyAll THEN Len(C.pend) ELSE Len(C.pend) - Top.a))
           /\ LET id == Top.i
                  own == SubSeq(C.pend, Top.a + 1, Len(C.pend))
                  \* (a failing body: Pos was injected on entry, EndPos and Tokens are not - strct.Parse returns before injecting them)
                  hdr == [new |-> id, p |-> Top.n.p, start |-> Top.b, pos |-> NxtFrom(Env, Top.b), end |-> C.st.raw, failed |-> ret.k = "err"]
                  ap == ApplySeq(G, IF DevApplyAll THEN C.pend ELSE own, 1, log)
                  rest == IF DevApplyAll THEN (IF ap.ok THEN <<>> ELSE C.pend) ELSE SubSeq(C.pend, 1, Top.a)
                  applied == IF DevApplyAll THEN C.pend ELSE own
                  bad == FirstBad(G, applied, 1)
                  \* setField: the conversion error is reported at the first token of the capture (none if it is empty)
                  ce == IF ap.ok THEN NoErr ELSE IF bad = 0 THEN E(0, FALSE) ELSE E(IF applied[bad].from < applied[bad].to THEN applied[bad].from ELSE 0, FALSE)
                  \* a failing body: ctx.MaybeUpdateError(err) and the same error is returned
                  c1 == IF ret.k = "err" THEN MaybeUpdate(C, ret.e) ELSE C
              IN IF ret.k = "no" THEN Finish(ctxs, log, Ret("no", <<>>, FALSE))
                 ELSE Finish(SetTop(ctxs, [c1 EXCEPT !.pend = rest]), Append(ap.log, hdr),
                             RetE(IF ret.k = "ok" /\ ~ap.ok THEN "err" ELSE ret.k, <<[node |-> id]>>, TRUE,
                                  IF ret.k = "err" THEN ret.e ELSE ce))

\* ---------------------------------------------------------------- negation / lookahead group: branch that is never accepted
NegStart == /\ Running /\ Top.ph = "start" /\ Top.n.op = "neg"
          /\ Emit(EvB(C))
            /\ IF IsEOF(Env, NxtFrom(Env, C.st.raw)) THEN Finish(ctxs, log, Ret("no", <<>>, FALSE))
               ELSE Call([Top EXCEPT !.ph = "wait"], F(Top.n.kid, Top.self), BranchCtx(ctxs), nid)
NegRet == /\ Running /\ Top.ph = "wait" /\ Top.n.op = "neg" /\ ret.k # "none"
          /\ Emit(<<>>)
          /\ LET cs == DropCtx(ctxs)  c0 == cs[Len(cs)]  p == NxtFrom(Env, c0.st.raw) IN
             IF ret.k = "ok" THEN Finish(cs, log, RetE("err", <<>>, FALSE, E(p, TRUE)))
             ELSE Finish(SetTop(cs, [c0 EXCEPT !.st = [raw |-> p + 1, cur |-> c0.st.cur + 1, fc |-> IF c0.st.fc = 0 THEN p ELSE c0.st.fc]]),
                         log, Ret("ok", <<[s |-> Toks[p].v]>>, TRUE))
LookStart == /\ Running /\ Top.ph = "start" /\ Top.n.op = "look"
          /\ Emit(EvB(C))
             /\ Call([Top EXCEPT !.ph = "wait"], F(Top.n.kid, Top.self), BranchCtx(ctxs), nid)
LookRet == /\ Running /\ Top.ph = "wait" /\ Top.n.op = "look" /\ ret.k # "none"
          /\ Emit(<<>>)
           /\ IF (ret.k = "ok") # (~Top.n.neg) THEN Finish(DropCtx(ctxs), log, RetE("err", <<>>, FALSE, Unexpected(P)))
              ELSE Finish(DropCtx(ctxs), log, Ret("ok", <<>>, TRUE))

\* ---------------------------------------------------------------- termination (parseOne)
ErrStr(e) == IF e.none THEN "-" ELSE ToString(e.t) \o "," \o (IF e.u THEN "1" ELSE "0")
Terminate == /\ ~done /\ (ctl = <<>> \/ ret.k = "bug")
             /\ LET st == ctxs[1].st
                    EmptyTok(e) == "inst" \in DOMAIN e /\ e.from >= e.to /\ FieldKind(G, Hdr(log, e.inst).p, e.f) = "token"
                    o == CASE (\E i \in 1..Len(log) : "noconv" \in DOMAIN log[i]) -> "skip"
                           [] ret.k = "bug" -> "bug"
                           [] DevEmptyTokPanics /\ (\E i \in 1..Len(log) : EmptyTok(log[i])) -> "bug"
                           [] ret.k \in {"err", "no"} -> "err"
                           [] ret.k = "ok" -> IF ~G.trailing /\ ~IsEOF(Env, NxtFrom(Env, st.raw)) THEN "err"
                                              ELSE "ok " \o CanonInst(Env, log, ret.vals[1].node)
                    \* parser.go parseInto / parseOne: a node error is returned as it is; "no match" and trailing tokens go
                    \* through DeepestError
                    eo == CASE ret.k = "err" -> ret.e
                            [] ret.k = "no" -> Deepest(ctxs[1], Unexpected(ctxs[1]))
                            [] ret.k = "ok" /\ ~G.trailing /\ ~IsEOF(Env, NxtFrom(Env, st.raw)) -> Deepest(ctxs[1], Unexpected(ctxs[1]))
                            [] OTHER -> NoErr
                    \* PARTIAL AST (parser.go parseInto: whatever the root node handed back is stored before the error is
                    \* returned): the root value with every capture applied so far on a node error or on trailing input, the
                    \* untouched zero value when the root did not match at all.  No property fixes its content: drift only.
                    po == CASE o # "err" -> "-"
                            [] ret.k = "no" -> "zero"
                            [] Len(ret.vals) >= 1 /\ "node" \in DOMAIN ret.vals[1] -> CanonInst(Env, log, ret.vals[1].node)
                            [] OTHER -> "?"
                IN /\ out' = o /\ eout' = (IF o = "err" THEN eo ELSE NoErr)
                   /\ (o = "err" => PrintT("PART|" \o G.id \o "|" \o ToString(KK) \o "|" \o ToString(ii - 1) \o "|" \o po))
                   /\ (o = "err" => PrintT("ERR|" \o G.id \o "|" \o ToString(KK) \o "|" \o ToString(ii - 1) \o "|" \o ErrStr(eo)))
             /\ done' = TRUE /\ UNCHANGED <<gi, ii, ki, ctl, ctxs, log, nid, ret, evs, trc>>
             /\ PrintT("EVS|" \o G.id \o "|" \o ToString(KK) \o "|" \o ToString(ii - 1) \o "|" \o JoinEvs(evs, 1))

MInit == /\ gi \in 1..Len(Cases) /\ ii \in 1..Len(Cases[gi].inputs) /\ ki \in 1..Len(Cases[gi].ks)
         /\ done = FALSE /\ out = ""
         /\ ctl = <<F([op |-> "prod", p |-> Cases[gi].prods[1].name], 0)>>
         /\ ctxs = <<[st |-> [raw |-> 1, cur |-> 0, fc |-> 0], pend |-> <<>>, nid0 |-> 1, dd |-> 0, de |-> NoErr]>>
         /\ log = <<>> /\ nid = 1 /\ ret = NoRet /\ evs = <<>> /\ eout = NoErr /\ trc = <<>>

MNext == \/ LitRef \/ UserLeaf \/ User2Leaf \/ User3Leaf \/ SeqStart \/ SeqRet \/ AltStart \/ AltRet \/ GrpStart \/ GrpRet \/ CapStart \/ CapRet
         \/ ProdStart \/ ProdRet \/ NegStart \/ NegRet \/ LookStart \/ LookRet \/ Terminate
MSpec == MInit /\ [][MNext]_mvars /\ WF_mvars(MNext)

\* ---------------------------------------------------------------- properties
Refines == done => out = Outcome(G, Toks, KK)                       \* the machine implements the meaning
CtxDiscipline == Len(ctxs) >= 1 /\ (done /\ ret.k # "bug" => Len(ctxs) = 1)
CursorOrder == \A j \in 2..Len(ctxs) : ctxs[j].st.raw >= ctxs[j - 1].st.raw /\ ctxs[j].st.cur >= ctxs[j - 1].st.cur
\* C02 mechanism: a write happens only from the root context or to a struct value created inside the current branch
NoWriteBeforeCommit ==
  [][\A j \in (Len(log) + 1)..Len(log') :
        "inst" \in DOMAIN log'[j] => (Len(ctxs) = 1 \/ log'[j].inst >= C.nid0)]_mvars
\* C08 consequence: no production is re-entered at the same raw cursor while it is still on the stack
NoReentry == \A a, b \in 1..Len(ctl) : (a < b /\ ctl[a].n.op = "prod" /\ ctl[b].n.op = "prod" /\ ctl[a].ph = "wait" /\ ctl[b].ph = "wait"
                                         /\ ctl[a].n.p = ctl[b].n.p) => ctl[a].b # ctl[b].b
Terminates == <>done

\* ---- trace validation (B2): the case file may carry, per input and lookahead, the events recorded from the real parser
\* through the verif hooks (field ev: one sequence of event strings per lookahead).  At EVERY step the machine's events
\* must be a prefix of the recorded ones, and at termination equal to them: the recorded execution is a behaviour of
\* the machine, and every invariant above is evaluated in every state of that behaviour.
Recorded == G.inputs[ii].ev[ki]
IsPrefixOf(a, b) == Len(a) <= Len(b) /\ \A j \in 1..Len(a) : a[j] = b[j]
TraceConforms == IsPrefixOf(evs, Recorded) /\ (done /\ out # "bug" => evs = Recorded)
\* the node-level trace the real parser printed for this case (participle.Trace)
RecordedTr == G.inputs[ii].tr[ki]
NodeTraceConforms == IsPrefixOf(trc, RecordedTr) /\ (done /\ out # "bug" => trc = RecordedTr)
\* the error the real parser reported for this case, recorded as "t,u" (token index, 1 = UnexpectedTokenError), "-" when the
\* parse succeeded and "?" when it could not be observed
RecordedErr == G.inputs[ii].er[ki]
ErrorConforms == (done /\ out \in {"err"} /\ RecordedErr # "?") => ErrStr(eout) = RecordedErr
\* a failing result always carries an error value, and the bookkeeping depth never exceeds what some branch reached
ErrCarried == ret.k = "err" => ~ret.e.none
DepthSane == \A j \in 1..Len(ctxs) : ctxs[j].dd >= 0 /\ (ctxs[j].dd > 0 => ~ctxs[j].de.none)
=============================================================================
