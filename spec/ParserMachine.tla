---------------------------- MODULE ParserMachine ----------------------------
(* Small-step machine mirroring nodes.go / context.go: a control stack of node frames (one frame per Go call of a
   node's Parse), a stack of parse contexts (top = current branch; Branch / Accept / Stop / Defer / Apply are the state
   transformers BranchCtx / AcceptCtx / StopCommits / ...), a global write log.  One Start/Ret action pair per node kind.
   Refinement: at termination its outcome equals Meaning!Outcome for the same case (invariant Refines, checked by TLC
   for every case of the family).  The variable evs is the projection of the behaviour on the operations of context.go
   - exactly what the verif hooks of /repo record - so a recorded hook trace must equal it (trace validation, B2).  *)
EXTENDS Meaning, Json

CONSTANT CasesFile
Cases == JsonDeserialize(CasesFile)

VARIABLES gi, ii, ki, done, ctl, ctxs, log, nid, ret, out, evs
mvars == <<gi, ii, ki, done, ctl, ctxs, log, nid, ret, out, evs>>
\* projection of a behaviour on the operations of context.go (what hook H4 logs), cursors 0-based as in Go
N(i) == ToString(i)
EvB(c) == <<"b," \o N(c.st.raw - 1) \o "," \o N(c.st.cur)>>
EvA(b, p) == <<"a," \o N(b.st.raw - 1) \o "," \o N(b.st.cur) \o "," \o N(Len(b.pend)) \o "," \o N(Len(p.pend))>>
EvS(b, p, commit) == <<"s," \o N(b.st.cur) \o "," \o N(p.st.cur) \o "," \o (IF commit THEN "1" ELSE "0")>>
EvD(from, to, n) == <<"d," \o N(from - 1) \o "," \o N(to - 1) \o "," \o N(n)>>
EvP(n) == <<"p," \o N(n)>>
Emit(e) == evs' = evs \o e
RECURSIVE JoinEvs(_, _)
JoinEvs(es, i) == IF i > Len(es) THEN "" ELSE es[i] \o ";" \o JoinEvs(es, i + 1)

G == Cases[gi]
Toks == G.inputs[ii].toks
KK == G.ks[ki]
Env == [g |-> G, toks |-> Toks, K |-> KK]

FE0 == [saw |-> FALSE, deep |-> 0, vals |-> <<>>, nn |-> FALSE]
F(n, self) == [n |-> n, self |-> self, ph |-> "start", i |-> 0, acc |-> <<>>, nn |-> FALSE, fe |-> FE0, a |-> 0, b |-> 0]
Ret(k, vals, nn) == [k |-> k, vals |-> vals, nn |-> nn]
NoRet == Ret("none", <<>>, FALSE)

Top == ctl[Len(ctl)]
Pop(s) == SubSeq(s, 1, Len(s) - 1)
SetTop(s, x) == [s EXCEPT ![Len(s)] = x]
C == ctxs[Len(ctxs)]            \* current context
P == ctxs[Len(ctxs) - 1]        \* its parent (only used while a branch is open)

KidsOf(n) == IF n.op = "union"
             THEN [j \in 1..Len(G.unions[n.u]) |-> [op |-> "prod", p |-> G.unions[n.u][j]]]
             ELSE n.kids
LoopLim(n) == [min |-> IF n.mode = "plus" THEN 1 ELSE 0, max |-> IF n.mode = "opt" THEN 1 ELSE G.maxiter]

\* --- the three context operations of context.go, as state transformers on `ctxs` ---
BranchCtx(cs) == Append(cs, [st |-> cs[Len(cs)].st, pend |-> <<>>, nid0 |-> nid])
AcceptCtx(cs) == LET b == cs[Len(cs)]  p == cs[Len(cs) - 1] IN
                 Append(SubSeq(cs, 1, Len(cs) - 2), [p EXCEPT !.st = b.st, !.pend = p.pend \o b.pend])
DropCtx(cs) == Pop(cs)
StopCommits(cs) == KK >= 0 /\ cs[Len(cs)].st.cur > cs[Len(cs) - 1].st.cur + KK

\* generic transition helpers
Go(ctl2, ctxs2, log2, nid2, ret2) ==
  /\ ctl' = ctl2 /\ ctxs' = ctxs2 /\ log' = log2 /\ nid' = nid2 /\ ret' = ret2
  /\ UNCHANGED <<gi, ii, ki, done, out>>
Finish(ctxs2, log2, r) == Go(Pop(ctl), ctxs2, log2, nid, r)                 \* pop my frame, hand r to the caller
Call(frame2, child, ctxs2, nid2) == Go(Append(SetTop(ctl, frame2), child), ctxs2, log, nid2, NoRet)

Running == ~done /\ ctl # <<>> /\ ret.k # "bug"

\* ---------------------------------------------------------------- leaves
LitRef == /\ Running /\ Top.ph = "start" /\ Top.n.op \in {"lit", "ref"}
          /\ Emit(<<>>)
          /\ LET n == Top.n
                 m == IF n.op = "lit" THEN [s |-> n.s, t |-> n.t, ci |-> CiSet(G), fs |-> n.fs] ELSE [s |-> "", t |-> n.t, ci |-> {}, fs |-> ""]
                 j == PeekAnyFrom(Env, C.st.raw, m)
             IN IF Matches(Toks[j], m)
                THEN Finish(SetTop(ctxs, [C EXCEPT !.st = FastForward(Env, C.st, j)]), log, Ret("ok", <<[s |-> Toks[j].v]>>, TRUE))
                ELSE Finish(ctxs, log, Ret("no", <<>>, FALSE))

\* a Parseable child implemented by user code: exactly one token through PeekingLexer.Next()
UserLeaf == /\ Running /\ Top.ph = "start" /\ Top.n.op = "user"
            /\ Emit(<<>>)
            /\ LET p == NxtFrom(Env, C.st.raw) IN
               IF IsEOF(Env, p) THEN Finish(ctxs, log, Ret("no", <<>>, FALSE))
               ELSE Finish(SetTop(ctxs, [C EXCEPT !.st = [raw |-> p + 1, cur |-> C.st.cur + 1, fc |-> C.st.fc]]), log, Ret("ok", <<[user |-> Toks[p].v]>>, TRUE))

\* ---------------------------------------------------------------- sequence
SeqStart == /\ Running /\ Top.ph = "start" /\ Top.n.op = "seq"
          /\ Emit(<<>>)
            /\ Call([Top EXCEPT !.ph = "wait", !.i = 1], F(Top.n.kids[1], Top.self), ctxs, nid)
SeqRet == /\ Running /\ Top.ph = "wait" /\ Top.n.op = "seq" /\ ret.k # "none"
          /\ Emit(<<>>)
          /\ CASE ret.k = "err" -> Finish(ctxs, log, Ret("err", Top.acc \o ret.vals, Top.nn \/ Len(ret.vals) > 0))
               [] ret.k = "no" -> (IF Top.i = 1 THEN Finish(ctxs, log, Ret("no", <<>>, FALSE))
                                   ELSE Finish(ctxs, log, Ret("err", Top.acc, Top.nn)))
               [] ret.k = "ok" -> (IF Top.i = Len(Top.n.kids)
                                   THEN Finish(ctxs, log, Ret("ok", Top.acc \o ret.vals, TRUE))
                                   ELSE Call([Top EXCEPT !.i = Top.i + 1, !.acc = Top.acc \o ret.vals, !.nn = TRUE],
                                             F(Top.n.kids[Top.i + 1], Top.self), ctxs, nid))

\* ---------------------------------------------------------------- disjunction / union: Branch, then Stop or Accept
AltStart == /\ Running /\ Top.ph = "start" /\ Top.n.op \in {"alt", "union"}
          /\ Emit(EvB(C))
            /\ Call([Top EXCEPT !.ph = "wait", !.i = 1], F(KidsOf(Top.n)[1], Top.self), BranchCtx(ctxs), nid)
AltExhaust(cs, fe) == IF fe.saw
                      THEN Finish(cs, log, IF Top.n.op = "union" THEN Ret("err", <<>>, FALSE) ELSE Ret("err", fe.vals, fe.nn))
                      ELSE Finish(cs, log, Ret("no", <<>>, FALSE))
AltNext(fe) == IF Top.i = Len(KidsOf(Top.n)) THEN AltExhaust(DropCtx(ctxs), fe)
               ELSE Call([Top EXCEPT !.i = Top.i + 1, !.fe = fe], F(KidsOf(Top.n)[Top.i + 1], Top.self), BranchCtx(DropCtx(ctxs)), nid)
AltRet == /\ Running /\ Top.ph = "wait" /\ Top.n.op \in {"alt", "union"} /\ ret.k # "none"
          /\ Emit(LET more == Top.i < Len(KidsOf(Top.n)) IN
                   CASE ret.k = "err" -> EvS(C, P, StopCommits(ctxs)) \o (IF StopCommits(ctxs) THEN EvA(C, P) ELSE IF more THEN EvB(P) ELSE <<>>)
                     [] ret.k = "ok" -> (IF C.st.raw = P.st.raw /\ ~IsEOF(Env, P.st.raw) THEN <<>> ELSE EvA(C, P))
                     [] OTHER -> (IF more THEN EvB(P) ELSE <<>>))
          /\ CASE ret.k = "err" ->
                   (IF StopCommits(ctxs)                                                      \* Stop() == true: Accept and fail
                    THEN Finish(AcceptCtx(ctxs), log, IF Top.n.op = "union" THEN Ret("err", <<>>, FALSE) ELSE ret)
                    ELSE AltNext(IF C.st.cur >= Top.fe.deep
                                 THEN [saw |-> TRUE, deep |-> C.st.cur, vals |-> ret.vals, nn |-> ret.nn]
                                 ELSE [Top.fe EXCEPT !.saw = TRUE]))
               [] ret.k = "ok" ->
                   (IF C.st.raw = P.st.raw /\ ~IsEOF(Env, P.st.raw)
                    THEN Go(ctl, ctxs, log, nid, Ret("bug", <<>>, FALSE))
                    ELSE Finish(AcceptCtx(ctxs), log, ret))
               [] ret.k = "no" -> AltNext(Top.fe)

\* ---------------------------------------------------------------- groups
GrpStart == /\ Running /\ Top.ph = "start" /\ Top.n.op = "grp"
          /\ Emit(IF Top.n.mode \in {"once", "nonempty"} THEN <<>> ELSE EvB(C))
            /\ IF Top.n.mode \in {"once", "nonempty"}
               THEN Call([Top EXCEPT !.ph = "wait"], F(Top.n.kid, Top.self), ctxs, nid)
               ELSE Call([Top EXCEPT !.ph = "wait", !.a = 0], F(Top.n.kid, Top.self), BranchCtx(ctxs), nid)
LoopFinish(cs, o, onn, m) ==
  IF m >= G.maxiter THEN Finish(cs, log, Ret("err", <<>>, FALSE))
  ELSE IF LoopLim(Top.n).min = 0 \/ onn THEN Finish(cs, log, Ret("ok", o, TRUE))
  ELSE Finish(cs, log, Ret("no", <<>>, FALSE))
GrpRet == /\ Running /\ Top.ph = "wait" /\ Top.n.op = "grp" /\ ret.k # "none"
          /\ Emit(IF Top.n.mode \in {"once", "nonempty"} THEN <<>>
                   ELSE CASE ret.k = "err" -> EvS(C, P, StopCommits(ctxs)) \o (IF StopCommits(ctxs) THEN EvA(C, P) ELSE <<>>)
                          [] ret.k = "no" -> EvA(C, P)
                          [] OTHER -> EvA(C, P) \o (IF Top.a + 1 >= LoopLim(Top.n).max THEN <<>> ELSE EvB(C)))
          /\ CASE Top.n.mode = "once" -> Finish(ctxs, log, ret)
               [] Top.n.mode = "nonempty" ->
                    (IF ret.k = "err" THEN Finish(ctxs, log, ret)
                     ELSE IF Len(ret.vals) = 0 THEN Finish(ctxs, log, [ret EXCEPT !.k = "err"])
                     ELSE Finish(ctxs, log, ret))
               [] OTHER ->
                    (CASE ret.k = "err" ->
                            (IF StopCommits(ctxs)
                             THEN Finish(AcceptCtx(ctxs), log, Ret("err", Top.acc \o ret.vals, Top.nn \/ Len(ret.vals) > 0))
                             ELSE LoopFinish(DropCtx(ctxs), Top.acc, Top.nn, Top.a))
                       [] ret.k = "no" -> LoopFinish(DropCtx(ctxs), Top.acc, Top.nn, Top.a)
                       [] ret.k = "ok" ->
                            (IF C.st.raw = P.st.raw /\ LoopLim(Top.n).max > 1
                             THEN Finish(DropCtx(ctxs), log, Ret("err", <<>>, FALSE))
                             ELSE LET o == Top.acc \o ret.vals  onn == Top.nn \/ Len(ret.vals) > 0  m == Top.a + 1 IN
                                  IF m >= LoopLim(Top.n).max THEN LoopFinish(AcceptCtx(ctxs), o, onn, m)
                                  ELSE Call([Top EXCEPT !.acc = o, !.nn = onn, !.a = m], F(Top.n.kid, Top.self),
                                            BranchCtx(AcceptCtx(ctxs)), nid)))

\* ---------------------------------------------------------------- capture = Defer
CapStart == /\ Running /\ Top.ph = "start" /\ Top.n.op = "cap"
          /\ Emit(<<>>)
            /\ Call([Top EXCEPT !.ph = "wait", !.a = C.st.raw, !.b = C.st.fc], F(Top.n.kid, Top.self),
                    SetTop(ctxs, [C EXCEPT !.st.fc = 0]), nid)
CapRet == /\ Running /\ Top.ph = "wait" /\ Top.n.op = "cap" /\ ret.k # "none"
          /\ Emit(IF ret.nn /\ ret.k # "no" THEN EvD(IF DevRawStart \/ C.st.fc = 0 THEN Top.a ELSE C.st.fc, C.st.raw, Len(ret.vals)) ELSE <<>>)
          /\ LET from == IF DevRawStart \/ C.st.fc = 0 THEN Top.a ELSE C.st.fc
                 d == [inst |-> Top.self, f |-> Top.n.f, kind |-> Top.n.fk, from |-> from, to |-> C.st.raw, vals |-> ret.vals]
                 fc2 == IF Top.b # 0 THEN Top.b ELSE C.st.fc          \* restore the enclosing capture's first token
                 c1 == [C EXCEPT !.st.fc = fc2]
                 cs2 == IF ret.nn THEN SetTop(ctxs, [c1 EXCEPT !.pend = Append(C.pend, d)]) ELSE SetTop(ctxs, c1)
             IN IF ret.k = "no" THEN Finish(SetTop(ctxs, c1), log, ret)
                ELSE Finish(cs2, log, Ret(ret.k, <<[self |-> Top.self]>>, TRUE))

\* ---------------------------------------------------------------- production = struct value + Apply
ProdStart == /\ Running /\ Top.ph = "start" /\ Top.n.op = "prod"
          /\ Emit(<<>>)
             /\ Call([Top EXCEPT !.ph = "wait", !.i = nid, !.a = Len(C.pend), !.b = C.st.raw],
                     F(Body(G, Top.n.p), nid), ctxs, nid + 1)
ProdRet == /\ Running /\ Top.ph = "wait" /\ Top.n.op = "prod" /\ ret.k # "none"
          /\ Emit(IF ret.k = "no" THEN <<>> ELSE EvP(IF DevApplyAll THEN Len(C.pend) ELSE Len(C.pend) - Top.a))
           /\ LET id == Top.i
                  own == SubSeq(C.pend, Top.a + 1, Len(C.pend))
                  hdr == [new |-> id, p |-> Top.n.p, start |-> Top.b, pos |-> NxtFrom(Env, Top.b), end |-> C.st.raw]
                  ap == ApplySeq(G, IF DevApplyAll THEN C.pend ELSE own, 1, log)
                  rest == IF DevApplyAll THEN (IF ap.ok THEN <<>> ELSE C.pend) ELSE SubSeq(C.pend, 1, Top.a)
              IN IF ret.k = "no" THEN Finish(ctxs, log, Ret("no", <<>>, FALSE))
                 ELSE Finish(SetTop(ctxs, [C EXCEPT !.pend = rest]), Append(ap.log, hdr),
                             Ret(IF ret.k = "ok" /\ ~ap.ok THEN "err" ELSE ret.k, <<[node |-> id]>>, TRUE))

\* ---------------------------------------------------------------- negation / lookahead group: branch that is never accepted
NegStart == /\ Running /\ Top.ph = "start" /\ Top.n.op = "neg"
          /\ Emit(EvB(C))
            /\ IF IsEOF(Env, NxtFrom(Env, C.st.raw)) THEN Finish(ctxs, log, Ret("no", <<>>, FALSE))
               ELSE Call([Top EXCEPT !.ph = "wait"], F(Top.n.kid, Top.self), BranchCtx(ctxs), nid)
NegRet == /\ Running /\ Top.ph = "wait" /\ Top.n.op = "neg" /\ ret.k # "none"
          /\ Emit(<<>>)
          /\ LET cs == DropCtx(ctxs)  c0 == cs[Len(cs)]  p == NxtFrom(Env, c0.st.raw) IN
             IF ret.k = "ok" THEN Finish(cs, log, Ret("err", <<>>, FALSE))
             ELSE Finish(SetTop(cs, [c0 EXCEPT !.st = [raw |-> p + 1, cur |-> c0.st.cur + 1, fc |-> IF c0.st.fc = 0 THEN p ELSE c0.st.fc]]),
                         log, Ret("ok", <<[s |-> Toks[p].v]>>, TRUE))
LookStart == /\ Running /\ Top.ph = "start" /\ Top.n.op = "look"
          /\ Emit(EvB(C))
             /\ Call([Top EXCEPT !.ph = "wait"], F(Top.n.kid, Top.self), BranchCtx(ctxs), nid)
LookRet == /\ Running /\ Top.ph = "wait" /\ Top.n.op = "look" /\ ret.k # "none"
          /\ Emit(<<>>)
           /\ IF (ret.k = "ok") # (~Top.n.neg) THEN Finish(DropCtx(ctxs), log, Ret("err", <<>>, FALSE))
              ELSE Finish(DropCtx(ctxs), log, Ret("ok", <<>>, TRUE))

\* ---------------------------------------------------------------- termination (parseOne)
Terminate == /\ ~done /\ (ctl = <<>> \/ ret.k = "bug")
             /\ LET st == ctxs[1].st
                    EmptyTok(e) == "inst" \in DOMAIN e /\ e.from >= e.to /\ FieldKind(G, Hdr(log, e.inst).p, e.f) = "token"
                    o == CASE (\E i \in 1..Len(log) : "noconv" \in DOMAIN log[i]) -> "skip"
                           [] ret.k = "bug" -> "bug"
                           [] DevEmptyTokPanics /\ (\E i \in 1..Len(log) : EmptyTok(log[i])) -> "bug"
                           [] ret.k \in {"err", "no"} -> "err"
                           [] ret.k = "ok" -> IF ~G.trailing /\ ~IsEOF(Env, NxtFrom(Env, st.raw)) THEN "err"
                                              ELSE "ok " \o CanonInst(Env, log, ret.vals[1].node)
                IN out' = o
             /\ done' = TRUE /\ UNCHANGED <<gi, ii, ki, ctl, ctxs, log, nid, ret, evs>>
             /\ PrintT("EVS|" \o G.id \o "|" \o ToString(KK) \o "|" \o ToString(ii - 1) \o "|" \o JoinEvs(evs, 1))

MInit == /\ gi \in 1..Len(Cases) /\ ii \in 1..Len(Cases[gi].inputs) /\ ki \in 1..Len(Cases[gi].ks)
         /\ done = FALSE /\ out = ""
         /\ ctl = <<F([op |-> "prod", p |-> Cases[gi].prods[1].name], 0)>>
         /\ ctxs = <<[st |-> [raw |-> 1, cur |-> 0, fc |-> 0], pend |-> <<>>, nid0 |-> 1]>>
         /\ log = <<>> /\ nid = 1 /\ ret = NoRet /\ evs = <<>>

MNext == \/ LitRef \/ UserLeaf \/ SeqStart \/ SeqRet \/ AltStart \/ AltRet \/ GrpStart \/ GrpRet \/ CapStart \/ CapRet
         \/ ProdStart \/ ProdRet \/ NegStart \/ NegRet \/ LookStart \/ LookRet \/ Terminate
MSpec == MInit /\ [][MNext]_mvars /\ WF_mvars(MNext)

\* ---------------------------------------------------------------- properties
Refines == done => out = Outcome(G, Toks, KK)                       \* the machine implements the meaning
CtxDiscipline == Len(ctxs) >= 1 /\ (done /\ ret.k # "bug" => Len(ctxs) = 1)
CursorOrder == \A j \in 2..Len(ctxs) : ctxs[j].st.raw >= ctxs[j - 1].st.raw /\ ctxs[j].st.cur >= ctxs[j - 1].st.cur
\* C02 mechanism: a write happens only from the root context or to a struct value created inside the current branch
NoWriteBeforeCommit ==
  [][\A j \in (Len(log) + 1)..Len(log') :
        "inst" \in DOMAIN log'[j] => (Len(ctxs) = 1 \/ log'[j].inst >= C.nid0)]_mvars
\* C08 consequence: no production is re-entered at the same raw cursor while it is still on the stack
NoReentry == \A a, b \in 1..Len(ctl) : (a < b /\ ctl[a].n.op = "prod" /\ ctl[b].n.op = "prod" /\ ctl[a].ph = "wait" /\ ctl[b].ph = "wait"
                                         /\ ctl[a].n.p = ctl[b].n.p) => ctl[a].b # ctl[b].b
Terminates == <>done

\* ---- trace validation (B2): the case file may carry, per input and lookahead, the events recorded from the real parser
\* through the verif hooks (field ev: one sequence of event strings per lookahead).  At EVERY step the machine's events
\* must be a prefix of the recorded ones, and at termination equal to them: the recorded execution is a behaviour of
\* the machine, and every invariant above is evaluated in every state of that behaviour.
Recorded == G.inputs[ii].ev[ki]
IsPrefixOf(a, b) == Len(a) <= Len(b) /\ \A j \in 1..Len(a) : a[j] = b[j]
TraceConforms == IsPrefixOf(evs, Recorded) /\ (done /\ out # "bug" => evs = Recorded)
=============================================================================
