CONSTANTS
  MaxIn = 4
SPECIFICATION Spec
INVARIANT AdvanceFoldsToPosOf
CHECK_DEADLOCK FALSE
