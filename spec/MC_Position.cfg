CONSTANTS
  MaxIn = 4
SPECIFICATION Spec
INVARIANTS AdvanceFoldsToPosOf AddIsRelative
CHECK_DEADLOCK FALSE
