------------------------------- MODULE MC_Conv -------------------------------
(* Evaluates Conv for every (kind, text) of the case file (boundary values of every width in four bases with
   signs, prefixes, valid and invalid underscores, leading zeros, ...) and prints one CONV line per case; the
   harness captures each text into a real field of that kind and compares acceptance and the stored value. *)
EXTENDS Integers, Sequences, TLC, Json
CONSTANT CasesFile
Data == JsonDeserialize(CasesFile)
INSTANCE Conv WITH Bounds <- Data.bounds
VARIABLES ci, done
Init == ci \in 1..Len(Data.cases) /\ done = FALSE
Next == ~done /\ PrintT("CONV|" \o ToString(ci - 1) \o "|" \o ConvStr(Data.cases[ci])) /\ done' = TRUE /\ UNCHANGED ci
Spec == Init /\ [][Next]_<<ci, done>>
\* sanity theorems of the recogniser: a bare digit string below the bound is accepted; the empty text is rejected
EmptyRejected == ~Conv([kind |-> "int8", signed |-> TRUE, text |-> <<>>]).ok
=============================================================================
