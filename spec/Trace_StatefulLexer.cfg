CONSTANTS
  TraceFile = "lextrace.ndjson"
  DevUnderflowPanics = FALSE
  DevBackrefInvalidUtf8 = FALSE
SPECIFICATION TraceSpec
INVARIANTS StackNonEmptyT PositionExactT
CONSTRAINT HighWater
POSTCONDITION TraceAccepted
CHECK_DEADLOCK FALSE
