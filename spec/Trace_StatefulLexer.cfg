CONSTANTS
  TraceFile = "lextrace.ndjson"
  DevUnderflowPanics = FALSE
SPECIFICATION TraceSpec
INVARIANTS StackNonEmptyT PositionExactT
CONSTRAINT HighWater
POSTCONDITION TraceAccepted
CHECK_DEADLOCK FALSE
