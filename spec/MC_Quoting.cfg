CONSTANTS
  MaxLen = 4
  MaxStream = 3
  Mode = "unquote"
SPECIFICATION Spec
INVARIANTS Inversion ExactlyOnce
CHECK_DEADLOCK FALSE
