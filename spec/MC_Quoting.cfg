CONSTANTS
  MaxLen = 4
  MaxStream = 3
  Mode = "unquote"
  NMappers = 3
SPECIFICATION Spec
INVARIANTS Inversion ExactlyOnce
CHECK_DEADLOCK FALSE
