-------------------------------- MODULE Conv --------------------------------
(* Integer conversion as participle applies it to captured text (C17): strconv.ParseInt / ParseUint with
   base 0 and the field's bit size.  TLC integers are 32-bit, so no arithmetic is done on values: the text
   is recognised (sign, base prefix, underscore rules of strconv), its digits are normalised (underscores
   and leading zeros dropped, lower case) and compared as digit sequences with the kind's bound written in
   the same base.  The result is [ok, base, digits]; the harness compares digits with
   strconv.FormatInt(stored value, base).  Bounds is supplied by the case file (computed in Python from
   2^(bits-1)-1 etc., cross-checked against strconv by the harness).                              *)
EXTENDS Integers, Sequences, FiniteSets, TLC

CONSTANT Bounds    \* Bounds[kind]["pos"|"neg"][base as string] = digit sequence of the largest magnitude

Lower(c) == CASE c = "A" -> "a" [] c = "B" -> "b" [] c = "C" -> "c" [] c = "D" -> "d" [] c = "E" -> "e" [] c = "F" -> "f"
              [] c = "X" -> "x" [] c = "O" -> "o" [] OTHER -> c
DigitVal(c) == CASE c = "0" -> 0 [] c = "1" -> 1 [] c = "2" -> 2 [] c = "3" -> 3 [] c = "4" -> 4 [] c = "5" -> 5 [] c = "6" -> 6
                 [] c = "7" -> 7 [] c = "8" -> 8 [] c = "9" -> 9 [] c = "a" -> 10 [] c = "b" -> 11 [] c = "c" -> 12
                 [] c = "d" -> 13 [] c = "e" -> 14 [] c = "f" -> 15 [] OTHER -> 99
IsDec(c) == DigitVal(c) <= 9

\* strconv.underscoreOK on the text without sign
RECURSIVE UScan(_, _, _, _)
UScan(s, i, saw, hex) ==
  IF i > Len(s) THEN saw # "_"
  ELSE LET c == s[i] IN
    IF IsDec(c) \/ (hex /\ DigitVal(Lower(c)) <= 15) THEN UScan(s, i + 1, "0", hex)
    ELSE IF c = "_" THEN (IF saw # "0" THEN FALSE ELSE UScan(s, i + 1, "_", hex))
    ELSE IF saw = "_" THEN FALSE
    ELSE UScan(s, i + 1, "!", hex)
UnderscoreOK(s) ==
  IF Len(s) >= 2 /\ s[1] = "0" /\ Lower(s[2]) \in {"b", "o", "x"}
  THEN UScan(s, 3, "0", Lower(s[2]) = "x")
  ELSE UScan(s, 1, "^", FALSE)

\* digits of s (already without prefix) in `base`, underscores skipped; <<"bad">> on an invalid digit
RECURSIVE Digits(_, _, _)
Digits(s, i, base) ==
  IF i > Len(s) THEN <<>>
  ELSE IF s[i] = "_" THEN Digits(s, i + 1, base)
  ELSE IF DigitVal(Lower(s[i])) >= base THEN <<"bad">>
  ELSE LET r == Digits(s, i + 1, base) IN IF r # <<>> /\ r[1] = "bad" THEN r ELSE <<Lower(s[i])>> \o r

RECURSIVE Strip(_)
Strip(d) == IF Len(d) > 1 /\ d[1] = "0" THEN Strip(Tail(d)) ELSE d

RECURSIVE LexLeq(_, _, _)
LexLeq(a, b, i) == IF i > Len(a) THEN TRUE
                   ELSE IF DigitVal(a[i]) < DigitVal(b[i]) THEN TRUE
                   ELSE IF DigitVal(a[i]) > DigitVal(b[i]) THEN FALSE ELSE LexLeq(a, b, i + 1)
Leq(a, b) == Len(a) < Len(b) \/ (Len(a) = Len(b) /\ LexLeq(a, b, 1))   \* a, b stripped digit sequences, same base

HasUnderscore(s) == \E i \in 1..Len(s) : s[i] = "_"

ParseUnsignedPart(s0, kind, neg) ==  \* s0 = text without sign; returns [ok, base, digits]
  IF s0 = <<>> THEN [ok |-> FALSE]
  ELSE LET pre == IF s0[1] = "0"
                  THEN (IF Len(s0) >= 3 /\ Lower(s0[2]) = "b" THEN [base |-> 2, skip |-> 2]
                        ELSE IF Len(s0) >= 3 /\ Lower(s0[2]) = "o" THEN [base |-> 8, skip |-> 2]
                        ELSE IF Len(s0) >= 3 /\ Lower(s0[2]) = "x" THEN [base |-> 16, skip |-> 2]
                        ELSE [base |-> 8, skip |-> 1])
                  ELSE [base |-> 10, skip |-> 0]
           body == SubSeq(s0, pre.skip + 1, Len(s0))
           ds == Digits(body, 1, pre.base)
       IN IF ds # <<>> /\ ds[1] = "bad" THEN [ok |-> FALSE]
          ELSE IF HasUnderscore(s0) /\ ~UnderscoreOK(s0) THEN [ok |-> FALSE]
          ELSE LET d == IF ds = <<>> THEN <<"0">> ELSE Strip(ds)
                   bound == Bounds[kind][IF neg THEN "neg" ELSE "pos"][ToString(pre.base)]
               IN IF Leq(d, bound) THEN [ok |-> TRUE, base |-> pre.base, digits |-> d] ELSE [ok |-> FALSE]

\* c = [kind, signed, text (sequence of one-character strings)]
Conv(c) ==
  LET s == c.text IN
  IF s = <<>> THEN [ok |-> FALSE]
  ELSE IF s[1] \in {"+", "-"}
       THEN (IF ~c.signed THEN [ok |-> FALSE] ELSE
             LET r == ParseUnsignedPart(Tail(s), c.kind, s[1] = "-") IN
             IF r.ok THEN [r EXCEPT !.digits = (IF s[1] = "-" /\ r.digits # <<"0">> THEN <<"-">> ELSE <<>>) \o r.digits] ELSE r)
       ELSE ParseUnsignedPart(s, c.kind, FALSE)

RECURSIVE Cat(_, _)
Cat(d, i) == IF i > Len(d) THEN "" ELSE d[i] \o Cat(d, i + 1)
ConvStr(c) == LET r == Conv(c) IN IF r.ok THEN "ok " \o ToString(r.base) \o " " \o Cat(r.digits, 1) ELSE "fail"
=============================================================================
