------------------------- MODULE Trace_PeekingLexer -------------------------
(* Trace validation (binding B2): a recorded sequence of public operations on a real
   lexer.PeekingLexer, with the observations RawCursor()/Cursor()/Peek() made after each, must be a
   behaviour of PeekingLexer; all invariants of the module are evaluated at every step.
   Many traces are concatenated, separated by "reset" events.                              *)
EXTENDS PeekingLexer, Json
CONSTANTS TraceFile
Trace == ndJsonDeserialize(TraceFile)
VARIABLE l
tvars == <<toks, raw, nxt, cur, saved, ret, reads, l>>
tview == <<toks, raw, nxt, cur, saved, l>>

E == Trace[l]
PredOf(m) == CASE m = "none" -> {} [] m = "X" -> {"X"} [] m = "N" -> {"N"} [] m = "NX" -> {"N", "X"} [] OTHER -> {"E", "X"}
\* the logged observations must agree with the state the specification's action reaches
Observed == raw' = E.raw /\ cur' = E.cur /\ nxt' = E.peek

TraceInit == /\ TLCSet(1, 2) /\ l = 2 /\ Trace[1].ev = "reset" /\ toks = Trace[1].toks
             /\ raw = 1 /\ nxt = Adv(toks, 1, {})[1] /\ cur = 0
             /\ saved = [s \in 1..Slots |-> NoCp] /\ ret = <<"init", "", "">> /\ reads = {}
             /\ raw = Trace[1].raw /\ cur = Trace[1].cur /\ nxt = Trace[1].peek

Step(ev, A) == l <= Len(Trace) /\ E.ev = ev /\ A /\ Observed /\ l' = l + 1
TReset == /\ l <= Len(Trace) /\ E.ev = "reset"
          /\ toks' = E.toks /\ raw' = 1 /\ nxt' = Adv(E.toks, 1, {})[1] /\ cur' = 0
          /\ saved' = [s \in 1..Slots |-> NoCp] /\ ret' = <<"init", "", "">> /\ reads' = {}
          /\ Observed /\ l' = l + 1
TraceNext ==
  \/ TReset
  \/ Step("Next", Next /\ ret'[3] = S(E.ret))
  \/ Step("Peek", Peek /\ ret'[3] = S(E.ret))
  \/ Step("RawPeek", RawPeek /\ ret'[3] = S(E.ret))
  \/ Step("PeekAny", PeekAny(PredOf(E.m)) /\ ret'[3] = S(E.ret))
  \/ Step("FastForward", FastForward(E.a))
  \/ Step("Range", Range(E.a, E.b) /\ ret'[3] = S(E.ret))
  \/ Step("MakeCheckpoint", MakeCheckpoint(E.a))
  \/ Step("LoadCheckpoint", LoadCheckpoint(E.a))
TraceSpec == TraceInit /\ [][TraceNext]_tvars

\* acceptance: the whole file was consumed (high-water mark of l; -workers 1)
HighWater == TLCSet(1, IF TLCGet(1) < l THEN l ELSE TLCGet(1))
TraceAccepted == LET hw == TLCGet(1) IN
                 IF hw = Len(Trace) + 1 THEN TRUE ELSE PrintT("REJECTED|" \o ToString(hw)) /\ FALSE
=============================================================================
