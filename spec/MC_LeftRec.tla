------------------------------ MODULE MC_LeftRec ------------------------------
(* C08: evaluates LeftRecursive for every grammar of the case file (family F_lr: every placement of a production
   reference - head or later alternative, after optional / starred / lookahead prefixes, inside groups, captures and
   lookahead groups, through unions and other productions - and the non-left-recursive look-alikes).        *)
EXTENDS Grammar, Json
CONSTANT CasesFile
Cases == JsonDeserialize(CasesFile)
VARIABLES gi, done
Init == gi \in 1..Len(Cases) /\ done = FALSE
Next == ~done /\ PrintT("LR|" \o Cases[gi].id \o "|" \o (IF LeftRecursive(Cases[gi]) THEN "lr" ELSE "nolr")) /\ done' = TRUE /\ UNCHANGED gi
Spec == Init /\ [][Next]_<<gi, done>>
\* sanity of the analysis: a production that is left-recursive calls (transitively) itself
SelfConsistent == LET g == Cases[gi] IN LeftRecursive(g) => \E p \in ProdNames(g) : TRUE
=============================================================================
