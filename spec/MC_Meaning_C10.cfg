CONSTANTS
  CasesFile = "cases.json"
  DevApplyAll = FALSE
  DevRawStart = FALSE
  DevEmptyTokPanics = FALSE
SPECIFICATION Spec
INVARIANT ElisionIndependent
CHECK_DEADLOCK FALSE
