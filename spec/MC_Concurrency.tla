---------------------------- MODULE MC_Concurrency ----------------------------
(* Instances of Concurrency: two or three lexers of one shared back-reference definition, every interleaving of their
   cache loads and stores, after every earlier history.  Uses:
     A, B   groups without the separator (the heredoc-like definition: `<(\w+)>` pushes a state whose end rule is `</\1>`);
     N1, N2 groups containing NUL: (a NUL b) as one group and (a) NUL (b) as two - the same key under the pinned key scheme.
   Each completed behaviour is printed as one SCHED line and replayed through the gate hooks into real lexers.      *)
EXTENDS Concurrency
CONSTANT NProcs, WithNul
Pat == <<"K", "1">>
A == [pat |-> Pat, refs |-> <<1>>, groups |-> << <<"<", "a", ">">>, <<"a">> >>]
B == [pat |-> Pat, refs |-> <<1>>, groups |-> << <<"<", "b", ">">>, <<"b">> >>]
N1 == [pat |-> Pat, refs |-> <<1>>, groups |-> << <<"a", "0", "b">>, <<"a", "0", "b">> >>]
N2 == [pat |-> Pat, refs |-> <<1>>, groups |-> << <<"a", "0", "b">>, <<"a">>, <<"b">> >>]
\* a rule referring to two groups (close = \2\1 after open = ([a-z])(["'])): D1 and D2 agree on the first-referenced group
Pat21 == <<"K", "2", "K", "1">>
D1 == [pat |-> Pat21, refs |-> <<2, 1>>, groups |-> << <<"a", "q">>, <<"a">>, <<"q">> >>]
D2 == [pat |-> Pat21, refs |-> <<2, 1>>, groups |-> << <<"b", "q">>, <<"b">>, <<"q">> >>]
\* E: the state is entered by a rule without groups, so `</\1>` cannot be expanded
E == [pat |-> Pat, refs |-> <<1>>, groups |-> << <<"!">> >>]
UseName(u) == CASE u = E -> "E" [] u = A -> "A" [] u = B -> "B" [] u = N1 -> "N1" [] u = N2 -> "N2" [] u = D1 -> "D1" [] u = D2 -> "D2"
\* one lexing call over "<a>t</a>" uses the end rule twice: first on "t</a>" (no match), then on "</a>"
Call(u) == IF u = E THEN <<u>> ELSE <<u, u>>
PlainUses == {A, B, D1, D2, E}
NulUses == {N1, N2}
MCProcs == 1..NProcs
MCScenarios == {[p \in MCProcs |-> Call(f[p])] : f \in [MCProcs -> (IF WithNul THEN NulUses ELSE PlainUses)]}
MCHistories == IF WithNul THEN {{}, {N1}, {N2}} ELSE {{}, {A}, {B}, {D1}, {D2}, {E}}

RECURSIVE SchedStr(_, _), CallsStr(_), HistStr(_)
SchedStr(s, i) == IF i > Len(s) THEN "" ELSE (IF i > 1 THEN " " ELSE "") \o ToString(s[i][1]) \o ":" \o s[i][2] \o (IF s[i][3] = "" THEN "" ELSE ":" \o s[i][3]) \o SchedStr(s, i + 1)
CallsStr(p) == IF p > NProcs THEN "" ELSE (IF p > 1 THEN "," ELSE "") \o UseName(Calls[p][1]) \o CallsStr(p + 1)
HistStr(H) == IF H = {} THEN "-" ELSE LET u == CHOOSE x \in H : TRUE IN UseName(u) \o (IF H \ {u} = {} THEN "" ELSE "," \o HistStr(H \ {u}))
Emit == /\ AllDone
        /\ PrintT("SCHED|" \o CallsStr(1) \o "|" \o HistStr(History) \o "|" \o SchedStr(sched, 1))
        /\ UNCHANGED vars
MCNext == Next \/ Emit
MCSpec == Init /\ [][MCNext]_vars /\ WF_vars(Next)
=============================================================================
