CONSTANTS MaxLen = 10
INIT IndInit
NEXT Next
INVARIANT IndInv
