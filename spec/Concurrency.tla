----------------------------- MODULE Concurrency -----------------------------
(* C09: the one piece of state a lexer definition shares between concurrently running lexers is the cache of
   compiled back-reference patterns (lexer.BackrefRegex).  Each use of a back-reference rule is
       CacheLoad(key)  ->  hit: use the cached pattern
                           miss: Compile (local) ; CacheStore(key, pattern)
   with Load and Store separately enabled steps, so TLC explores every interleaving (two lexers missing on the same
   key both compile and both store).  Everything else in a call is local to the call.
   A use is [pat, groups] (groups[1] = whole match); the compiled pattern is identified by what it must match:
   Compile(u) = the pattern with \1 replaced by the quoted group 1.
   Key(u) is the cache key.  KeyMode "quoted" is the code (each part quoted, hence injective); "nul" is the pinned
   tree's key pattern NUL group NUL group ..., which is not injective when a group contains NUL (D11).        *)
EXTENDS Integers, Sequences, FiniteSets, TLC

CONSTANTS Procs,      \* set of process ids (1..N)
          Scenarios,  \* set of call assignments: Calls[p] = sequence of uses process p performs (one lexing call)
          Histories,  \* set of histories: sets of uses already performed sequentially on the definition
          KeyMode     \* "quoted" | "nul"

RECURSIVE JoinNul(_, _)
JoinNul(gs, i) == IF i > Len(gs) THEN <<>> ELSE <<"0">> \o gs[i] \o JoinNul(gs, i + 1)      \* "0" stands for NUL
RECURSIVE JoinQuoted(_, _)
JoinQuoted(gs, i) == IF i > Len(gs) THEN <<>> ELSE <<"Q">> \o gs[i] \o <<"Q">> \o JoinQuoted(gs, i + 1)   \* Q = quote (never inside a group unescaped)
Key(u) == IF KeyMode = "nul" THEN u.pat \o JoinNul(u.groups, 1) ELSE <<"Q">> \o u.pat \o <<"Q">> \o JoinQuoted(u.groups, 1)
\* u.refs = the group numbers the pattern refers to, in order (\2\1 -> <<2, 1>>); the compiled pattern is identified by
\* the pattern text and the texts of exactly those groups
\* a use whose pattern refers to a group its parent match does not have cannot be expanded: the call fails with a located
\* error AND NOTHING IS STORED (a failed expansion must not poison the cache)
Fails(u) == \E k \in 1..Len(u.refs) : u.refs[k] + 1 > Len(u.groups)
Failure == <<"error">>
Compile(u) == <<u.pat, [k \in 1..Len(u.refs) |-> IF u.refs[k] + 1 <= Len(u.groups) THEN u.groups[u.refs[k] + 1] ELSE <<"missing">>]>>

AllUses == UNION Histories \cup UNION {UNION {{C[p][i] : i \in 1..Len(C[p])} : p \in Procs} : C \in Scenarios}
Keys == {Key(u) : u \in AllUses}
None == <<"none">>

VARIABLES Calls,   \* the scenario of this behaviour
          History, \* the history of this behaviour
          cache,   \* key -> compiled pattern or None
          pc,      \* per process: "load" | "store" | "done"
          idx,     \* per process: index of the current use
          loc,     \* per process: locally compiled pattern
          res,     \* per process: the patterns its uses obtained (the call's result is a function of these)
          sched    \* the interleaving so far: sequence of <<process, "load"|"store", "hit"|"miss"|"">>
vars == <<Calls, History, cache, pc, idx, loc, res, sched>>

\* the cache after the earlier sequential history (a sequential use stores Compile(u) under Key(u) unless present)
RECURSIVE Seed(_, _)
Seed(c, us) == IF us = {} THEN c
               ELSE LET u == CHOOSE x \in us : TRUE IN
                    Seed(IF c[Key(u)] = None /\ ~Fails(u) THEN [c EXCEPT ![Key(u)] = Compile(u)] ELSE c, us \ {u})

Init == /\ Calls \in Scenarios /\ History \in Histories
        /\ cache = Seed([k \in Keys |-> None], History)
        /\ pc = [p \in Procs |-> IF Len(Calls[p]) = 0 THEN "done" ELSE "load"]
        /\ idx = [p \in Procs |-> 1] /\ loc = [p \in Procs |-> None] /\ res = [p \in Procs |-> <<>>] /\ sched = <<>>

Cur(p) == Calls[p][idx[p]]
Advance(p) == IF idx[p] = Len(Calls[p]) THEN "done" ELSE "load"

CacheLoad(p) ==
  /\ pc[p] = "load"
  /\ IF cache[Key(Cur(p))] # None
     THEN /\ res' = [res EXCEPT ![p] = Append(@, cache[Key(Cur(p))])]
          /\ pc' = [pc EXCEPT ![p] = Advance(p)] /\ idx' = [idx EXCEPT ![p] = @ + 1] /\ UNCHANGED loc
          /\ sched' = Append(sched, <<p, "load", "hit">>)
     ELSE IF Fails(Cur(p))
     THEN /\ res' = [res EXCEPT ![p] = Append(@, Failure)]              \* the lexing call ends with the error
          /\ pc' = [pc EXCEPT ![p] = "done"] /\ UNCHANGED <<loc, idx>>
          /\ sched' = Append(sched, <<p, "load", "fail">>)
     ELSE /\ loc' = [loc EXCEPT ![p] = Compile(Cur(p))] /\ pc' = [pc EXCEPT ![p] = "store"] /\ UNCHANGED <<res, idx>>
          /\ sched' = Append(sched, <<p, "load", "miss">>)
  /\ UNCHANGED <<cache, Calls, History>>
CacheStore(p) ==
  /\ pc[p] = "store"
  /\ cache' = [cache EXCEPT ![Key(Cur(p))] = loc[p]]
  /\ res' = [res EXCEPT ![p] = Append(@, loc[p])]
  /\ pc' = [pc EXCEPT ![p] = Advance(p)] /\ idx' = [idx EXCEPT ![p] = @ + 1]
  /\ sched' = Append(sched, <<p, "store", "">>) /\ UNCHANGED <<loc, Calls, History>>
Next == \E p \in Procs : CacheLoad(p) \/ CacheStore(p)
Spec == Init /\ [][Next]_vars /\ WF_vars(Next)

AllDone == \A p \in Procs : pc[p] = "done"
\* every pattern a call obtained is the one its (pattern, groups) denotes: the call equals the same call on a fresh
\* definition used in isolation, for every interleaving and every earlier history
Denotes(u) == IF Fails(u) THEN Failure ELSE Compile(u)
ResultsSequential == \A p \in Procs : \A i \in 1..Len(res[p]) : res[p][i] = Denotes(Calls[p][i])
CacheCoherent == \A u \in AllUses : cache[Key(u)] = None \/ (~Fails(u) /\ cache[Key(u)] = Compile(u))
KeyInjective == \A u, v \in AllUses : Key(u) = Key(v) => Compile(u) = Compile(v)
Terminates == <>AllDone
=============================================================================
