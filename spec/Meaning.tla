------------------------------- MODULE Meaning -------------------------------
(* The documented meaning of a participle grammar as a big-step function (operators only; the MC_ and
   Trace_ modules own the variables).  Eval(n, env, self, C) evaluates grammar node n for the struct
   instance `self` in context C = [st, pend, log, nid]:
     st    lexer state [raw, cur, fc] (raw cursor, non-elided cursor, first token consumed since the
           innermost capture began) - elision and explicit matching of elided types are PeekAny/FastForward
           of PeekingLexer.tla;
     pend  captures deferred in the current context and not yet applied;
     log   writes already applied to struct values (threaded through abandoned attempts too, which is
           what makes "a dead capture reached the AST" expressible);
     nid   next struct-instance id.
   and returns [k \in {"ok","no","err","bug"}, st, vals, nn, pend, log, nid].
   The deviation switches reproduce what the pinned code did where it differed from the properties
   (all FALSE = intended meaning; the defects were repaired in /repo, see known_findings.json):
     DevApplyAll        a completing production applies every pending capture of its context (D1, C02)
     DevRawStart        a capture's token run starts at the raw cursor, i.e. includes elided tokens (D2)
     DevEmptyTokPanics  an empty capture into a lexer.Token field panics (D3, C06)                   *)
EXTENDS Integers, Sequences, FiniteSets, TLC

CONSTANTS DevApplyAll, DevRawStart, DevEmptyTokPanics

-----------------------------------------------------------------------------
\* token stream helpers.  env = [g, toks, K]
IsEOF(env, i) == env.toks[i].t = "EOF"

RECURSIVE NxtFrom(_, _)
NxtFrom(env, i) == IF IsEOF(env, i) \/ ~env.toks[i].el THEN i ELSE NxtFrom(env, i + 1)

\* m.ci = set of token types compared by case folding (participle.CaseInsensitive)
Matches(tok, m) == (m.t = "" \/ m.t = tok.t) /\ (m.s = "" \/ tok.v = m.s \/ (tok.t \in m.ci /\ tok.fv = m.fs))
CiSet(g) == {g.citypes[i] : i \in 1..Len(g.citypes)}

RECURSIVE PeekAnyFrom(_, _, _)
PeekAnyFrom(env, i, m) ==
  IF IsEOF(env, i) \/ Matches(env.toks[i], m) \/ ~env.toks[i].el THEN i ELSE PeekAnyFrom(env, i + 1, m)

RECURSIVE CountNE(_, _, _)
CountNE(env, a, b) == \* non-elided, non-EOF tokens in a..b
  IF a > b THEN 0
  ELSE (IF ~IsEOF(env, a) /\ ~env.toks[a].el THEN 1 ELSE 0) + CountNE(env, a + 1, b)

\* fc: raw index of the first token consumed since the innermost capture began (0 = none yet)
FastForward(env, st, j) ==
  IF IsEOF(env, j) THEN [raw |-> j, cur |-> st.cur + CountNE(env, st.raw, j - 1), fc |-> IF st.fc = 0 THEN j ELSE st.fc]
  ELSE [raw |-> j + 1, cur |-> st.cur + CountNE(env, st.raw, j), fc |-> IF st.fc = 0 THEN j ELSE st.fc]

-----------------------------------------------------------------------------
ProdIdx(g, name) == CHOOSE i \in 1..Len(g.prods) : g.prods[i].name = name
Body(g, name) == g.prods[ProdIdx(g, name)].body

R(k, st, vals, nn, pend, log, nid) ==
  [k |-> k, st |-> st, vals |-> vals, nn |-> nn, pend |-> pend, log |-> log, nid |-> nid]

Committed(env, startcur, r) == env.K >= 0 /\ r.st.cur > startcur + env.K

RECURSIVE JoinVals(_, _)
JoinVals(vals, i) == IF i > Len(vals) THEN "" ELSE vals[i].s \o JoinVals(vals, i + 1)
NumKinds == {"int8", "int16", "int32", "int64", "int", "uint8", "uint16", "uint32", "uint64", "uint", "float32", "float64"}
IsNum(kind) == kind \in NumKinds
\* slices of numeric kinds ("int8s", ...): every captured element is converted on its own
NumSliceKinds == {k \o "s" : k \in NumKinds}
IsNumSlice(kind) == kind \in NumSliceKinds
ElemKind(kind) == CHOOSE k \in NumKinds : k \o "s" = kind
\* conversion oracle: g.conv[kind][joined text] = "fail" or the canonical value (Conv.tla for integers, the logged
\* strconv table for floats); a text missing from the table makes the case unjudgeable ("skip")
\* fields of user types (Capture / TextUnmarshaler, and slices of Capture elements): the harness's implementations reject the
\* text "300" with an error, every other text is accepted
IsUserText(kind) == kind \in {"capt", "textu", "capts", "pcapts"}
UserTextOK(d) == \A j \in 1..Len(d.vals) : ("s" \in DOMAIN d.vals[j]) => d.vals[j].s # "300"
ConvKnown(g, d) == IF IsNumSlice(d.kind) THEN \A j \in 1..Len(d.vals) : ("s" \in DOMAIN d.vals[j]) => d.vals[j].s \in DOMAIN g.conv[ElemKind(d.kind)]
                   ELSE ~IsNum(d.kind) \/ Len(d.vals) = 0 \/ JoinVals(d.vals, 1) \in DOMAIN g.conv[d.kind]
ConvOK(g, d) == IF IsUserText(d.kind) THEN UserTextOK(d)
                ELSE IF IsNumSlice(d.kind) THEN \A j \in 1..Len(d.vals) : ("s" \in DOMAIN d.vals[j]) => g.conv[ElemKind(d.kind)][d.vals[j].s] # "fail"
                ELSE ~IsNum(d.kind) \/ Len(d.vals) = 0
                     \/ (LET t == JoinVals(d.vals, 1) IN t \in DOMAIN g.conv[d.kind] /\ g.conv[d.kind][t] # "fail")
\* setField over a list of deferred captures, stopping at the first conversion error (context.go Apply)
RECURSIVE ApplySeq(_, _, _, _)
ApplySeq(g, ds, i, lg) == IF i > Len(ds) THEN [log |-> lg, ok |-> TRUE]
                          ELSE IF ~ConvKnown(g, ds[i]) THEN [log |-> Append(lg, [noconv |-> TRUE]), ok |-> FALSE]
                          ELSE IF ConvOK(g, ds[i]) THEN ApplySeq(g, ds, i + 1, Append(lg, ds[i]))
                          ELSE [log |-> lg, ok |-> FALSE]

\* index of the capture at which ApplySeq stops with a conversion error (0 if none)
RECURSIVE FirstBad(_, _, _)
FirstBad(g, ds, i) == IF i > Len(ds) THEN 0
                      ELSE IF ~ConvKnown(g, ds[i]) THEN 0
                      ELSE IF ConvOK(g, ds[i]) THEN FirstBad(g, ds, i + 1) ELSE i

RECURSIVE Eval(_, _, _, _)
RECURSIVE EvalSeq(_, _, _, _, _, _, _)
RECURSIVE EvalAlt(_, _, _, _, _, _)
RECURSIVE EvalLoop(_, _, _, _, _, _, _, _)

\* C = [st, pend, log, nid]
Ctx(st, pend, log, nid) == [st |-> st, pend |-> pend, log |-> log, nid |-> nid]

\* C02 at the level of the meaning: when the attempt that produced r (started in context C) is abandoned, the writes
\* it performed may only target struct instances created inside the attempt (ids >= C.nid), which are unreachable from
\* the result.  A write to an older instance is a dead capture reaching the AST: it is marked in the log.
DeadIn(C, r) == \E i \in (Len(C.log) + 1)..Len(r.log) : "inst" \in DOMAIN r.log[i] /\ r.log[i].inst < C.nid
Abandon(C, r) == IF DeadIn(C, r) THEN Append(r.log, [dead |-> TRUE]) ELSE r.log

Eval(n, env, self, C) ==
  CASE n.op = "lit" \/ n.op = "ref" ->
        LET m == IF n.op = "lit" THEN [s |-> n.s, t |-> n.t, ci |-> CiSet(env.g), fs |-> n.fs] ELSE [s |-> "", t |-> n.t, ci |-> {}, fs |-> ""]
            j == PeekAnyFrom(env, C.st.raw, m)
        IN IF Matches(env.toks[j], m)
           THEN R("ok", FastForward(env, C.st, j), <<[s |-> env.toks[j].v]>>, TRUE, C.pend, C.log, C.nid)
           ELSE R("no", C.st, <<>>, FALSE, C.pend, C.log, C.nid)
    [] n.op = "user" ->
        \* a child implemented by user code (Parseable) that takes exactly one token with PeekingLexer.Next(): it matches the
        \* next non-elided token (no match at EOF) and leaves the raw cursor just past it.  User code bypasses the capture
        \* bookkeeping, so a capture wrapping it starts at the raw cursor (fc is left alone).
        LET p == NxtFrom(env, C.st.raw) IN
        IF IsEOF(env, p) THEN R("no", C.st, <<>>, FALSE, C.pend, C.log, C.nid)
        ELSE R("ok", [raw |-> p + 1, cur |-> C.st.cur + 1, fc |-> C.st.fc], <<[user |-> env.toks[p].v]>>, TRUE, C.pend, C.log, C.nid)
    [] n.op = "user2" ->
        \* user code that consumes the next token with Next() and THEN reports "no match" unless it is an Ident.  It is used only
        \* at the head of an alternative / optional / repeated group, i.e. on a branch: "no match" leaves no trace.
        LET p == NxtFrom(env, C.st.raw) IN
        IF IsEOF(env, p) \/ env.toks[p].t # "Ident" THEN R("no", C.st, <<>>, FALSE, C.pend, C.log, C.nid)
        ELSE R("ok", [raw |-> p + 1, cur |-> C.st.cur + 1, fc |-> C.st.fc], <<[user2 |-> env.toks[p].v]>>, TRUE, C.pend, C.log, C.nid)
    [] n.op = "user3" ->
        \* user code that takes one token, demands "!" as the next one (which it takes as well) and otherwise FAILS - with an
        \* error that wraps the "no match" sentinel, after having consumed the first token.  Only the sentinel itself means
        \* "no match": this is a failing node that has advanced by one token.
        LET p == NxtFrom(env, C.st.raw) IN
        IF IsEOF(env, p) THEN R("no", C.st, <<>>, FALSE, C.pend, C.log, C.nid)
        ELSE LET q == NxtFrom(env, p + 1) IN
             IF ~IsEOF(env, q) /\ env.toks[q].v = "!"
             THEN R("ok", [raw |-> q + 1, cur |-> C.st.cur + 2, fc |-> C.st.fc], <<[user3 |-> env.toks[p].v]>>, TRUE, C.pend, C.log, C.nid)
             ELSE R("err", [raw |-> p + 1, cur |-> C.st.cur + 1, fc |-> C.st.fc], <<>>, FALSE, C.pend, C.log, C.nid)
    [] n.op = "seq" -> EvalSeq(n.kids, 1, env, self, C, <<>>, FALSE)
    [] n.op = "alt" -> EvalAlt(n.kids, 1, env, self, C, [saw |-> FALSE, deep |-> 0, vals |-> <<>>, nn |-> FALSE])
    [] n.op = "union" ->
        LET kids == [i \in 1..Len(env.g.unions[n.u]) |-> [op |-> "prod", p |-> env.g.unions[n.u][i]]]
            r == EvalAlt(kids, 1, env, self, C, [saw |-> FALSE, deep |-> 0, vals |-> <<>>, nn |-> FALSE])
        IN IF r.k = "err" THEN [r EXCEPT !.vals = <<>>, !.nn = FALSE] ELSE r
    [] n.op = "grp" ->
        (CASE n.mode = "once" -> Eval(n.kid, env, self, C)
          [] n.mode = "nonempty" ->
               LET r == Eval(n.kid, env, self, C) IN
               IF r.k = "err" \/ r.k = "bug" THEN r
               ELSE IF Len(r.vals) = 0 THEN [r EXCEPT !.k = "err"]
               ELSE r
          [] OTHER -> EvalLoop(n.kid, env, self, C, <<>>, FALSE, 0,
                               [min |-> IF n.mode = "plus" THEN 1 ELSE 0, max |-> IF n.mode = "opt" THEN 1 ELSE env.g.maxiter]))
    [] n.op = "cap" ->
        LET r == Eval(n.kid, env, self, [C EXCEPT !.st.fc = 0])
            from == IF DevRawStart \/ r.st.fc = 0 THEN C.st.raw ELSE r.st.fc
            d == [inst |-> self, f |-> n.f, kind |-> n.fk, from |-> from, to |-> r.st.raw, vals |-> r.vals]
            pend2 == IF r.nn THEN Append(r.pend, d) ELSE r.pend
            st2 == [r.st EXCEPT !.fc = IF C.st.fc # 0 THEN C.st.fc ELSE r.st.fc]
        IN (CASE r.k = "bug" -> r
             [] r.k = "err" -> [r EXCEPT !.st = st2, !.pend = pend2, !.vals = <<[self |-> self]>>, !.nn = TRUE]
             [] r.k = "no" -> [r EXCEPT !.st = st2]
             [] r.k = "ok" -> [r EXCEPT !.st = st2, !.pend = pend2, !.vals = <<[self |-> self]>>, !.nn = TRUE])
    [] n.op = "prod" ->
        LET id == C.nid
            inner == Eval(Body(env.g, n.p), env, id, Ctx(C.st, C.pend, C.log, C.nid + 1))
            base == Len(C.pend)
            own == SubSeq(inner.pend, base + 1, Len(inner.pend))
            hdr == [new |-> id, p |-> n.p, start |-> C.st.raw, pos |-> NxtFrom(env, C.st.raw), end |-> inner.st.raw]
            ap == ApplySeq(env.g, IF DevApplyAll THEN inner.pend ELSE own, 1, inner.log)
            \* as-is: a failing Apply leaves the whole pending list in place; intended: the production's own captures are gone
            rest == IF DevApplyAll THEN (IF ap.ok THEN <<>> ELSE inner.pend) ELSE C.pend
        IN (CASE inner.k = "bug" -> inner
             [] inner.k = "no" -> R("no", C.st, <<>>, FALSE, C.pend, inner.log, inner.nid)
             [] inner.k = "err" -> R("err", inner.st, <<[node |-> id]>>, TRUE, rest, Append(ap.log, hdr), inner.nid)
             [] inner.k = "ok" -> R(IF ap.ok THEN "ok" ELSE "err", inner.st, <<[node |-> id]>>, TRUE, rest, Append(ap.log, hdr), inner.nid))
    [] n.op = "neg" ->
        LET p == NxtFrom(env, C.st.raw) IN
        IF IsEOF(env, p) THEN R("no", C.st, <<>>, FALSE, C.pend, C.log, C.nid)
        ELSE LET r == Eval(n.kid, env, self, Ctx(C.st, <<>>, C.log, C.nid)) IN
             (CASE r.k = "bug" -> r
               [] r.k = "ok" -> R("err", C.st, <<>>, FALSE, C.pend, Abandon(C, r), r.nid)
               [] OTHER -> R("ok", [raw |-> p + 1, cur |-> C.st.cur + 1, fc |-> IF C.st.fc = 0 THEN p ELSE C.st.fc],
                             <<[s |-> env.toks[p].v]>>, TRUE, C.pend, Abandon(C, r), r.nid))
    [] n.op = "look" ->
        LET r == Eval(n.kid, env, self, Ctx(C.st, <<>>, C.log, C.nid)) IN
        (CASE r.k = "bug" -> r
          [] (r.k = "ok") # (~n.neg) -> R("err", C.st, <<>>, FALSE, C.pend, Abandon(C, r), r.nid)
          [] OTHER -> R("ok", C.st, <<>>, TRUE, C.pend, Abandon(C, r), r.nid))

\* sequence: acc = accumulated vals, nn = Go non-nil-ness of `out`
EvalSeq(kids, i, env, self, C, acc, nn) ==
  IF i > Len(kids) THEN R("ok", C.st, acc, TRUE, C.pend, C.log, C.nid)
  ELSE LET r == Eval(kids[i], env, self, C) IN
    CASE r.k = "bug" -> r
      [] r.k = "err" -> [r EXCEPT !.vals = acc \o r.vals, !.nn = nn \/ Len(r.vals) > 0]
      [] r.k = "no" -> IF i = 1 THEN R("no", C.st, <<>>, FALSE, r.pend, r.log, r.nid)
                       ELSE R("err", C.st, acc, nn, r.pend, r.log, r.nid)
      [] r.k = "ok" -> EvalSeq(kids, i + 1, env, self, Ctx(r.st, r.pend, r.log, r.nid), acc \o r.vals, TRUE)

\* disjunction; C.log/C.nid are threaded through abandoned branches; fe = first-error bookkeeping
EvalAlt(kids, i, env, self, C, fe) ==
  IF i > Len(kids)
  THEN IF fe.saw THEN R("err", C.st, fe.vals, fe.nn, C.pend, C.log, C.nid)
       ELSE R("no", C.st, <<>>, FALSE, C.pend, C.log, C.nid)
  ELSE LET r == Eval(kids[i], env, self, Ctx(C.st, <<>>, C.log, C.nid)) IN
    CASE r.k = "bug" -> r
      [] r.k = "err" ->
           IF Committed(env, C.st.cur, r)
           THEN [r EXCEPT !.pend = C.pend \o r.pend]
           ELSE EvalAlt(kids, i + 1, env, self, Ctx(C.st, C.pend, Abandon(C, r), r.nid),
                        IF r.st.cur >= fe.deep THEN [saw |-> TRUE, deep |-> r.st.cur, vals |-> r.vals, nn |-> r.nn] ELSE [fe EXCEPT !.saw = TRUE])
      [] r.k = "ok" ->
           IF r.st.raw = C.st.raw /\ ~IsEOF(env, C.st.raw) THEN [r EXCEPT !.k = "bug"]
           ELSE [r EXCEPT !.pend = C.pend \o r.pend]
      [] r.k = "no" -> EvalAlt(kids, i + 1, env, self, Ctx(C.st, C.pend, Abandon(C, r), r.nid), fe)

\* ? * + loops.  out/nn accumulate; matches counts iterations
EvalLoop(kid, env, self, C, out, nn, matches, lim) ==
  LET Finish(CC, o, onn, m) ==
        IF m >= env.g.maxiter THEN R("err", CC.st, <<>>, FALSE, CC.pend, CC.log, CC.nid)
        ELSE IF lim.min = 0 THEN R("ok", CC.st, o, TRUE, CC.pend, CC.log, CC.nid)
        ELSE IF onn THEN R("ok", CC.st, o, TRUE, CC.pend, CC.log, CC.nid)
        ELSE R("no", CC.st, <<>>, FALSE, CC.pend, CC.log, CC.nid)
  IN
  IF matches >= lim.max THEN Finish(C, out, nn, matches)
  ELSE LET r == Eval(kid, env, self, Ctx(C.st, <<>>, C.log, C.nid)) IN
    CASE r.k = "bug" -> r
      [] r.k = "err" ->
           IF Committed(env, C.st.cur, r)
           THEN [r EXCEPT !.pend = C.pend \o r.pend, !.vals = out \o r.vals, !.nn = nn \/ Len(r.vals) > 0]
           ELSE Finish(Ctx(C.st, C.pend, Abandon(C, r), r.nid), out, nn, matches)
      [] r.k = "no" -> Finish(Ctx(C.st, C.pend, Abandon(C, r), r.nid), out, nn, matches)
      [] r.k = "ok" ->
           IF r.st.raw = C.st.raw /\ lim.max > 1
           THEN \* no progress: the real loop spins to MaxIterations; only nullable bodies get here
                R("err", C.st, <<>>, FALSE, C.pend, r.log, r.nid)
           ELSE EvalLoop(kid, env, self, Ctx(r.st, C.pend \o r.pend, r.log, r.nid),
                         out \o r.vals, nn \/ Len(r.vals) > 0, matches + 1, lim)

-----------------------------------------------------------------------------
\* AST construction from the write log
FieldKind(g, p, f) == LET pr == g.prods[ProdIdx(g, p)]
                          i == CHOOSE i \in 1..Len(pr.fields) : pr.fields[i].name = f
                      IN pr.fields[i].kind

Q(s) == "\"" \o s \o "\""

RECURSIVE JoinStr(_, _)
JoinStr(vals, i) == IF i > Len(vals) THEN "" ELSE vals[i].s \o JoinStr(vals, i + 1)

RECURSIVE JoinSeq(_, _, _)
JoinSeq(ss, i, sep) == IF i > Len(ss) THEN "" ELSE (IF i > 1 THEN sep ELSE "") \o ss[i] \o JoinSeq(ss, i + 1, sep)

NatStr(n) == ToString(n)

RECURSIVE FlatVals(_, _)
FlatVals(ws, i) == IF i > Len(ws) THEN <<>> ELSE ws[i].vals \o FlatVals(ws, i + 1)

\* value of field f of instance id: fold over log entries targeting (id, f)
RECURSIVE CanonInst(_, _, _)

Writes(log, id, f) == SelectSeq(log, LAMBDA e : "inst" \in DOMAIN e /\ e.inst = id /\ e.f = f)
Hdr(log, id) == LET hs == SelectSeq(log, LAMBDA e : "new" \in DOMAIN e /\ e.new = id) IN hs[Len(hs)]

CanonField(env, log, id, p, fld) ==
  LET ws == Writes(log, id, fld.name)
      kind == fld.kind
      nodeStr(v) == IF "node" \in DOMAIN v THEN CanonInst(env, log, v.node)
                    ELSE IF "user" \in DOMAIN v THEN "PWord{W=" \o Q(v.user) \o "}"
                    ELSE IF "user2" \in DOMAIN v THEN "PIdent{W=" \o Q(v.user2) \o "}"
                    ELSE IF "user3" \in DOMAIN v THEN "PPair{W=" \o Q(v.user3) \o "}" ELSE "?"
  IN CASE kind = "string" -> Q(JoinSeq([i \in 1..Len(ws) |-> JoinStr(ws[i].vals, 1)], 1, ""))
       \* *string: allocated by the first capture that is applied (even an empty one), nil otherwise
       [] kind = "pstring" -> IF Len(ws) = 0 THEN "nil" ELSE Q(JoinSeq([i \in 1..Len(ws) |-> JoinStr(ws[i].vals, 1)], 1, ""))
       \* "capt": a field of a user type implementing participle.Capture that appends what it is given (like []string)
       \* "textu": the same for encoding.TextUnmarshaler (called once per captured value)
       [] kind \in {"strings", "capt", "textu", "capts", "pcapts"} -> LET fv == FlatVals(ws, 1) IN "[" \o JoinSeq([j \in 1..Len(fv) |-> Q(fv[j].s)], 1, ",") \o "]"
       [] IsNumSlice(kind) -> (LET fv == FlatVals(ws, 1) IN "[" \o JoinSeq([j \in 1..Len(fv) |-> env.g.conv[ElemKind(kind)][fv[j].s]], 1, ",") \o "]")
       [] IsNum(kind) -> (LET nz == SelectSeq(ws, LAMBDA w : Len(w.vals) > 0) IN
                          IF Len(nz) = 0 THEN "0" ELSE env.g.conv[kind][JoinVals(nz[Len(nz)].vals, 1)])
       [] kind = "bool" -> IF \E i \in 1..Len(ws) : Len(ws[i].vals) > 0 THEN "T" ELSE "F"
       [] kind = "token" ->
            LET nz == SelectSeq(ws, LAMBDA w : w.from < w.to) IN
            IF Len(nz) = 0 THEN "tok0" ELSE "tok" \o NatStr(nz[Len(nz)].from)
       [] kind = "tokens" ->
            IF Len(ws) = 0 THEN "nil"      \* never written: the slice stays nil
            ELSE LET w == ws[Len(ws)] IN
                 "[" \o JoinSeq([i \in 1..(w.to - w.from) |-> "tok" \o NatStr(w.from + i - 1)], 1, ",") \o "]"
       [] OTHER ->
            \* "cnode(s)": a field of an interface type whose production is user code registered with ParseTypeWith (it takes one
            \* token, like the Parseable child "unode")
            LET single == kind = "node" \/ kind = "union" \/ kind = "unode" \/ kind = "cnode" \/ kind = "unode2" \/ kind = "unode3" IN
            IF single
            THEN LET nz == SelectSeq(ws, LAMBDA w : Len(w.vals) > 0) IN
                 IF Len(ws) = 0 THEN "nil"
                 ELSE IF Len(nz) = 0 THEN (IF kind \in {"node", "unode", "unode2", "unode3"} THEN "ZERO" ELSE "nil")
                 ELSE nodeStr(nz[Len(nz)].vals[1])
            ELSE LET fv == FlatVals(ws, 1) IN "[" \o JoinSeq([j \in 1..Len(fv) |-> nodeStr(fv[j])], 1, ",") \o "]"

CanonInst(env, log, id) ==
  LET h == Hdr(log, id)
      pr == env.g.prods[ProdIdx(env.g, h.p)]
      \* (only ParserMachine's partial results contain nodes whose body failed: Pos is set, EndPos and Tokens are not)
      failed == "failed" \in DOMAIN h /\ h.failed
  IN h.p \o "{" \o JoinSeq([i \in 1..Len(pr.fields) |->
        pr.fields[i].name \o "=" \o
          (IF pr.fields[i].kind = "pos" THEN
              (IF pr.fields[i].name = "Pos" THEN "pos" \o NatStr(h.pos) ELSE IF failed THEN "pos0" ELSE "pos" \o NatStr(h.end))
           ELSE IF pr.fields[i].name = "Tokens" /\ pr.fields[i].kind = "tokens" THEN
              IF failed THEN "nil" ELSE
              "[" \o JoinSeq([j \in 1..(h.end - h.start) |-> "tok" \o NatStr(h.start + j - 1)], 1, ",") \o "]"
           ELSE CanonField(env, log, id, h.p, pr.fields[i]))], 1, ";") \o "}"

Outcome(g, toks, K) ==
  LET env == [g |-> g, toks |-> toks, K |-> K]
      r == Eval([op |-> "prod", p |-> g.prods[1].name], env, 0, Ctx([raw |-> 1, cur |-> 0, fc |-> 0], <<>>, <<>>, 1))
      EmptyTok(e) == "inst" \in DOMAIN e /\ e.from >= e.to
                     /\ FieldKind(g, Hdr(r.log, e.inst).p, e.f) = "token"
  IN CASE (\E i \in 1..Len(r.log) : "noconv" \in DOMAIN r.log[i]) -> "skip"
       [] r.k = "bug" -> "bug"
       [] DevEmptyTokPanics /\ (\E i \in 1..Len(r.log) : EmptyTok(r.log[i])) -> "bug"
       [] r.k = "err" \/ r.k = "no" -> "err"
       [] r.k = "ok" ->
            IF ~g.trailing /\ ~IsEOF(env, NxtFrom(env, r.st.raw)) THEN "err"
            ELSE "ok " \o CanonInst(env, r.log, r.vals[1].node)

\* the raw evaluation (for the theorems of MC_Meaning)
RootEval(g, toks, K) ==
  Eval([op |-> "prod", p |-> g.prods[1].name], [g |-> g, toks |-> toks, K |-> K], 0, Ctx([raw |-> 1, cur |-> 0, fc |-> 0], <<>>, <<>>, 1))
Accepted(g, toks, K) == LET r == RootEval(g, toks, K) env == [g |-> g, toks |-> toks, K |-> K] IN
                        r.k = "ok" /\ (g.trailing \/ IsEOF(env, NxtFrom(env, r.st.raw)))

=============================================================================
