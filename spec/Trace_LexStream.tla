--------------------------- MODULE Trace_LexStream ---------------------------
(* Trace validation for C04: token events recorded from real lexers (one trace per (lexer, input), traces
   separated by reset events) must be behaviours of LexStream.                                 *)
EXTENDS LexStream, Json
CONSTANTS TraceFile
Trace == ndJsonDeserialize(TraceFile)
VARIABLE l
tvars == <<input, noDrop, lastEnd, ntok, finished, l>>
E == Trace[l]

TraceInit == TLCSet(1, 2) /\ l = 2 /\ Trace[1].ev = "reset" /\ LSInit(Trace[1].chars, Trace[1].nodrop)
TReset == l <= Len(Trace) /\ E.ev = "reset" /\ finished
          /\ input' = E.chars /\ noDrop' = E.nodrop /\ lastEnd' = 0 /\ ntok' = 0 /\ finished' = FALSE /\ l' = l + 1
TTok == l <= Len(Trace) /\ E.ev = "tok" /\ Emit(E.off, E.len, E.line, E.col, E.vok, E.fok) /\ l' = l + 1
TEof == l <= Len(Trace) /\ E.ev = "eof" /\ EmitEOF(E.off, E.line, E.col, E.vok, E.fok) /\ l' = l + 1
TraceNext == TReset \/ TTok \/ TEof
TraceSpec == TraceInit /\ [][TraceNext]_tvars

HighWater == TLCSet(1, IF TLCGet(1) < l THEN l ELSE TLCGet(1))
\* accepted iff the whole file was consumed and the last run was finished
TraceAccepted == LET hw == TLCGet(1) IN
                 IF hw = Len(Trace) + 1 THEN TRUE ELSE PrintT("REJECTED|" \o ToString(hw)) /\ FALSE
=============================================================================
