CONSTANTS
  TraceFile = "history.ndjson"
SPECIFICATION TraceSpec
CONSTRAINT HighWater
POSTCONDITION TraceAccepted
CHECK_DEADLOCK FALSE
