CONSTANTS
  MaxLen = 3
  Mode = "soup"
  CasesFile = "tagcases.json"
SPECIFICATION Spec
INVARIANT OracleConsistent
CHECK_DEADLOCK FALSE
