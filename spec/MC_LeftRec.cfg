CONSTANTS
  CasesFile = "cases.json"
SPECIFICATION Spec
INVARIANT SelfConsistent
CHECK_DEADLOCK FALSE
