---------------------------- MODULE Trace_History ----------------------------
(* Trace validation for History.tla.  Events recorded from real objects (harness: conc-history):
     {"ev": "fresh", "call": c, "res": r}                 a call on an object that has never been used
     {"ev": "used",  "call": c, "res": r, "after": h}     the same call on an object with history h (h is documentation)
   results are digests of the full printed results.                                                                   *)
EXTENDS History, Json
CONSTANT TraceFile
Trace == ndJsonDeserialize(TraceFile)
VARIABLE l
E == Trace[l]
TraceInit == TLCSet(1, 1) /\ l = 1 /\ fresh = NoKnowledge
TFresh == l <= Len(Trace) /\ E.ev = "fresh" /\ Fresh(E.call, E.res) /\ l' = l + 1
TUsed == l <= Len(Trace) /\ E.ev = "used" /\ Used(E.call, E.res) /\ l' = l + 1
TraceSpec == TraceInit /\ [][TFresh \/ TUsed]_<<fresh, l>>
HighWater == TLCSet(1, IF TLCGet(1) < l THEN l ELSE TLCGet(1))
TraceAccepted == LET hw == TLCGet(1) IN IF hw = Len(Trace) + 1 THEN TRUE ELSE PrintT("REJECTED|" \o ToString(hw)) /\ FALSE
=============================================================================
