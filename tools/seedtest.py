#!/usr/bin/env python3
"""Confirm a seeded change and run checks against it.
usage: seedtest.py <seed dir with patch.diff, demo_test.go, meta.json> <name under /verif/seeded> <check ids...> [--tier quick]
1. scratch worktree of /repo HEAD: demo passes; apply patch; repository tests pass; demo fails.
2. apply the patch to /repo, run the checks, revert /repo.
Results are written into /verif/seeded/<name>/meta.json."""
import json, os, shutil, subprocess, sys, tempfile

ENV = dict(os.environ, GOFLAGS="-mod=mod", GOPROXY="off", GOSUMDB="off", GOTOOLCHAIN="local")
# the tree the patch is applied to while the checks run: /repo, or (to work in parallel with other runs) a scratch worktree
# of it named by SEED_REPO, in which case the checks are pointed at it with VERIF_REPO
TARGET = os.environ.get("SEED_REPO", "/repo")
# the checks run are those of the directory this script lives in (a snapshot copy of /verif works as well)
VERIF = os.path.dirname(os.path.dirname(os.path.abspath(__file__)))
if TARGET != "/repo":
    ENV["VERIF_REPO"] = TARGET


def sh(cmd, cwd=None, timeout=3600):
    p = subprocess.run(cmd, shell=True, cwd=cwd, env=ENV, stdout=subprocess.PIPE, stderr=subprocess.STDOUT, timeout=timeout)
    return p.returncode, p.stdout.decode("utf8", "replace")


def main():
    src, name = sys.argv[1], sys.argv[2]
    tier = "quick"
    ids = [a for a in sys.argv[3:] if not a.startswith("--")]
    if "--thorough" in sys.argv:
        tier = "thorough"
    meta = json.load(open(os.path.join(src, "meta.json")))
    demo_dir = meta.get("demo_dir", ".").strip("/") or "."
    patch = os.path.abspath(os.path.join(src, "patch.diff"))
    result = {"confirmed": False}
    if "--noconfirm" not in sys.argv:
        wt = tempfile.mkdtemp(prefix="seedwt-")
        os.rmdir(wt)
        rc, out = sh("git -C /repo worktree add -q --detach %s HEAD" % wt)
        assert rc == 0, out
        try:
            demo_dst = os.path.join(wt, demo_dir, "zz_seed_demo_test.go")
            shutil.copy(os.path.join(src, "demo_test.go"), demo_dst)
            pkg = "./" + demo_dir if demo_dir != "." else "."
            moddir = wt
            if demo_dir.startswith("cmd/participle"):
                moddir = os.path.join(wt, "cmd/participle")
                pkg = "./" + demo_dir[len("cmd/participle"):].strip("/") if demo_dir != "cmd/participle" else "."
            rc0, out0 = sh("go test -vet=off -count=1 %s" % pkg, cwd=moddir)
            rca, outa = sh("git apply %s" % patch, cwd=wt)
            if rca != 0:
                rca, outa = sh("git apply -3 %s" % patch, cwd=wt)
            result["applies"] = rca == 0
            if rca != 0:
                print("PATCH DOES NOT APPLY:", outa[-500:])
            else:
                rc1, out1 = sh("go test -vet=off -count=1 %s" % pkg, cwd=moddir)
                os.remove(demo_dst)
                rc2, out2 = sh("go test -vet=off -count=1 ./...", cwd=wt)
                rc3, out3 = sh("go test -vet=off -count=1 ./...", cwd=os.path.join(wt, "cmd/participle"))
                result.update(demo_passes_without=rc0 == 0, demo_fails_with=rc1 != 0, repo_tests_pass_with=(rc2 == 0 and rc3 == 0))
                result["confirmed"] = rc0 == 0 and rc1 != 0 and rc2 == 0 and rc3 == 0
                if not result["confirmed"]:
                    print("NOT CONFIRMED", result)
                    print(out0[-800:] if rc0 else "", out2[-800:] if rc2 else "")
                # refresh the stored patch against the current tree
                rcd, diff = sh("git diff HEAD", cwd=wt)
                result["patch_text"] = diff
        finally:
            sh("git -C /repo worktree remove --force %s" % wt)
            shutil.rmtree(wt, ignore_errors=True)
    dst = os.path.join(VERIF, "seeded", name)
    os.makedirs(dst, exist_ok=True)
    if result.get("patch_text"):
        open(os.path.join(dst, "patch.diff"), "w").write(result.pop("patch_text"))
    elif os.path.abspath(src) != os.path.abspath(dst):
        shutil.copy(patch, os.path.join(dst, "patch.diff"))
    if os.path.abspath(src) != os.path.abspath(dst):
        shutil.copy(os.path.join(src, "demo_test.go"), os.path.join(dst, "demo_test.go"))
    # run the checks on /repo with the patch applied
    rc, out = sh("git -C %s status --porcelain" % TARGET)
    assert out.strip() == "", "%s not clean: %s" % (TARGET, out)
    checks = {}
    rc, out = sh("git -C %s apply %s" % (TARGET, os.path.join(dst, "patch.diff")))
    assert rc == 0, "apply to %s failed: %s" % (TARGET, out)
    try:
        for pid in ids:
            rc, out = sh("./check %s --tier %s" % (pid, tier), cwd=VERIF, timeout=7200)
            viol = [l for l in out.splitlines() if l.startswith("VIOLATION")]
            desc = [l.strip() for l in out.splitlines() if l.strip().startswith("violation:")]
            checks[pid] = {"exit": rc, "violations": len(viol), "first": (desc[0][:300] if desc else (out.splitlines()[-1][:300] if out.strip() else ""))}
            print(name, pid, "exit", rc, "|", checks[pid]["first"][:200])
    finally:
        sh("git -C %s checkout -- ." % TARGET)
        sh("git -C %s clean -fdq" % TARGET)
    meta.update({"confirmation": result, "checks_run": checks, "tier": tier,
                 "detected_by": sorted(p for p, c in checks.items() if c["exit"] == 1)})
    prev = os.path.join(dst, "meta.json")
    if os.path.exists(prev) and "--noconfirm" in sys.argv:
        old = json.load(open(prev))
        old.setdefault("checks_run", {}).update(checks)
        old["detected_by"] = sorted(p for p, c in old["checks_run"].items() if c["exit"] == 1)
        meta = old
    json.dump(meta, open(prev, "w"), indent=1)


if __name__ == "__main__":
    main()
