"""Grammar family F_core: seeded random grammars over the tag language -> one JSON case format read by both TLC
(spec/MC_Meaning.tla, MC_Machine.tla) and the Go harness (dyn types built with reflect.StructOf).
A grammar: {"id", "prods": [{"name","fields":[{"name","kind","arg","tag"}],"body": <abstract tree>}], "unions", "ci",
"trailing", "maxiter", "conv", "ks", "inputs": [{"s": text, "toks": [{"t","v","fv","el"}]}]}.  prods[0] is the wrapper
DynRoot{X URoot `@@`} whose union URoot has the single member P0."""
import json, random, re, sys, itertools


def go_quote(s):
    """Go interpreted string literal for a tag literal"""
    out = '"'
    for ch in s:
        if ch == '"':
            out += '\\"'
        elif ch == "\\":
            out += "\\\\"
        elif ch == "\n":
            out += "\\n"
        elif ch == "\t":
            out += "\\t"
        else:
            out += ch
    return out + '"'


LITS = ["a", "b", "(", ")", "!"]

def lit(s, t=""): return {"op": "lit", "s": s, "t": t, "fs": s.lower()}
def ref(t): return {"op": "ref", "t": t}

class Gen:
    def __init__(self, rng, nprods, use_union, kinds_extra):
        self.rng = rng
        self.nprods = nprods
        self.use_union = use_union
        self.kinds_extra = kinds_extra
        self.fields = None

    def atom(self):
        r = self.rng.random()
        if r < 0.5: return lit(self.rng.choice(LITS))
        if r < 0.72: return ref(self.rng.choice(["Ident", "Int", "Ident", "Int", "Comment"] if getattr(self, "name_elided", True) else ["Ident", "Int"]))
        if r < 0.97: return lit(self.rng.choice(["a", "b", "7", "(", "a", "b"]), self.rng.choice(["Ident", "Ident", "Int", "Punct"]))
        # the unconstrained empty literal matches ANY token, elided ones included: it "names" elided types implicitly
        return lit("", self.rng.choice(["", "Ident", "Int"] if getattr(self, "name_elided", True) else ["Ident", "Int"]))

    def newfield(self, kind, arg=""):
        name = "F%d" % len(self.fields)
        self.fields.append({"name": name, "kind": kind, "arg": arg})
        return name

    def capture(self, pi, depth, allow_prod=True):
        r = self.rng.random()
        # reuse previous field sometimes (only same simple kinds)
        if allow_prod and r < 0.3 and pi + 1 < self.nprods:
            pj = self.rng.randrange(pi + 1, self.nprods)
            kind = self.rng.choice(["node", "nodes"])
            f = self.newfield(kind, "P%d" % pj)
            return {"op": "cap", "f": f, "fk": kind, "kid": {"op": "prod", "p": "P%d" % pj}}
        if allow_prod and r < 0.45 and self.use_union:
            kind = self.rng.choice(["union", "unions"])
            f = self.newfield(kind, "U0")
            return {"op": "cap", "f": f, "fk": kind, "kid": {"op": "union", "u": "U0"}}
        if getattr(self, "use_user", False) and r > 0.88:
            kind = self.rng.choice(["unode", "unodes", "cnode", "cnodes"])
            f = self.newfield(kind)
            return {"op": "cap", "f": f, "fk": kind, "kid": {"op": "user"}}
        kinds = ["string", "strings", "bool"] + self.kinds_extra
        kind = self.rng.choice(kinds)
        if self.fields and self.fields[-1]["kind"] == kind and kind in ("string", "strings") and self.rng.random() < 0.4 and self.lastcap_ok:
            f = self.fields[-1]["name"]
        else:
            f = self.newfield(kind)
        r2 = self.rng.random()
        if kind in ("int8", "int8s", "uint8s"):
            r3 = self.rng.random()
            kid = ref("Int") if r3 < 0.6 else (lit("7") if r3 < 0.75 else {"op": "grp", "mode": "once", "kid": {"op": "seq", "kids": [ref("Int"), ref("Int")]}})
        elif r2 < 0.6:
            kid = self.atom()
        elif r2 < 0.8:
            kid = {"op": "grp", "mode": "once", "kid": {"op": "alt", "kids": [self.atom(), self.atom()]}}
        elif r2 < 0.9:
            kid = {"op": "grp", "mode": "once", "kid": {"op": "seq", "kids": [self.atom(), self.atom()]}}
        else:
            kid = {"op": "grp", "mode": "once", "kid": {"op": "grp", "mode": "opt", "kid": self.atom()}}
        return {"op": "cap", "f": f, "fk": kind, "kid": kid}

    def term(self, pi, depth):
        """a node allowed as a sequence element"""
        r = self.rng.random()
        if depth <= 0:
            return self.atom() if r < 0.5 else self.capture(pi, depth)
        if r < 0.22: return self.atom()
        if r < 0.5: return self.capture(pi, depth)
        if r < 0.8:
            mode = self.rng.choice(["once", "opt", "star", "plus", "nonempty", "opt", "star"])
            kid = self.expr(pi, depth - 1)
            if mode in ("star", "plus") and nullable(kid):
                mode = "once"
            return {"op": "grp", "mode": mode, "kid": kid}
        if not getattr(self, "neglook", True):
            return self.atom() if r < 0.9 else self.capture(pi, depth)
        if r < 0.88:
            k = self.atom() if self.rng.random() < 0.7 else {"op": "grp", "mode": "once", "kid": {"op": "alt", "kids": [self.atom(), self.atom()]}}
            return {"op": "neg", "kid": k}
        return {"op": "look", "neg": self.rng.random() < 0.5, "kid": self.noCapExpr(depth - 1)}

    def noCapExpr(self, depth):
        r = self.rng.random()
        if depth <= 0 or r < 0.4: return self.atom()
        if r < 0.7: return {"op": "seq", "kids": [self.atom(), self.atom()]}
        return {"op": "alt", "kids": [self.atom(), {"op": "seq", "kids": [self.atom(), self.atom()]}]}

    def seq(self, pi, depth):
        n = self.rng.choice([1, 2, 2, 3])
        kids = [self.term(pi, depth) for _ in range(n)]
        return kids[0] if n == 1 else {"op": "seq", "kids": kids}

    def expr(self, pi, depth):
        n = self.rng.choice([1, 1, 2, 2, 3])
        alts = []
        for _ in range(n):
            for _try in range(10):
                s = self.seq(pi, depth)
                if n == 1 or not nullable(s):
                    break
            else:
                s = self.atom()
            alts.append(s)
        return alts[0] if n == 1 else {"op": "alt", "kids": alts}

def nullable(n):
    op = n["op"]
    if op == "lit": return n["s"] == "" and n["t"] == ""   # "" matches EOF without consuming
    if op in ("ref", "neg", "prod", "union", "user", "user2", "user3"): return False  # prods are made non-nullable below
    if op == "look": return True
    if op == "seq": return all(nullable(k) for k in n["kids"])
    if op == "alt": return any(nullable(k) for k in n["kids"])
    if op == "grp": return n["mode"] in ("opt", "star") or nullable(n["kid"])
    if op == "cap": return nullable(n["kid"])
    raise ValueError(op)

BRACKETS = [False]   # render optional / repeated groups with [ ] and { } (set per grammar)


def needs_paren(n):
    return n["op"] in ("seq", "alt")

def render(n, out):
    """render to a token list; capture tokens are ('@', field) markers"""
    op = n["op"]
    if op == "lit":
        out.append(go_quote(n["s"]) + (":" + n["t"] if n["t"] else ""))
    elif op == "ref":
        out.append(n["t"])
    elif op == "seq":
        for k in n["kids"]:
            if k["op"] in ("seq", "alt"):
                raise ValueError("seq kid must be wrapped")
            render(k, out)
    elif op == "alt":
        for i, k in enumerate(n["kids"]):
            if i: out.append("|")
            if k["op"] == "alt": raise ValueError("alt in alt")
            render(k, out)
    elif op == "grp":
        mod = {"once": "", "opt": "?", "star": "*", "plus": "+", "nonempty": "!"}[n["mode"]]
        k = n["kid"]
        if BRACKETS[0] and n["mode"] in ("opt", "star"):
            # the bracket spellings of the tag language: [ x ] = ( x )?   { x } = ( x )*
            out.append("[" if n["mode"] == "opt" else "{")
            render(k, out)
            out.append("]" if n["mode"] == "opt" else "}")
            return
        if BRACKETS[0] and n["mode"] != "once" and k["op"] == "grp" and k["mode"] in ("opt", "star"):
            # a suffix modifier directly after a bracket group: { x }!  [ x ]+
            render(k, out)
            out[-1] = out[-1] + mod
        elif n["mode"] != "once" and k["op"] == "cap" and (k["kid"]["op"] in ("lit", "ref", "prod", "union", "user", "user2", "user3") or (k["kid"]["op"] == "grp" and k["kid"]["mode"] == "once")):
            # a modifier applied directly to a capture: @Ident*  @@?  @( A B )+   (= group{mode, capture{...}})
            render(k, out)
            out[-1] = out[-1] + mod
        elif n["mode"] == "once" or needs_paren(k) or k["op"] in ("grp", "neg", "look", "cap"):
            out.append("("); render(k, out); out.append(")" + mod)
        else:
            render(k, out)
            out[-1] = out[-1] + mod
    elif op == "cap":
        out.append(("@", n["f"]))
        k = n["kid"]
        if k["op"] in ("prod", "union", "user", "user2", "user3"):
            out.append("@")
        elif k["op"] in ("lit", "ref"):
            render(k, out)
        elif k["op"] == "neg" and k["kid"]["op"] in ("lit", "ref"):
            render(k, out)                     # @~";"
        elif k["op"] == "grp" and k["mode"] in ("opt", "star"):
            # a capture applied directly to an optional / repeated group: the bracket forms @[ x ] and @{ x }
            out.append("[" if k["mode"] == "opt" else "{")
            render(k["kid"], out)
            out.append("]" if k["mode"] == "opt" else "}")
        else:
            if not (k["op"] == "grp" and k["mode"] == "once"):
                raise ValueError("cap kid must be atom or once-group")
            render(k, out)
    elif op == "neg":
        out.append("~")
        if n["kid"]["op"] == "grp" and n["kid"]["mode"] != "once":
            # in the tag language a modifier after ~x applies to the negation; ~(x+) needs its own parentheses
            out.append("(")
            render(n["kid"], out)
            out.append(")")
        else:
            render(n["kid"], out)
    elif op == "look":
        out.append("(?!" if n["neg"] else "(?=")
        render(n["kid"], out)
        out.append(")")
    else:
        raise ValueError(op)

def fields_from(body, fields):
    toks = []
    render(body, toks)
    order = []
    cur = None
    tags = {}
    pre = []
    for t in toks:
        if isinstance(t, tuple):
            f = t[1]
            if f != cur:
                if f in tags:
                    raise ValueError("non-contiguous field reuse")
                tags[f] = []
                order.append(f)
                cur = f
            tags[f].append("@")
        else:
            if cur is None: pre.append(t)
            else: tags[cur].append(t)
    if not order:
        return None
    tags[order[0]] = pre + tags[order[0]]
    # '@' must be glued to the next token
    out = []
    for f in order:
        s = " ".join(tags[f]).replace("@ ", "@")
        fd = next(x for x in fields if x["name"] == f)
        out.append({"name": f, "kind": fd["kind"], "arg": fd["arg"], "tag": s})
    return out

LEX = re.compile(r'(?P<Ident>[a-zA-Z]+)|(?P<Int>[0-9]+)|(?P<Comment>#[a-z]*#)|(?P<WS>\s+)|(?P<Punct>[^\sa-zA-Z0-9#])')

def lex(s):
    out = []
    pos = 0
    while pos < len(s):
        m = LEX.match(s, pos)
        if not m: return None
        t = m.lastgroup
        out.append({"t": t, "v": m.group(0), "fv": m.group(0).lower(), "el": t in ("WS", "Comment")})
        pos = m.end()
    out.append({"t": "EOF", "v": "", "fv": "", "el": False})
    return out

def terminals(n, acc):
    if n["op"] == "lit" and n["s"]: acc.add(n["s"])
    elif n["op"] == "ref":
        if n["t"] != "EOF": acc.add({"Ident": "x", "Int": "7", "Comment": "#k#"}[n["t"]])
    for k in n.get("kids", []): terminals(k, acc)
    if "kid" in n: terminals(n["kid"], acc)

def sample(n, prods, unions, rng, depth):
    op = n["op"]
    if op == "lit": return [n["s"] if n["s"] else rng.choice(["q", "9", "!"])]
    if op == "ref":
        if n["t"] == "EOF": return []
        return [{"Ident": rng.choice(["x", "y", "A"]), "Int": rng.choice(["7", "42", "127", "128", "300", "9"]), "Comment": "#k#"}[n["t"]]]
    if op == "seq": return [t for k in n["kids"] for t in sample(k, prods, unions, rng, depth)]
    if op == "alt": return sample(rng.choice(n["kids"]), prods, unions, rng, depth)
    if op == "grp":
        m = n["mode"]
        if m in ("once", "nonempty"): return sample(n["kid"], prods, unions, rng, depth)
        if m == "opt": return sample(n["kid"], prods, unions, rng, depth) if rng.random() < 0.6 else []
        cnt = rng.choice([0, 1, 2]) if m == "star" else rng.choice([1, 1, 2])
        return [t for _ in range(cnt) for t in sample(n["kid"], prods, unions, rng, depth)]
    if op == "cap": return sample(n["kid"], prods, unions, rng, depth)
    if op == "prod":
        if depth <= 0: return ["z"]
        return sample(prods[n["p"]], prods, unions, rng, depth - 1)
    if op == "union":
        if depth <= 0: return ["z"]
        return sample(prods[rng.choice(unions[n["u"]])], prods, unions, rng, depth - 1)
    if op == "neg": return [rng.choice(["z", "a", "7", "("])]
    if op == "user": return [rng.choice(["z", "x", "7", "("])]
    if op == "user2": return [rng.choice(["z", "x"])]
    if op == "user3": return [rng.choice(["z", "x", "7"]), "!"]
    if op == "look": return []
    raise ValueError(op)

NUMS = ["7", "42", "127", "128", "300", "9"]
CONV = {}
for a in NUMS:
    CONV[a] = str(int(a)) if -128 <= int(a) <= 127 else "fail"
    for b in NUMS:
        CONV[a + b] = str(int(a + b)) if -128 <= int(a + b) <= 127 else "fail"
        for c in NUMS:
            CONV[a + b + c] = "fail"



CONVU = {}
for a in NUMS:
    CONVU[a] = str(int(a)) if int(a) <= 255 else "fail"
    for b in NUMS:
        CONVU[a + b] = str(int(a + b)) if int(a + b) <= 255 else "fail"
        for c in NUMS:
            CONVU[a + b + c] = "fail"


def conv_table():
    return {"int8": dict(CONV), "uint8": dict(CONVU)}


def make_grammar(rng, gid, extra_kinds=(), with_pos=False, neglook=True, name_elided=True, ks=(0, 1, 2, -1), ci=None, trailing=None, use_user=False):
    for _attempt in range(200):
        nprods = rng.choice([1, 2, 2, 3])
        use_union = rng.random() < 0.4
        g = Gen(rng, nprods, use_union, list(extra_kinds))
        g.neglook = neglook
        g.name_elided = name_elided
        g.use_user = use_user
        brackets = rng.random() < 0.35
        prods = []
        ok = True
        for pi in range(nprods):
            g.fields = []
            g.lastcap_ok = True
            for _t in range(30):
                g.fields = []
                body = g.expr(pi, rng.choice([1, 2, 2, 3]))
                if pi > 0 or use_union:
                    # referenced productions must consume: prefix a literal
                    if nullable(body) or pi > 0:
                        first = lit(rng.choice(["(", "a", "b"])) if pi > 0 else None
                        if first is not None:
                            if body["op"] == "seq":
                                body = {"op": "seq", "kids": [first] + body["kids"]}
                            else:
                                b2 = body if body["op"] not in ("alt",) else {"op": "grp", "mode": "once", "kid": body}
                                body = {"op": "seq", "kids": [first, b2]}
                try:
                    BRACKETS[0] = brackets
                    fl = fields_from(body, g.fields)
                except ValueError:
                    continue
                finally:
                    BRACKETS[0] = False
                if fl:
                    break
            else:
                ok = False
                break
            if with_pos:
                fl = [{"name": "Pos", "kind": "pos", "arg": "", "tag": ""}, {"name": "EndPos", "kind": "pos", "arg": "", "tag": ""},
                      {"name": "Tokens", "kind": "tokens", "arg": "", "tag": ""}] + fl
            prods.append({"name": "P%d" % pi, "fields": fl, "body": body})
        if not ok:
            continue
        unions = {"URoot": ["P0"]}
        if use_union:
            members = [p["name"] for p in prods[1:]] or []
            if not members:
                continue
            unions["U0"] = members
        root = {"name": "DynRoot", "fields": [{"name": "X", "kind": "union", "arg": "URoot", "tag": "@@"}],
                "body": {"op": "cap", "f": "X", "fk": "union", "kid": {"op": "union", "u": "URoot"}}}
        civ = (rng.random() < 0.5) if ci is None else ci
        return {"id": gid, "prods": [root] + prods, "unions": unions, "inputs": [], "ks": list(ks), "maxiter": 1000000,
                "conv": conv_table(), "ci": civ, "citypes": ["Ident"] if civ else [],
                "trailing": (rng.random() < 0.3) if trailing is None else trailing}
    raise RuntimeError("could not generate")


def grammar_terms(g):
    terms = set()
    for p in g["prods"][1:]:
        terminals(p["body"], terms)
    return sorted(terms | {"z"})


def join(ts, seps):
    n = len(ts)
    s = seps[0]
    for i, t in enumerate(ts):
        sep = seps[i + 1]
        if i + 1 < n and sep == "" and (ts[i][-1].isalnum() and ts[i + 1][0].isalnum()):
            sep = " "
        if i + 1 < n and sep == "" and ts[i].endswith("#") and ts[i + 1].startswith("#"):
            sep = " "
        s += t + sep
    return s


def add_input(g, s, seen):
    if s in seen:
        return False
    lt = lex(s)
    if lt is None:
        return False
    seen.add(s)
    g["inputs"].append({"s": s, "toks": lt})
    return True


def exhaustive_inputs(g, maxlen, seen, extra_terms=()):
    import itertools
    terms = [t for t in grammar_terms(g) if t != "#k#"] + list(extra_terms)
    for n in range(maxlen + 1):
        for ts in itertools.product(terms, repeat=n):
            add_input(g, " ".join(ts), seen)


def random_inputs(g, rng, count, maxlen, seen, seps=("", " ", " ", "  ", " #c# ", "#x#")):
    terms = grammar_terms(g) + ["A", "B"]
    pmap = {p["name"]: p["body"] for p in g["prods"][1:]}
    start = len(g["inputs"])
    for _ in range(count * 4):
        if rng.random() < 0.25:
            ts = [rng.choice(terms) for _ in range(rng.randrange(0, maxlen + 1))]
        else:
            ts = sample(pmap["P0"], pmap, g["unions"], rng, 3)
            if rng.random() < 0.5 and ts:
                for _m in range(rng.choice([1, 1, 2])):
                    i = rng.randrange(len(ts) + 1)
                    c = rng.random()
                    if c < 0.35 and i < len(ts):
                        del ts[i]
                    elif c < 0.7:
                        ts.insert(i, rng.choice(terms))
                    elif i < len(ts):
                        ts[i] = rng.choice(terms)
            ts = ts[:maxlen + 6]
        sp = [rng.choice(seps) for _ in range(len(ts) + 1)]
        add_input(g, join(ts, sp), seen)
        if len(g["inputs"]) - start >= count:
            break


def respacings(g, rng, base_ts, seen, count):
    """inputs with the same non-elided tokens and different elided text in every gap (C10)"""
    out = []
    for _ in range(count):
        sp = [rng.choice(["", " ", "  ", " #c# ", "#x#", "\n", " #a##b# "]) for _ in range(len(base_ts) + 1)]
        s = join(base_ts, sp)
        if add_input(g, s, seen):
            out.append(s)
    return out
