"""C17 family: (numeric kind, text, field variant, capture shape) cases; boundary values of every width in bases 10/16/8/2
with prefixes, signs, valid and invalid underscores, leading zeros, and float texts."""
import json, random

KINDS = [("int8", 8, True), ("int16", 16, True), ("int32", 32, True), ("int64", 64, True), ("int", 64, True),
         ("uint8", 8, False), ("uint16", 16, False), ("uint32", 32, False), ("uint64", 64, False), ("uint", 64, False)]
FLOATS = ["float32", "float64"]


def digs(n, base):
    if n == 0:
        return "0"
    s = ""
    while n:
        s = "0123456789abcdef"[n % base] + s
        n //= base
    return s


def bounds():
    out = {}
    for name, bits, signed in KINDS:
        mx = (1 << (bits - 1)) - 1 if signed else (1 << bits) - 1
        mn = (1 << (bits - 1)) if signed else 0
        out[name] = {"pos": {str(b): list(digs(mx, b)) for b in (2, 8, 10, 16)}, "neg": {str(b): list(digs(mn, b)) for b in (2, 8, 10, 16)}}
    return out


def variants(rng, n):
    out = []
    for b, pre in ((10, ""), (16, "0x"), (16, "0X"), (8, "0o"), (8, "0"), (2, "0b")):
        d = digs(abs(n), b)
        for sign in (["", "+"] if n >= 0 else ["-"]):
            out.append(sign + pre + d)
            out.append(sign + pre + "0" + d)
            if len(d) > 1:
                i = rng.randrange(1, len(d))
                out.append(sign + pre + d[:i] + "_" + d[i:])
                out.append(sign + pre + d[:i] + "__" + d[i:])
            out.append(sign + pre + "_" + d)
            out.append(sign + pre + d + "_")
            if b == 16:
                out.append(sign + pre + d.upper())
    return out


ODD = ["+", "-", "0x", "0b", "0o", "_", "0_", "1_", "_1", "0_7", "0_x1", "0x_1f", "08", "09", "019", "017", "0777", "0b2", "0o8", "0xg", "1e3", "1.0", "--1", "+-1", "0x-1",
       "00", "-0", "+0", "0b_1", "0B1", "0O7", "1__2", "0x1_", "0_0", "__", "1e", "0x1p4", "Inf", "NaN", "1_000", "0x_", "-0x80", "-0200", "-0b10000000"]
FLOAT_TEXTS = ["0", "1", "-1", "+1", "1.5", ".5", "5.", "1e3", "1E3", "1e+3", "1e-3", "1.e3", "1e", "e3", "1e39", "-1e39", "3.4028234663852886e38", "3.4028235677973366e38",
               "3.5e38", "3.4028236e38", "1e-46", "1.401298464324817e-45", "7e-46", "1e-45", "1.7976931348623157e308", "1.797693134862315808e308", "1e309", "-1e309", "4.9e-324",
               "2.5e-324", "2.4e-324", "1e-400", "1e400", "0x1p-2", "0x1.fffffep127", "0x1p128", "0x1.fffffffffffffp1023", "0x1p1024", "0x1p-150", "0x.8p1", "0x1", "0x1p", "Inf", "+Inf", "-Inf",
               "inf", "infinity", "Infinity", "NaN", "nan", "-nan", "+NaN", "1_0.5", "1_000", "1__0", "_1.5", "1._5", "0x1_0p2", "0b101", "0o17", "017", "0.1", "16777217", "16777216.5",
               "9007199254740993", "0.000001", "123456789.125", "1.0000001", "1.00000006", "-0", "-0.0", "1e-38", "1.17549435e-38", "1.1754942e-38", "--1", "1.2.3", "1e3e3", "0x1.8", "1f", "1d"]


def cases(seed, quick):
    rng = random.Random(seed)
    texts = set(ODD)
    for name, bits, signed in KINDS:
        mx = (1 << (bits - 1)) - 1 if signed else (1 << bits) - 1
        mn = -(1 << (bits - 1)) if signed else 0
        for n in (mx, mx + 1, mn, mn - 1, 0, 1, -1, mx - 1, mx * 2, 7, 8, 9):
            texts.update(variants(rng, n))
    texts = sorted(t for t in texts if t and all(33 <= ord(c) < 127 for c in t))
    out = []
    for name, bits, signed in KINDS:
        ts = texts
        if quick:
            # per kind: every odd text, and the variants whose magnitude is near this kind's bounds
            ts = [t for t in texts if t in ODD or rng.random() < 0.12]
            mx = (1 << (bits - 1)) - 1 if signed else (1 << bits) - 1
            mn = -(1 << (bits - 1)) if signed else 0
            near = set()
            for n in (mx, mx + 1, mn, mn - 1):
                near.update(variants(rng, n))
            ts = sorted(set(ts) | {t for t in near if all(33 <= ord(c) < 127 for c in t)})
        for t in ts:
            out.append({"kind": name, "bits": bits, "signed": signed, "text": list(t), "s": t, "variant": "plain", "shape": "single"})
            if t[0] in "+-" and not t[1:2] in ("+", "-", ""):
                out.append({"kind": name, "bits": bits, "signed": signed, "text": list(t), "s": t, "variant": rng.choice(["plain", "plain", "ptr", "named", "ptrnamed"]), "shape": "joined"})
                if rng.random() < 0.4:   # the capture starts at the very first token of the input (no leading elided text)
                    out.append({"kind": name, "bits": bits, "signed": signed, "text": list(t), "s": t, "variant": rng.choice(["plain", "ptr", "named"]), "shape": "joined0"})
                if rng.random() < 0.5:   # an elided token between the sign and the number: only the captured tokens are joined
                    out.append({"kind": name, "bits": bits, "signed": signed, "text": list(t), "s": t, "variant": rng.choice(["plain", "ptr", "named"]), "shape": "joinedsp"})
            if rng.random() < 0.3:       # the same scalar field captured twice: every capture is converted, the last one is kept
                out.append({"kind": name, "bits": bits, "signed": signed, "text": list(t), "s": t, "variant": rng.choice(["plain", "ptr", "named"]), "shape": rng.choice(["multifirst", "multilast"])})
            if rng.random() < 0.3:       # a typed wildcard literal ("":Num) instead of the token reference
                out.append({"kind": name, "bits": bits, "signed": signed, "text": list(t), "s": t, "variant": rng.choice(["plain", "ptr", "named", "slice"]), "shape": "typedwild"})
            if rng.random() < 0.15:      # the token is captured through a negation ( @!"never" ), elided text before it
                out.append({"kind": name, "bits": bits, "signed": signed, "text": list(t), "s": t, "variant": rng.choice(["plain", "ptr", "named"]), "shape": "negcap"})
            if rng.random() < 0.15:      # a repetition after the capture takes a token and fails: the conversion error stays the parse's error
                out.append({"kind": name, "bits": bits, "signed": signed, "text": list(t), "s": t, "variant": "plain", "shape": "tail"})
            if rng.random() < 0.15:      # the field lives in a struct embedded three levels deep next to a field of another width
                out.append({"kind": name, "bits": bits, "signed": signed, "text": list(t), "s": t, "variant": rng.choice(["plain", "named"]), "shape": "embedded3"})
            r = rng.random()
            if r < 0.25:
                out.append({"kind": name, "bits": bits, "signed": signed, "text": list(t), "s": t, "variant": rng.choice(["ptr", "named", "slice", "slicegrp", "ptrnamed"]), "shape": "single"})
    fl = []
    for k in FLOATS:
        for t in FLOAT_TEXTS:
            for var in ("plain", "ptr", "named", "slice", "slicegrp", "ptrnamed"):
                if var != "plain" and rng.random() < 0.6:
                    continue
                fl.append({"kind": k, "bits": 32 if k == "float32" else 64, "signed": True, "text": list(t), "s": t, "variant": var, "shape": "single"})
            if t[0] in "+-" and t[1:2] not in ("+", "-", ""):
                fl.append({"kind": k, "bits": 32 if k == "float32" else 64, "signed": True, "text": list(t), "s": t, "variant": rng.choice(["plain", "ptr", "named"]), "shape": "joined"})
                fl.append({"kind": k, "bits": 32 if k == "float32" else 64, "signed": True, "text": list(t), "s": t, "variant": rng.choice(["plain", "ptr", "named"]), "shape": "joinedsp"})
    return out, fl
