"""Grammar case files -> Go source with NAMED struct types (package gengram of the harness, build tag gengram).
Used where production names matter (C14 EBNF) or Go-level type features are needed."""
import json, copy


def go_quote(s):
    out = '"'
    for ch in s:
        o = ord(ch)
        if ch == '"':
            out += '\\"'
        elif ch == "\\":
            out += "\\\\"
        elif ch == "\n":
            out += "\\n"
        elif ch == "\t":
            out += "\\t"
        elif ch == "\r":
            out += "\\r"
        elif o < 0x20 or o == 0x7f:
            out += "\\x%02x" % o
        else:
            out += ch
    return out + '"'


def rename(g, prefix):
    """named variant of a dynamic grammar: DynRoot/URoot wrapper dropped, P<i> -> <prefix>P<i>, U<i> -> <prefix>U<i>"""
    g = copy.deepcopy(g)
    ren = lambda n: prefix + n

    def walk(n):
        if n["op"] == "prod":
            n["p"] = ren(n["p"])
        if n["op"] == "union":
            n["u"] = ren(n["u"])
        if n["op"] == "lit":
            n["q"] = go_quote(n["s"])
        for k in n.get("kids", []):
            walk(k)
        if "kid" in n:
            walk(n["kid"])
    prods = g["prods"][1:]
    for p in prods:
        p["name"] = ren(p["name"])
        walk(p["body"])
        for f in p["fields"]:
            if f["arg"]:
                f["arg"] = ren(f["arg"])
    g["prods"] = prods
    g["unions"] = {ren(u): [ren(m) for m in ms] for u, ms in g["unions"].items() if u != "URoot"}
    g["root"] = prods[0]["name"]
    return g


GOTYPE = {"string": "string", "strings": "[]string", "bool": "bool", "int8": "int8", "token": "lexer.Token", "tokens": "[]lexer.Token", "pos": "lexer.Position"}


def gotype(f):
    k = f["kind"]
    if k in GOTYPE:
        return GOTYPE[k]
    if k == "node":
        return "*" + f["arg"]
    if k == "nodes":
        return "[]*" + f["arg"]
    if k == "union":
        return f["arg"]
    if k == "unions":
        return "[]" + f["arg"]
    raise ValueError(k)


def gotag(tag):
    if "`" in tag:
        # raw string cannot hold a back-quote: use the parser:"..." form in an interpreted literal
        return '"parser:' + go_quote(tag)[1:-1].replace('\\', '\\\\').replace('"', '\\"') + '"'  # pragma: no cover
    return "`" + tag + "`"


def emit(gs, path):
    out = ["//go:build gengram", "", "package gengram", "", 'import (', '\t"verifharness/corelex"', "", '\t"github.com/alecthomas/participle/v2"', '\t"github.com/alecthomas/participle/v2/lexer"', ")", "", "var _ lexer.Token", ""]
    for g in gs:
        for u in sorted(g["unions"]):
            out.append("type %s interface{}" % u)
        for p in g["prods"]:
            out.append("type %s struct {" % p["name"])
            for f in p["fields"]:
                out.append("\t%s %s %s" % (f["name"], gotype(f), gotag(f["tag"]) if f["tag"] else ""))
            out.append("}")
        opts = ["participle.Lexer(corelex.Lexer)", 'participle.Elide("WS", "Comment")']
        for u in sorted(g["unions"]):
            opts.append("participle.Union[%s](%s)" % (u, ", ".join("&%s{}" % m for m in g["unions"][u])))
        if g.get("ci"):
            opts.append('participle.CaseInsensitive("Ident")')
        out.append("func init() {")
        out.append("\tGrammars[%s] = func() (Built, error) { return participle.Build[%s](%s) }" % (json.dumps(g["id"]), g["root"], ", ".join(opts)))
        out.append("}")
        out.append("")
    open(path, "w").write("\n".join(out) + "\n")
