"""Rule-map family F_lex for the stateful-lexer checks (C03, C04, C05, C07, C16).
A raw case: {"id", "rules": {state: [{"name","pattern","act","state"}]}}.  Curated maps cover each mechanism once;
seeded random maps (VERIF_SEED) fill the rest."""
import json, random

# alphabet symbols: name letter (used in EXPECT lines), bytes, code point
SYMS = {
    "a": ([97], 97), "b": ([98], 98), "c": ([99], 99), "l": ([40], 40), "r": ([41], 41), "s": ([32], 32), "n": ([10], 10),
    "e": ([0xC3, 0xA9], 233), "x": ([0xFF], 0xFFFD), "A": ([65], 65), "q": ([34], 34), "k": ([92], 92), "z": ([0], 0),
    "d": ([46], 46), "p": ([43], 43), "1": ([49], 49), "t": ([9], 9), "m": ([13], 13),
    "w": ([115], 115), "j": ([107], 107), "f": ([0xC5, 0xBF], 0x17F), "g": ([0xE2, 0x84, 0xAA], 0x212A), "W": ([83], 83),
    "v": ([0xE2, 0x85, 0xB7], 0x2177), "V": ([0xE2, 0x85, 0xA7], 0x2167),
    "u": ([0xA9], 0xFFFD), "Q": ([96], 96),
    "G": ([0xCE, 0xB1], 0x3B1), "J": ([0xF0, 0x9F, 0x98, 0x80], 0x1F600), "T": ([0xC3], 0xFFFD), "O": ([0xCE, 0xA9], 0x3A9),
}


def fold_family():
    """case-insensitive literals whose folded variants differ in encoded length (s ~ U+017F, k ~ U+212A); alphabet 'awjfgW'"""
    P = lambda i, pat: named("T%d" % i, pat)
    return [{"id": "F0", "rules": {"Root": [P(0, "(?i)ks"), P(1, "(?s).")]}},
            {"id": "F1", "rules": {"Root": [P(0, "(?i)as"), P(1, "(?i)k"), P(2, "(?s).")]}},
            {"id": "F2", "rules": {"Root": [P(0, "(?i)sa+"), P(1, "[^a]")]}},
            {"id": "F3", "rules": {"Root": [P(0, "(?i)\u2177"), P(1, "(?i)a\u2177"), P(2, "(?s).")]}},
            {"id": "F4", "rules": {"Root": [P(0, "(?i:as)k|AS"), P(1, "(?s).")]}},
            {"id": "F5", "rules": {"Root": [P(0, "AS|(?i:as)k"), P(1, "a"), P(2, "(?s).")]}}], list("awjfgWvVA")


def unicode_family():
    """large Unicode classes (\\p{Greek}, \\p{Cyrillic}; tens of ranges) met by runes above their highest range, classes without single-byte
    members met by lone invalid / truncated bytes; alphabet: a A alpha Omega emoji e-acute 0xFF 0xC3"""
    P = lambda i, pat: named("T%d" % i, pat)
    return [{"id": "U0", "rules": {"Root": [P(0, "\\p{Greek}+"), P(1, "(?s).")]}},
            {"id": "U1", "rules": {"Root": [P(0, "[\\p{Greek}A-Z]+"), P(1, "\\p{Cyrillic}"), P(2, "(?s).")]}},
            {"id": "U2", "rules": {"Root": [P(0, "[^\\x00-\\x7F]+"), P(1, "a")]}},
            {"id": "U3", "rules": {"Root": [P(0, "[\\x{80}-\\x{10FFFF}]"), P(1, "\\P{Greek}"), P(2, "(?s).")]}},
            {"id": "U4", "rules": {"Root": [P(0, "[\\p{Greek}\\p{Cyrillic}]+a?"), P(1, "[^a]")]}},
            {"id": "U5", "rules": {"Root": [P(0, "[^\u00e9a]+"), P(1, "(?s).")]}},
            {"id": "U6", "rules": {"Root": [P(0, "a[^\u03b1\u00e9]*"), P(1, "\\P{Greek}+"), P(2, "(?s).")]}},
            # a class of Latin-1 letters (code points 0xC0-0xFF, two bytes each) met by longer runes whose LEAD BYTE has such a value
            {"id": "U7", "rules": {"Root": [P(0, "[\u00c0-\u00ff]+"), P(1, "a"), P(2, "(?s).")]}},
            {"id": "U8", "rules": {"Root": [P(0, "[\u00e9\u00ce\u00f0]a?"), P(1, "[^a]")]}}], list("aAGOJexT")


def alpha(names):
    return [{"name": n, "bytes": SYMS[n][0], "code": SYMS[n][1]} for n in names]


# pattern pool: (pattern, nullable, class)  class: plain | nongreedy | anchor
POOL = [
    ("a", 0), ("ab", 0), ("abc", 0), ("a+", 0), ("[ab]+", 0), ("b", 0), ("[a-c]", 0), (".", 0), ("a|ab", 0), ("ab|a", 0),
    ("(a|b)c", 0), ("a*b", 0), ("^a", 0), ("\\ba", 0), ("a\\b", 0), ("a\\B", 0), ("\\(", 0), ("\\)", 0), ("[^a]", 0),
    ("\\s+", 0), ("é", 0), ("(?i)ab", 0), ("a?b", 0), ("(ab)+", 0), ("x*", 1), ("\\n", 0), ("a$", 0), ("(?s).", 0),
    ("[^\\n]+", 0), ("a{2,3}", 0), ("(?:a|b)+c?", 0), ("[[:alpha:]]+", 0), ("\\w+", 0), ("b*?c", 0), ("(?m)^b", 0),
    ("(?i)[a-b]c", 0), ("\\Ba", 0), ("a*", 1), ("(?:a|b)*", 1), ("b?", 1), ("[a-c]+?", 0), ("(?i)é", 0), ("\\s", 0),
    ("(a+)(b*)", 0), ("[^ab]+", 0), ("c|\\(", 0), ("(?m)a$", 0), ("\\A[ab]", 0), ("[\\x{80}-\\x{10FFFF}]+", 0),
]
NONGREEDY = {"b*?c", "[a-c]+?"}


def rule(pat, elided=False, act="", state=""):
    i = [p for p, _ in POOL].index(pat) if pat in [p for p, _ in POOL] else None
    name = ("t%s" if elided else "T%s") % (i if i is not None else "x%d" % (abs(hash(pat)) % 997))
    return {"name": name, "pattern": pat, "act": act, "state": state}


def named(name, pat, act="", state=""):
    return {"name": name, "pattern": pat, "act": act, "state": state}


def inc(state):
    return {"name": "", "pattern": "", "act": "include", "state": state}


RET = {"name": "returnToParent", "pattern": "", "act": "return", "state": ""}


def curated():
    """hand-picked maps, one mechanism each (ids K*)"""
    K = []
    add = lambda rules: K.append({"id": "K%d" % len(K), "rules": rules})
    # first match, not longest
    add({"Root": [rule("a"), rule("ab"), rule("[^a]")]})
    add({"Root": [rule("a|ab"), rule("b"), rule("\\s+", True)]})
    add({"Root": [rule("ab|a"), rule("[a-c]"), rule("\\s+", True), rule("\\n")]})
    # anchors / word boundaries see only the remaining input
    add({"Root": [rule("^a"), rule("\\ba"), rule("a"), rule("[^a]")]})
    add({"Root": [rule("a\\b"), rule("a\\B"), rule("\\Ba"), rule("."), rule("\\n")]})
    add({"Root": [rule("(?m)^b"), rule("a$"), rule("(?m)a$"), rule("\\A[ab]"), rule("(?s).")]})
    # push / pop / nested
    add({"Root": [rule("\\(", act="push", state="S1"), rule("a"), rule("\\s+", True)],
         "S1": [rule("\\)", act="pop"), rule("\\(", act="push", state="S1"), rule("b"), rule("\\s+", True)]})
    # pop reachable in Root (underflow)
    add({"Root": [rule("\\)", act="pop"), rule("a"), rule("\\(", act="push", state="S1")], "S1": [rule("b"), rule("\\)", act="pop")]})
    add({"Root": [rule("a"), rule("\\s+", True, act="pop")]})
    # Return: hands the same offset back; Return at Root
    add({"Root": [rule("a", act="push", state="S1"), rule("[a-c]"), rule("\\s+", True)], "S1": [rule("b"), RET]})
    add({"Root": [rule("a"), RET]})
    add({"Root": [rule("\\(", act="push", state="S1"), rule("c")], "S1": [rule("a", act="push", state="S2"), RET], "S2": [rule("b"), RET]})
    # includes first / middle / last / nested
    add({"Root": [inc("S1"), rule("a"), rule("ab")], "S1": [rule("ab"), rule("b")]})
    add({"Root": [rule("a\\b"), inc("S1"), rule("[a-c]")], "S1": [rule("ab"), rule("b")]})
    add({"Root": [rule("a|ab"), rule("\\s+", True), inc("S1")], "S1": [rule("b"), inc("S2")], "S2": [rule("[a-c]"), rule("(?s).")]})
    add({"Root": [inc("S1"), inc("S2")], "S1": [rule("ab"), rule("\\s+", True)], "S2": [rule("a"), rule("b")]})
    # back-references: groups of the entering rule, quoting of metacharacters, missing groups, \0, even backslashes
    add({"Root": [named("Open", "(a+)b", "push", "S1"), rule("[a-c]"), rule("\\s+", True)], "S1": [named("End", "\\1", "pop"), rule("[a-c]"), rule("\\s+", True)]})
    add({"Root": [named("Open", "([(.]+)a", "push", "S1"), rule("[^a]")], "S1": [named("End", "\\1", "pop"), rule("(?s).")]})
    add({"Root": [named("Open", "(a)|b", "push", "S1"), rule("c")], "S1": [named("End", "c\\1", "pop"), rule("[a-c]")]})
    add({"Root": [named("Open", "a(b)?", "push", "S1"), rule("c")], "S1": [named("Two", "\\2"), named("End", "\\1", "pop"), rule("[a-c]")]})
    add({"Root": [named("Open", "(a|b)(c?)", "push", "S1"), named("Other", "\\(", "push", "S1")], "S1": [named("Both", "\\1\\2\\("), named("Whole", "\\0", "pop"), rule("(?s).")]})
    add({"Root": [named("Ref", "\\1"), rule("a")]})
    add({"Root": [named("Bs", "\\\\1"), rule("a"), named("K", "\\\\")]})
    add({"Root": [named("Open", "(a+)", "push", "S1"), rule("b")], "S1": [named("Open2", "(b+)", "push", "S1"), named("End", "\\1c", "pop"), rule("\\s+", True)]})
    # a back-referencing state re-entered with different groups while still on the stack (inner pop must restore the outer groups)
    add({"Root": [named("Open", "([ab])", "push", "S1"), rule("c")], "S1": [named("End", "\\1", "pop"), named("Open", "([ab])", "push", "S1"), rule("c")]})
    # an ELIDED (lower-case) rule carrying Push / Pop around a back-reference state
    add({"Root": [named("open", "(a+)b", "push", "S1"), rule("[a-c]"), rule("\\s+", True)], "S1": [named("End", "\\1", "pop"), named("skip", "c", "push", "S2"), rule("[ab]")], "S2": [named("back", "b", "pop"), rule("a")]})
    # elided rules, shared names across states, multi-byte, invalid bytes, newlines inside tokens
    add({"Root": [rule("a"), rule("[^a]", True)]})
    add({"Root": [rule("a", act="push", state="S1"), rule("b")], "S1": [rule("b"), rule("a", act="pop")]})
    add({"Root": [rule("é"), rule("(?i)é"), rule("[\\x{80}-\\x{10FFFF}]+"), rule("(?s).")]})
    add({"Root": [rule("[^ab]+"), rule("a+"), rule("b")]})
    add({"Root": [rule("[^\\n]+"), rule("\\n")]})
    # rules that can match empty (error) with and without actions
    add({"Root": [rule("a"), rule("x*")]})
    add({"Root": [rule("a*", act="push", state="S1"), rule("b")], "S1": [rule("b?", act="pop"), rule("c")]})
    add({"Root": [rule("(?:a|b)*"), rule("c")]})
    # deep push chain
    add({"Root": [rule("a", act="push", state="Root"), rule("b", act="pop"), rule("c")]})
    # a pushed state that gets its back-reference rule only through Include; a state that is both pushed and included
    add({"Root": [named("Open", "(a+)b", "push", "S1"), rule("[a-c]"), rule("\\s+", True)], "S1": [inc("S2"), rule("[a-c]")], "S2": [named("End", "\\1", "pop"), rule("\\s+", True)]})
    add({"Root": [inc("S1"), rule("a")], "S1": [rule("\\(", act="push", state="S1"), rule("\\)", act="pop"), rule("b")]})
    # rule names that start with neither an upper- nor a lower-case letter (not elided); a state that is just one Include of a
    # state which itself includes another one in the middle
    add({"Root": [named("_Under", "a"), named("9Nine", "b"), named("lower", "c"), rule("\\s+", True)]})
    add({"Root": [inc("S1")], "S1": [rule("a"), inc("S2"), rule("b")], "S2": [rule("c"), rule("\\(")]})
    add({"Root": [named("_U", "a+"), named("0Zero", "b"), named("Zed", "c"), named("Upper", "(?s).")]})      # no rule is elided: no byte may be dropped
    # an ELIDED rule that can match the empty string, followed by a rule that would match: the empty match is still an error
    add({"Root": [rule("a"), rule("\\s*", True), rule("b")]})
    add({"Root": [rule("a", act="push", state="S1"), rule("c")], "S1": [rule("[ \\t]*", True), rule("b", act="pop")]})
    # a back-reference state that pushes a child state with fewer rules, which evaluates a back-reference of its own and leaves
    # through Return(): the parent's back-reference rule (at a higher index) is tried next
    add({"Root": [named("Open", "(a+)b", "push", "S1"), rule("c")], "S1": [rule("c"), rule("\\s+", True), named("End", "\\1", "pop"), named("Open2", "(b)", "push", "S2")], "S2": [named("Ref", "\\1"), RET]})
    # a pattern that starts with ^ and has a top-level alternation: every alternative is anchored at the current position
    add({"Root": [rule("^a|b"), rule("c"), rule("\\s+", True)]})
    add({"Root": [rule("\\Aa|c"), rule("(?m)^b|a"), rule("(?s).")]})
    # a whole-input literal: ^lit$ / \Alit\z match only when nothing follows
    add({"Root": [rule("^a$"), rule("\\Aab\\z"), rule("^b\\z"), rule("(?s).")]})
    # a state without any rule (legal: Push only needs the state to exist): entering it with input left is an error, not a panic
    add({"Root": [rule("a"), rule("b", act="push", state="S1")], "S1": []})
    # a state whose name is the empty string, entered by Push and used by Include
    add({"Root": [rule("a", act="push", state=""), inc(""), rule("[ab]")], "": [rule("b", act="pop"), rule("ab")]})
    # a named rule with an empty pattern and no action: reaching it is an error ("did not match any input"), it is not a Return
    add({"Root": [rule("a", act="push", state="S1"), rule("b")], "S1": [rule("b"), named("Oops", "")]})
    # a rule named like the end-of-input symbol is an ordinary rule with a type of its own
    add({"Root": [named("EOF", "b"), rule("a", act="push", state="S1"), rule("(?s).")], "S1": [named("EOF", "b", "pop"), rule("a")]})
    # two entries into a back-reference state whose sub-groups are equal (both non-participating) while the whole matches differ:
    # \0 has to be the entering match of THIS entry (a regexp cached for the other one must not be used)
    add({"Root": [named("Open", "[ab](c)?", "push", "S1"), rule("c")], "S1": [named("Whole", "\\0", "pop"), rule("(?s).")]})
    add({"Root": [named("Open", "(c)?[ab]+", "push", "S1"), rule("c")], "S1": [named("Whole", "\\0c", "pop"), named("Sub", "\\1"), rule("(?s).")]})
    return K


def curated_gen():
    """operator boundary cases for the generated lexer (supported class only; ids G*)"""
    G = []
    add = lambda rules: G.append({"id": "G%d" % len(G), "rules": rules})
    P = lambda i, pat, **kw: named("T%d" % i, pat, kw.get("act", ""), kw.get("state", ""))
    add({"Root": [P(0, "."), P(1, "\\n")]})                                   # dot at end of input
    add({"Root": [P(0, "(?s).")]})
    add({"Root": [P(0, "a."), P(1, "(?s)."), ]})
    add({"Root": [P(0, "é"), P(1, "(?s).")]})                                 # multi-byte literal
    add({"Root": [P(0, "éa"), P(1, "aé"), P(2, "(?s).")]})
    add({"Root": [P(0, "(?i)ab"), P(1, "(?s).")]})                             # fold-case literals
    add({"Root": [P(0, "(?i)é"), P(1, "(?i)aé"), P(2, "(?s).")]})
    add({"Root": [P(0, "[é-ë]+"), P(1, "[^a]"), P(2, "a")]})                 # multi-byte classes
    add({"Root": [P(0, "a"), named("ws", "\\s+"), P(2, "[^a\\s]")]})          # elided rules
    add({"Root": [named("comment", "cb*"), P(1, "[a-c]"), named("nl", "\\n")]})
    add({"Root": [P(0, "^a"), P(1, "a"), P(2, "(?s).")]})                       # anchors see only the remaining input
    add({"Root": [P(0, "\\Aa"), P(1, "(?m)^b"), P(2, "(?s).")]})
    add({"Root": [P(0, "\\ba"), P(1, "a\\b"), P(2, "(?s).")]})                 # word boundaries
    add({"Root": [P(0, "a\\B"), P(1, "\\Ba"), P(2, "(?s).")]})
    add({"Root": [P(0, "a$"), P(1, "(?m)a$"), P(2, "(?s).")]})
    add({"Root": [P(0, "a|ab"), P(1, "(?s).")]})                                # Simplify factors the common prefix (EmptyMatch)
    add({"Root": [P(0, "ab|a"), P(1, "(?s).")]})
    add({"Root": [P(0, "abc|abd|a"), P(1, "(?s).")]})
    add({"Root": [P(0, "a{2,3}"), P(1, "a"), P(2, "(?s).")]})                   # counted repetition
    add({"Root": [P(0, "(a|b)+c?"), P(1, "(?s).")]})
    add({"Root": [P(0, "(a)(b)?"), P(1, "(?s).")]})                             # captures
    add({"Root": [P(0, "a*b"), P(1, "a+"), P(2, "(?s).")]})                     # possessive vs backtracking
    add({"Root": [P(0, "[ab]*b"), P(1, "(?s).")]})
    add({"Root": [P(0, "\\(", act="push", state="S1"), P(1, "a"), named("ws", "\\s+")],
         "S1": [P(2, "\\)", act="pop"), P(0, "\\(", act="push", state="S1"), P(3, "b"), named("ws", "\\s+")]})
    add({"Root": [P(0, "a", act="push", state="S1"), P(1, "[a-c]")], "S1": [P(2, "b"), RET]})
    add({"Root": [inc("S1"), P(0, "a"), P(1, "ab")], "S1": [P(1, "ab"), P(2, "b")]})
    add({"Root": [P(0, "\\)", act="pop"), P(1, "a")]})                          # pop in Root
    add({"Root": [P(0, "a"), RET]})                                             # return in Root
    add({"Root": [P(0, "[^\\n]+"), P(1, "\\n")]})
    add({"Root": [P(0, "\\w+"), P(1, "\\s"), P(2, "[[:punct:]]")]})
    # dot-all in the middle / at the end of a pattern at the end of the input
    add({"Root": [P(0, "a(?s:.)"), P(1, "b(?s:.)c"), P(2, "(?s).")]})
    add({"Root": [P(0, "(?s)a.b?"), P(1, "[^a]")]})
    # rule names whose first character is not ASCII (elision is decided from the name's first BYTE by the runtime lexer)
    add({"Root": [named("\u00e9sp", "a"), named("\u00c9up", "b"), named("\u6570", "c"), P(3, "(?s).")]})
    # a + whose body can succeed with zero width ($ inside the repetition); a literal alternation that is not at the start of
    # the pattern, reached at the end of the input
    add({"Root": [P(0, "a+(?:\\s|$)+"), P(1, "(?s).")]})
    add({"Root": [P(0, "a+(?:bc|cb|\\()?"), P(1, "(?s).")]})
    add({"Root": [P(0, "c(?:ab|ba)"), P(1, "(?s).")]})
    # two pushing rules into different states (two live lexers of one definition must not share their state stacks)
    add({"Root": [P(0, "a", act="push", state="S1"), P(1, "b", act="push", state="S2"), P(2, "c")],
         "S1": [P(3, "c"), P(0, "a", act="push", state="S1"), P(4, "e", act="pop")],
         "S2": [P(5, "\\("), P(1, "b", act="push", state="S2"), P(4, "e", act="pop")]})
    add({"Root": [named("tok", "a+"), named("Tok", "[ab]"), P(2, "(?s).")]})        # names differing only in the case of the first letter
    add({"Root": [P(0, "a(?:b?){9}"), P(1, "(?s).")]})                           # a counted repetition (> 8) of an expression that can match nothing, at the end of the input
    add({"Root": [P(0, "b(?:[ab]?){12}"), P(1, "a"), P(2, "(?s).")]})
    # rules AFTER a Return (reached through Include of a state that ends in Return): Return always matches, they never run
    add({"Root": [P(0, "a", act="push", state="S1"), P(1, "[bc]")], "S1": [inc("S2"), P(3, "c"), P(4, "a")], "S2": [P(2, "b"), RET]})
    return G


def nullable_gen():
    """definitions OUTSIDE the generator's supported class (a rule can match the empty string): the generated code is not
    required to agree with the runtime lexer on them, but it must still terminate, make progress and not panic (ids N*)"""
    P = lambda i, pat, **kw: named("T%d" % i, pat, kw.get("act", ""), kw.get("state", ""))
    return [{"id": "N0", "rules": {"Root": [P(0, "a+"), named("ws", "\\s+"), P(2, "b*")]}},
            {"id": "N1", "rules": {"Root": [P(0, "a+"), named("ws", "\\s*"), P(2, "c")]}},
            {"id": "N2", "rules": {"Root": [P(0, "a", act="push", state="S1"), P(1, "b?")], "S1": [P(2, "c*", act="pop"), P(3, "b")]}}]


def random_map(rng, gid, supported_only=False):
    nstates = rng.choice([1, 2, 2, 3])
    states = ["Root", "S1", "S2"][:nstates]
    rules = {}
    pool = [p for p in POOL if not (supported_only and (p[1] or p[0] in NONGREEDY))]
    for si, st in enumerate(states):
        rs = []
        for _ in range(rng.choice([1, 2, 3, 3, 4])):
            r = rng.random()
            if r < 0.15 and si + 1 < nstates:
                rs.append(inc(rng.choice(states[si + 1:])))
                continue
            pat = rng.choice(pool)[0]
            el = rng.random() < 0.2
            a = rng.random()
            if a < 0.25 and nstates > 1:
                rs.append(rule(pat, el, "push", rng.choice(states)))
            elif a < 0.4:
                rs.append(rule(pat, el, "pop"))
            else:
                rs.append(rule(pat, el))
        if rng.random() < (0.35 if si > 0 else 0.05):
            rs.append(dict(RET))
        if not supported_only and si > 0 and rng.random() < 0.25:
            rs.insert(rng.randrange(len(rs) + 1), named("Ref%d" % si, rng.choice(["\\1", "\\1b", "c\\1", "\\2", "\\0"]), rng.choice(["", "pop"])))
        rules[st] = rs
    if not supported_only and nstates > 1 and rng.random() < 0.3:
        rules["Root"].insert(0, named("Grp", rng.choice(["(a+)b", "(a)|b", "(\\()", "(a|b)(c?)"]), "push", rng.choice(states[1:])))
    return {"id": gid, "rules": rules}


def family(seed, nrandom, supported_only=False):
    rng = random.Random(seed)
    cases = curated_gen() if supported_only else curated()
    cases += [random_map(rng, "R%d" % i, supported_only) for i in range(nrandom)]
    return cases


def pattern_cases(cases):
    """one single-rule case per distinct back-reference-free pattern (for the Regex.tla self-check)"""
    seen, out = set(), []
    for c in cases:
        for rs in c["rules"].values():
            for r in rs:
                p = r["pattern"]
                if r["act"] in ("include", "return") or p in seen:
                    continue
                import re
                if any(len(m.group(1)) % 2 == 1 for m in re.finditer(r"(\\+)(\d)", p)):
                    continue
                seen.add(p)
                out.append({"id": "P%d" % len(out), "rules": {"Root": [named("T", p)]}})
    return out


def write(path, names, cases):
    json.dump({"alpha": alpha(names), "cases": cases}, open(path, "w"))
