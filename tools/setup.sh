#!/bin/sh
# Offline setup: verify the tools the checks need and warm the Go build cache for the harness.
set -e
cd "$(dirname "$0")/.."
export GOFLAGS=-mod=mod GOPROXY=off GOSUMDB=off GOTOOLCHAIN=local
command -v tlc >/dev/null || { echo "tlc not on PATH"; exit 1; }
command -v go >/dev/null || { echo "go not on PATH"; exit 1; }
mkdir -p evidence replays
tmp=$(mktemp -d)
trap 'rm -rf "$tmp"' EXIT
cp -r harness "$tmp/h"
cp /repo/go.sum "$tmp/h/go.sum"
(cd "$tmp/h" && go build -tags verif -o "$tmp/vh" ./cmd/vh)
echo "setup ok"
