"""Common plumbing for the /verif checks: work directories, harness build, TLC runs,
evidence, known findings, verdict lines.  Exit codes: 0 held, 1 violation, 2 infrastructure."""
import contextlib, hashlib, json, os, re, shutil, subprocess, sys, tempfile, time

VERIF = os.path.dirname(os.path.dirname(os.path.abspath(__file__)))
REPO = os.environ.get("VERIF_REPO", "/repo")
SPEC = os.path.join(VERIF, "spec")
HARNESS = os.path.join(VERIF, "harness")
EVID = os.path.join(VERIF, "evidence")
REPLAYS = os.path.join(VERIF, "replays")
NCPU = os.cpu_count() or 4

GOENV = dict(os.environ, GOFLAGS="-mod=mod", GOPROXY="off", GOSUMDB="off", GOTOOLCHAIN="local")


class Infra(Exception):
    """infrastructure failure -> exit 2, never a violation"""


def seed():
    try:
        return int(os.environ.get("VERIF_SEED", "1"))
    except ValueError:
        return 1


def log(*a):
    print(*a, flush=True)


@contextlib.contextmanager
def workdir(prefix="verif-"):
    base = os.environ.get("VERIF_TMP") or tempfile.gettempdir()
    d = tempfile.mkdtemp(prefix=prefix, dir=base)
    try:
        yield d
    finally:
        if os.environ.get("VERIF_KEEP"):
            log("kept work dir", d)
        else:
            shutil.rmtree(d, ignore_errors=True)


def run(cmd, cwd=None, env=None, timeout=None, stdout=None, check=True, input=None):
    t0 = time.time()
    try:
        p = subprocess.run(cmd, cwd=cwd, env=env, timeout=timeout, stdout=stdout or subprocess.PIPE,
                           stderr=subprocess.STDOUT if stdout is None else subprocess.PIPE, input=input)
    except subprocess.TimeoutExpired:
        raise Infra("timeout after %ss: %s" % (timeout, " ".join(map(str, cmd))[:200]))
    if check and p.returncode != 0:
        out = (p.stdout or b"")[-3000:].decode("utf8", "replace") if stdout is None else (p.stderr or b"")[-3000:].decode("utf8", "replace")
        raise Infra("command failed (%d): %s\n%s" % (p.returncode, " ".join(map(str, cmd))[:300], out))
    return p, time.time() - t0


_built = {}


_cache_checked = [False]


def trim_build_cache(limit_mb=12000):
    """Every run compiles freshly generated Go sources (generated lexers, named grammar types, -race and -cover variants), all
    of which end up in Go's build cache: it grew to 120 GB over two days of runs.  Once per process: if the cache is larger than
    limit_mb, empty it (the next build is slower, nothing else changes)."""
    if _cache_checked[0]:
        return
    _cache_checked[0] = True
    try:
        d = subprocess.run(["go", "env", "GOCACHE"], env=GOENV, stdout=subprocess.PIPE, timeout=30).stdout.decode().strip()
        if not d or not os.path.isdir(d):
            return
        out = subprocess.run(["du", "-sm", d], stdout=subprocess.PIPE, stderr=subprocess.DEVNULL, timeout=120).stdout.decode().split()
        if out and int(out[0]) > limit_mb:
            log("note: Go build cache %s holds %s MB: emptying it" % (d, out[0]))
            subprocess.run(["go", "clean", "-cache"], env=GOENV, stdout=subprocess.DEVNULL, stderr=subprocess.DEVNULL, timeout=600)
    except Exception:
        pass


def build_harness(wd, race=False, tags="verif"):
    """build cmd/vh from /verif/harness against /repo's working tree (hooks on)"""
    trim_build_cache()
    key = (race, tags)
    if key in _built and os.path.exists(_built[key]):
        return _built[key]
    src = os.path.join(wd, "harness-src")
    if not os.path.exists(src):
        shutil.copytree(HARNESS, src, ignore=shutil.ignore_patterns("*.test"))
        shutil.copy(os.path.join(REPO, "go.sum"), os.path.join(src, "go.sum"))
        gm = open(os.path.join(src, "go.mod")).read().replace("=> /repo", "=> " + REPO)
        open(os.path.join(src, "go.mod"), "w").write(gm)
    out = os.path.join(wd, "vh-race" if race else "vh")
    cmd = ["go", "build", "-tags", tags, "-o", out]
    if race:
        cmd.append("-race")
    cmd.append("./cmd/vh")
    if os.environ.get("VERIF_COVER") and not race:
        # development aid (not used by any registered command): statement coverage of the library by the harness.  Packages of
        # a replaced module are not instrumented, so the harness is built INSIDE a scratch copy of the library's module.
        cr = os.path.join(wd, "covrepo")
        if not os.path.exists(cr):
            shutil.copytree(REPO, cr, ignore=shutil.ignore_patterns(".git", "_examples", "cmd"))
            hz = os.path.join(cr, "zzharness")
            shutil.copytree(HARNESS, hz, ignore=shutil.ignore_patterns("go.mod", "go.sum"))
            for root, _d, files in os.walk(hz):
                for fn in files:
                    if fn.endswith(".go"):
                        fp = os.path.join(root, fn)
                        txt = open(fp).read().replace('"verifharness/', '"github.com/alecthomas/participle/v2/zzharness/')
                        open(fp, "w").write(txt)
        cmd = ["go", "build", "-tags", tags, "-cover", "-coverpkg=./...", "-o", out, "./zzharness/cmd/vh"]
        src = cr
    p = subprocess.run(cmd, cwd=src, env=GOENV, stdout=subprocess.PIPE, stderr=subprocess.STDOUT)
    if p.returncode != 0:
        raise Infra("harness does not build against %s:\n%s" % (REPO, p.stdout.decode("utf8", "replace")[-4000:]))
    _built[key] = out
    return out


def vh(binary, args, cwd=None, timeout=1800, stdin=None, outfile=None, env=None):
    """run the harness; returns stdout text (or writes to outfile)"""
    e = dict(GOENV)
    if env:
        e.update(env)
    if outfile:
        with open(outfile, "wb") as f:
            p = subprocess.run([binary] + list(args), cwd=cwd, env=e, stdout=f, stderr=subprocess.PIPE, timeout=timeout, input=stdin)
        if p.returncode != 0:
            raise Infra("harness %s failed (%d): %s" % (args[:2], p.returncode, p.stderr.decode("utf8", "replace")[-3000:]))
        return None
    p = subprocess.run([binary] + list(args), cwd=cwd, env=e, stdout=subprocess.PIPE, stderr=subprocess.PIPE, timeout=timeout, input=stdin)
    if p.returncode != 0:
        raise Infra("harness %s failed (%d): %s" % (args[:2], p.returncode, p.stderr.decode("utf8", "replace")[-3000:]))
    return p.stdout.decode("utf8", "replace")


class TLCResult:
    def __init__(self):
        self.states = 0          # distinct states
        self.generated = 0       # states generated (transitions explored + initial)
        self.ok = False
        self.violation = None    # text of a TLC-reported invariant/property violation
        self.error = None
        self.lines = []          # PrintT payload lines (strings, unescaped)
        self.wall = 0.0
        self.coverage = {}
        self.out = ""


_PRINT = re.compile(r'^"((?:[A-Z]+)\|.*)"$')


def unescape(s):
    # TLC prints strings with \" \\ \n \t escapes
    out = []
    i = 0
    while i < len(s):
        c = s[i]
        if c == "\\" and i + 1 < len(s):
            n = s[i + 1]
            out.append({"n": "\n", "t": "\t", "r": "\r", "f": "\f"}.get(n, n))
            i += 2
        else:
            out.append(c)
            i += 1
    return "".join(out)


def run_tlc(wd, module, cfg=None, modules=(), consts=None, workers=None, timeout=900, simulate=None, depth=None,
            dfs=False, coverage=False, extra_files=(), keep_out=None, xss="512m", heap=None):
    """copy spec modules into wd/<run>/ and run TLC there.  modules: extra .tla files (names without extension)
    needed by `module`; cfg: path or text of the cfg (text if it contains a newline)."""
    rd = tempfile.mkdtemp(prefix="tlc-", dir=wd)
    names = set([module]) | set(modules)
    for n in names:
        shutil.copy(os.path.join(SPEC, n + ".tla"), rd)
    for f in extra_files:
        if os.path.abspath(os.path.dirname(f)) != rd:
            shutil.copy(f, rd)
    cfgtext = cfg if (cfg and "\n" in cfg) else open(os.path.join(SPEC, cfg or (module + ".cfg"))).read()
    if consts:
        for k, v in consts.items():
            cfgtext, n = re.subn(r"(?m)^(\s*%s\s*=\s*).*$" % re.escape(k), lambda m: m.group(1) + str(v), cfgtext)
            if n == 0:
                raise Infra("constant %s not in cfg of %s" % (k, module))
    open(os.path.join(rd, module + ".cfg"), "w").write(cfgtext)
    md = os.path.join(rd, "meta")
    cmd = ["tlc", "-metadir", md, "-workers", str(workers or NCPU), "-config", module + ".cfg"]
    if simulate:
        cmd += ["-simulate", simulate]
    if depth:
        cmd += ["-depth", str(depth)]
    if coverage:
        cmd += ["-coverage", "1"]
    if os.environ.get("VERIF_SEED") and simulate:
        cmd += ["-seed", str(seed())]
    cmd.append(module + ".tla")
    env = dict(os.environ)
    jopts = "-Xss" + xss + " -Djava.io.tmpdir=" + rd   # (TLC leaves a tlc-<n> directory in the temp dir: keep it inside the run directory)
    if heap:
        jopts += " -Xmx" + heap
    if dfs:
        jopts += " -Dtlc2.tool.queue.IStateQueue=StateDeque"
    env["JAVA_TOOL_OPTIONS"] = jopts
    res = TLCResult()
    outp = os.path.join(rd, "tlc.out")
    t0 = time.time()
    with open(outp, "wb") as f:
        try:
            p = subprocess.run(["timeout", str(timeout)] + cmd, cwd=rd, env=env, stdout=f, stderr=subprocess.STDOUT)
        finally:
            pass
    res.wall = time.time() - t0
    txt = open(outp, "r", errors="replace").read()
    res.out = txt
    if keep_out:
        shutil.copy(outp, keep_out)
    if p.returncode == 124:
        raise Infra("TLC timeout (%ss) on %s" % (timeout, module))
    for line in txt.splitlines():
        m = _PRINT.match(line)
        if m:
            res.lines.append(unescape(m.group(1)))
    m = re.search(r"(\d+) states generated, (\d+) distinct states found", txt)
    if m:
        res.generated, res.states = int(m.group(1)), int(m.group(2))
    if "Model checking completed. No error has been found." in txt or (simulate and p.returncode == 0):
        res.ok = True
    else:
        m = re.search(r"Error: (Invariant \S+ is violated|Action property \S+ is violated|Temporal properties were violated|Postcondition[^\n]*|Deadlock reached)[^\n]*", txt)
        if m:
            res.violation = m.group(0)
        else:
            em = re.search(r"(?s)Error: .{0,1500}", txt)
            res.error = em.group(0) if em else ("TLC exit %d; tail: %s" % (p.returncode, txt[-1500:]))
    if coverage:
        for m in re.finditer(r"<(\w+) line \d+, col \d+ to line \d+, col \d+ of module (\w+)>: (\d+):(\d+)", txt):
            res.coverage[m.group(2) + "." + m.group(1)] = res.coverage.get(m.group(2) + "." + m.group(1), 0) + int(m.group(4))
    shutil.rmtree(md, ignore_errors=True)
    return res


def need_ok(res, what):
    """a TLC run that is only supposed to evaluate/enumerate: any error is infrastructure"""
    if not res.ok:
        raise Infra("%s: TLC did not complete: %s" % (what, res.violation or res.error))
    return res


# ---------------------------------------------------------------------------------------------
def load_known():
    p = os.path.join(VERIF, "known_findings.json")
    if not os.path.exists(p):
        return {"findings": [], "fixed": []}
    return json.load(open(p))


def known_for(pid):
    return [f for f in load_known().get("findings", []) if f["property"] == pid]


class Verdict:
    """collects violations / known findings for one property run and writes evidence"""

    def __init__(self, pid, tier, level="model_checking"):
        self.pid, self.tier, self.level = pid, tier, level
        self.t0 = time.time()
        self.violations = []      # (summary, replay dict)
        self.known = {}           # finding id -> (finding, count, first example)
        self.cov = {"states": 0, "transitions": 0, "traces_validated_against_impl": 0, "samples": [], "exhaustive": False}
        self.assumptions = []
        self.notes = {}

    def add_tlc(self, res):
        self.cov["states"] += res.states
        self.cov["transitions"] += res.generated

    def validated(self, n):
        self.cov["traces_validated_against_impl"] += n

    def sample(self, s):
        if len(self.cov["samples"]) < 6:
            self.cov["samples"].append(s)

    def violation(self, summary, replay):
        self.violations.append((summary, replay))

    def known_hit(self, finding, example):
        k = finding["id"]
        if k in self.known:
            self.known[k][1] += 1
        else:
            self.known[k] = [finding, 1, example]

    def finish(self):
        os.makedirs(EVID, exist_ok=True)
        for k, (f, n, ex) in sorted(self.known.items()):
            log("KNOWN-FINDING: property=%s %s: %s (%d cases, e.g. %s)" % (self.pid, f["id"], f["what"], n, ex))
        paths = []
        if self.violations:
            os.makedirs(REPLAYS, exist_ok=True)
            for summary, replay in self.violations[:int(os.environ.get("VERIF_MAXSHOW", "5"))]:
                blob = json.dumps(replay, sort_keys=True, indent=1)
                h = hashlib.sha1(blob.encode()).hexdigest()[:10]
                path = os.path.join(REPLAYS, "%s-%s.json" % (self.pid, h))
                open(path, "w").write(blob)
                paths.append(path)
                log("  violation: %s" % summary)
                log("VIOLATION property=%s replay=%s" % (self.pid, path))
        ev = {
            "property_id": self.pid, "tier": self.tier, "seed": seed(), "level": self.level,
            "coverage": dict(self.cov, **self.notes),
            "assumptions": self.assumptions, "wall_s": round(time.time() - self.t0, 2),
            "violations": len(self.violations),
            "known_findings_seen": {k: v[1] for k, v in self.known.items()},
        }
        if self.level == "model_checking":
            ev["coverage"]["states"] = max(1, ev["coverage"]["states"])
            ev["coverage"]["transitions"] = max(1, ev["coverage"]["transitions"])
            if not ev["coverage"]["samples"]:
                ev["coverage"]["samples"] = ["(none recorded)"]
        open(os.path.join(EVID, self.pid + ".json"), "w").write(json.dumps(ev, indent=1, default=str))
        log("%s %s: states=%d transitions=%d validated=%d violations=%d wall=%.1fs" % (
            self.pid, self.tier, self.cov["states"], self.cov["transitions"], self.cov["traces_validated_against_impl"],
            len(self.violations), time.time() - self.t0))
        return 1 if self.violations else 0


def parse_lines(lines, prefix):
    """lines 'PREFIX|a|b|...': yield the field lists"""
    p = prefix + "|"
    for l in lines:
        if l.startswith(p):
            yield l[len(p):].split("|")
