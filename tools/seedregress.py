#!/usr/bin/env python3
"""Re-run every seeded change against the checks recorded as detecting it (regression of the checks themselves).
usage: seedregress.py [name prefix ...]   prints one line per seed; exit 1 if a recorded detection is lost."""
import json, os, subprocess, sys, glob

# SEED_REPO: the tree the patches are applied to (default /repo; a scratch worktree lets other work go on meanwhile);
# the checks are those of the directory this script lives in (a snapshot copy of /verif works as well)
REPO = os.environ.get("SEED_REPO", "/repo")
VERIF = os.path.dirname(os.path.dirname(os.path.abspath(__file__)))
ENV = dict(os.environ, GOFLAGS="-mod=mod", GOPROXY="off", GOSUMDB="off", GOTOOLCHAIN="local", VERIF_REPO=REPO)


def sh(cmd, cwd=None):
    p = subprocess.run(cmd, shell=True, cwd=cwd, env=ENV, stdout=subprocess.PIPE, stderr=subprocess.STDOUT)
    return p.returncode, p.stdout.decode("utf8", "replace")


def main():
    pre = sys.argv[1:]
    lost = 0
    for d in sorted(glob.glob(VERIF + "/seeded/*/")):
        name = os.path.basename(d.rstrip("/"))
        if pre and not any(name.startswith(x) for x in pre):
            continue
        meta = json.load(open(d + "meta.json"))
        det = meta.get("detected_by") or []
        if not det or meta.get("obsolete") or meta.get("needs_rebase"):
            continue  # (obsolete: a later repair of the library made the seeded behaviour unreachable; needs_rebase: the patch overlaps a later repair)
        pid = name.split("-")[0]
        check = pid if pid in det else det[0]
        rc, out = sh("git -C %s status --porcelain" % REPO)
        assert out.strip() == "", REPO + " not clean"
        rc, out = sh("git -C %s apply %spatch.diff" % (REPO, d))
        if rc != 0:
            print(name, "PATCH DOES NOT APPLY", flush=True)
            lost += 1
            continue
        try:
            rc, out = sh("./check %s --tier quick" % check, cwd=VERIF)
        finally:
            sh("git -C %s checkout -- ." % REPO)
            sh("git -C %s clean -fdq" % REPO)
        ok = rc == 1
        if not ok:
            lost += 1
        print(name, check, "detected" if ok else "LOST (exit %d)" % rc, flush=True)
    print("lost:", lost)
    return 1 if lost else 0


if __name__ == "__main__":
    sys.exit(main())
