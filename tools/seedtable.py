#!/usr/bin/env python3
"""Writes /verif/SEEDED.md: which checks catch which seeded changes (from seeded/*/meta.json)."""
import glob, json, os
rows = []
for d in sorted(glob.glob("/verif/seeded/*/")):
    m = json.load(open(os.path.join(d, "meta.json")))
    name = os.path.basename(d.rstrip("/"))
    conf = m.get("confirmation", {})
    runs = m.get("checks_run", {})
    det = ", ".join("%s" % p for p, c in sorted(runs.items()) if c["exit"] == 1) or "-"
    miss = ", ".join("%s" % p for p, c in sorted(runs.items()) if c["exit"] == 0)
    rows.append("| %s | %s | %s | %s | %s | %s |" % (name, m.get("property", ""), (m.get("summary", "") or "").replace("|", "/").replace("\n", " ")[:230], (m.get("needs", "") or "").replace("|", "/").replace("\n", " ")[:200],
                                                 "yes" if conf.get("confirmed") else ("fix-revert" if m.get("fix_revert") else "no"), det + ((" (not: " + miss + ")") if miss else "") + (" - OBSOLETE on the current tree: " + m["obsolete"][:160] if m.get("obsolete") else "") + (" - NOT RE-BASED: " + m["needs_rebase"][:120] if m.get("needs_rebase") else "") + (" - NOT A VIOLATION: " + m["not_a_violation"][:160] if m.get("not_a_violation") else "")))
open("/verif/SEEDED.md", "w").write("# Seeded changes and the checks that catch them\n\nEach row is a change to alecthomas/participle that compiles and passes the repository's tests (confirmed in a scratch worktree: demo passes without, fails with; suite passes with). `detected by` lists the quick-tier checks that exit 1 with the change applied to /repo.\n\n| seed | property | change | needs | confirmed | detected by |\n|---|---|---|---|---|---|\n" + "\n".join(rows) + "\n")
print(len(rows), "seeds")
