"""C12 - PeekingLexer cursors.  spec/PeekingLexer.tla checked exhaustively by TLC (MC_PeekingLexer); every explored
transition replayed into a real lexer.PeekingLexer (B1); random operation traces of the real object validated by
Trace_PeekingLexer (B2); binding self-test (a corrupted event must be rejected)."""
import json, os, random, shutil, subprocess
import vlib
from vlib import Infra, Verdict, log


def validate_trace(wd, tracefile, timeout=900):
    res = vlib.run_tlc(wd, "Trace_PeekingLexer", modules=["PeekingLexer"], workers=1, dfs=True, timeout=timeout,
                       extra_files=[tracefile], consts={"TraceFile": '"%s"' % os.path.basename(tracefile)})
    rej = None
    for f in vlib.parse_lines(res.lines, "REJECTED"):
        rej = int(f[0])
    return res, rej


def replay_edges(vhbin, wd, edges, types="negative"):
    ef = os.path.join(wd, "edges.txt")
    open(ef, "w").write("\n".join(edges) + "\n")
    out = vlib.vh(vhbin, ["peek-replay", ef, types])
    mism, done = [], None
    for line in out.splitlines():
        p = line.split("\t")
        if p[0] == "MISMATCH":
            mism.append((p[1], p[2]))
        elif p[0] == "DONE":
            done = (int(p[1]), int(p[2]))
    if done is None or done[0] != len(edges):
        raise Infra("peek-replay did not process all edges")
    return mism, done


def run(pid, tier, args):
    v = Verdict(pid, tier)
    with vlib.workdir() as wd:
        vhbin = vlib.build_harness(wd)
        if args.replay:
            return do_replay(vhbin, wd, args.replay, v)
        maxlen = 3 if tier == "quick" else 5
        res = vlib.run_tlc(wd, "MC_PeekingLexer", modules=["PeekingLexer"], consts={"MaxLen": maxlen}, timeout=3000)
        if not res.ok:
            raise Infra("MC_PeekingLexer: the specification itself fails: %s" % (res.violation or res.error))
        v.add_tlc(res)
        edges = ["|".join(f) for f in vlib.parse_lines(res.lines, "EDGE")]
        if len(edges) < 1000:
            raise Infra("too few edges printed by TLC (%d)" % len(edges))
        ops = {}
        for e in edges:
            ops[e.split("|")[3]] = ops.get(e.split("|")[3], 0) + 1
        for op in ("Next", "Peek", "RawPeek", "PeekAny", "FastForward", "Range", "MakeCheckpoint", "LoadCheckpoint"):
            if not ops.get(op):
                raise Infra("vacuity: action %s never taken in the model" % op)
        mism, done = replay_edges(vhbin, wd, edges)
        v.validated(done[0])
        # the same transitions with rune-style (positive) token types, as text/scanner based and custom lexers use
        mism2, done2 = replay_edges(vhbin, wd, edges, "positive")
        v.validated(done2[0])
        mism = mism + [(l_, "[positive token types] " + m_) for l_, m_ in mism2]
        # ... and with token type 0 elided, a type below -64, and EOF named in the elision set
        mism3, done3 = replay_edges(vhbin, wd, edges, "odd")
        v.validated(done3[0])
        mism = mism + [(l_, "[elided type 0, type -100, EOF in the elision set] " + m_) for l_, m_ in mism3]
        v.sample({"edge": edges[len(edges) // 2], "format": "toks|raw,peek,cur|saved slots|op|arg|result|raw',peek',cur'|saved'"})
        for line, msg in mism[:3]:
            v.violation("transition %s: %s" % (line, msg), {"property": pid, "kind": "edge", "edge": line, "detail": msg})
        # B2: random traces of the real object
        ntr, mlen, steps = (200, 30, 60) if tier == "quick" else (3000, 40, 200)
        chunk = 70 if tier == "quick" else 200
        ntotal = 0
        for c in range(0, ntr, chunk):
            tf = os.path.join(wd, "trace.ndjson")
            vlib.vh(vhbin, ["peek-record", str(vlib.seed() * 999 + c // chunk), str(min(chunk, ntr - c)), str(mlen), str(steps)], outfile=tf)
            lines = open(tf).read().splitlines()
            res, rej = validate_trace(wd, tf)
            v.add_tlc(res)
            if rej is not None or not res.ok:
                if rej is None:
                    if res.violation is None:
                        raise Infra("trace validation failed to run: %s" % res.error)
                    rej = res.states  # invariant violated at the last matched state
                start = max(i for i in range(min(rej, len(lines))) if json.loads(lines[i])["ev"] == "reset")
                v.violation("trace rejected at event %d: %s (%s)" % (rej, lines[rej - 1] if rej <= len(lines) else "?", res.violation or "no specification step matches"),
                            {"property": pid, "kind": "trace", "trace": [json.loads(x) for x in lines[start:rej]]})
                break
            ntotal += sum(1 for x in lines if '"reset"' in x)
            if c == 0:
                v.sample({"trace_prefix": [json.loads(x) for x in lines[:4]]})
        v.validated(ntotal)
        # binding self-test: one corrupted observation must be rejected
        if not v.violations:
            lines = open(os.path.join(wd, "trace.ndjson")).read().splitlines()
            k = len(lines) // 2
            e = json.loads(lines[k])
            e["cur"] += 1
            lines[k] = json.dumps(e)
            cf = os.path.join(wd, "corrupt.ndjson")
            open(cf, "w").write("\n".join(lines) + "\n")
            res, rej = validate_trace(wd, cf)
            if rej is None and res.ok:
                raise Infra("binding self-test failed: corrupted trace accepted")
            v.notes["binding_selftest"] = "event %d corrupted (cursor+1): rejected at line %s" % (k + 1, rej)
        # Apalache: the cursor invariant is INDUCTIVE for every stream of <= n tokens with symbolic contents (any state satisfying
        # the invariant, not only reachable ones) - a bound beyond TLC's enumeration; the loops are described by postconditions
        n_ind = 10 if tier == "quick" else 14
        ad = os.path.join(wd, "apalache")
        os.makedirs(ad)
        shutil.copy(os.path.join(vlib.SPEC, "PeekingLexerInd.tla"), ad)
        open(os.path.join(ad, "PeekingLexerInd.cfg"), "w").write(open(os.path.join(vlib.SPEC, "PeekingLexerInd.cfg")).read().replace("MaxLen = 10", "MaxLen = %d" % n_ind))
        try:
            pr = subprocess.run(["timeout", "900", "apalache-mc", "check", "--config=PeekingLexerInd.cfg", "--init=IndInit", "--inv=IndInv", "--length=1", "PeekingLexerInd.tla"],
                                cwd=ad, stdout=subprocess.PIPE, stderr=subprocess.STDOUT)
            out = pr.stdout.decode("utf8", "replace")
        except FileNotFoundError:
            out = "apalache-mc not installed"
        if "The outcome is: NoError" in out:
            v.notes["apalache_inductive_invariant"] = "IndInit => IndInv and IndInv /\\ Next => IndInv' hold for all streams of <= %d tokens (symbolic contents), PeekingLexerInd.tla" % n_ind
        elif "The outcome is: Error" in out:
            raise Infra("Apalache: the inductive invariant of PeekingLexerInd.tla fails (specification defect): %s" % out[-600:])
        else:
            v.notes["apalache_inductive_invariant"] = "not run to completion (%s)" % out.strip().splitlines()[-1][:120] if out.strip() else "not run"
        v.cov["exhaustive"] = True
        v.notes["family"] = "all streams of <= %d tokens over {ordinary, elided, elided+selected} + EOF; 2 checkpoint slots; every operation with every argument in every reachable state; %d random traces" % (maxlen, ntr)
        v.notes["ops_replayed"] = ops
        v.assumptions += ["token identity observed through Value/Pos of distinct tokens", "match predicates range over 4 subsets of token kinds"]
    return v.finish()


def do_replay(vhbin, wd, path, v):
    r = json.load(open(path))
    if r["kind"] == "edge":
        mism, _ = replay_edges(vhbin, wd, [r["edge"]])
        for line, msg in mism:
            v.violation("transition %s: %s" % (line, msg), r)
    else:
        tf = os.path.join(wd, "trace.ndjson")
        open(tf, "w").write("\n".join(json.dumps(e) for e in r["trace"]) + "\n")
        log("note: recorded trace re-validated against the specification (the events were recorded from the real code)")
        res, rej = validate_trace(wd, tf)
        if rej is not None or not res.ok:
            v.violation("trace rejected at event %s" % rej, r)
    return v.finish()
