"""C05 - generated lexer = runtime lexer.  MC_GenLexer (StatefulLexer with the possessive matcher in lock step with the
backtracking one; invariant LockStep; tolerated runs identified) is model-checked by TLC over the supported-class family x
all inputs; the real `participle gen lexer` output for every definition is compiled, and for every non-tolerated run the real
generated lexer must equal the real runtime lexer (B1).  The generated lexers' token events are also validated against
LexStream (C04) and run with extra calls (C07 clauses)."""
import json, os, re, shutil, subprocess
import vlib, gen_lex
from vlib import Infra, Verdict, log
from props import lexpos


def build_generator(wd):
    out = os.path.join(wd, "participle")
    p = subprocess.run(["go", "build", "-o", out, "."], cwd=os.path.join(vlib.REPO, "cmd/participle"), env=vlib.GOENV,
                       stdout=subprocess.PIPE, stderr=subprocess.STDOUT)
    if p.returncode != 0:
        raise Infra("cmd/participle does not build:\n" + p.stdout.decode("utf8", "replace")[-3000:])
    return out


def build_with_generated(wd, v, pid, byid):
    """compile the harness together with the generated lexers; a generated file that does not compile is a violation"""
    src = os.path.join(wd, "harness-src")
    out = os.path.join(wd, "vh-gen")
    for attempt in range(6):
        p = subprocess.run(["go", "build", "-tags", "verif genlex", "-o", out, "./cmd/vh"], cwd=src, env=vlib.GOENV,
                           stdout=subprocess.PIPE, stderr=subprocess.STDOUT)
        if p.returncode == 0:
            return out
        txt = p.stdout.decode("utf8", "replace")
        bad = sorted(set(re.findall(r"genlex/g_(\w+)\.go:\d+", txt)))
        if not bad:
            raise Infra("harness with generated lexers does not build:\n" + txt[-3000:])
        reg = os.path.join(src, "genlex", "registry.go")
        lines = open(reg).read().splitlines()
        for name in bad:
            cid = next((l.split('"')[1] for l in lines if "= %sLexer" % name in l), name)
            first = next((l for l in txt.splitlines() if "g_%s.go" % name in l), "")
            v.violation("generated code for definition %s does not compile: %s" % (cid, first), {"property": pid, "kind": "compile", "case": byid.get(cid), "error": first})
            os.remove(os.path.join(src, "genlex", "g_%s.go" % name))
            lines = [l for l in lines if "= %sLexer" % name not in l]
        open(reg, "w").write("\n".join(lines) + "\n")
    raise Infra("generated lexers keep failing to compile")


def compare_run(wd, rd, rawpath, alpha, maxin, vhgen, v, pid, byid, replay, seen, exp_all):
    """MC_GenLexer on one (definitions, alphabet) family + comparison of the real generated and runtime lexers"""
    res = vlib.run_tlc(wd, "MC_GenLexer", modules=["StatefulLexer", "Regex", "Position"], extra_files=[os.path.join(rd, "cases.json")],
                       consts={"MaxIn": maxin}, timeout=3000)
    if not res.ok:
        raise Infra("MC_GenLexer: %s" % (res.violation or res.error))
    v.add_tlc(res)
    exp = ["|".join(f) for f in vlib.parse_lines(res.lines, "EXPECT")]
    if replay:
        exp = [e for e in exp if e.split("|")[1] == replay["input"]]
    exp_all += exp
    ef = os.path.join(rd, "expect.txt")
    open(ef, "w").write("\n".join(exp) + "\n")
    out = vlib.vh(vhgen, ["gen-compare", rawpath, ef, "2"])
    stats = None
    for line in out.splitlines():
        p = line.split("\t")
        if p[0] == "GENDIFF":
            k = p[1]
            seen[k] = seen.get(k, 0) + 1
            if seen[k] == 1:
                v.violation("definition %s on input %r: generated %s, runtime %s" % (p[1], p[2], p[5], p[4]),
                            {"property": pid, "kind": "gencompare", "alpha": alpha, "case": byid[p[1]], "input": p[2], "runtime": p[4], "generated": p[5]})
        elif p[0] == "INTERLEAVE":
            if ("il", p[1]) not in seen:
                seen[("il", p[1])] = 1
                v.violation("definition %s: %s" % (p[1], p[3][:300]), {"property": pid, "kind": "interleave", "alpha": alpha, "case": byid[p[1]], "detail": p[3]})
        elif p[0] == "GENSYM":
            v.violation("symbol table of generated lexer %s differs: %s" % (p[1], " ".join(p[2:])), {"property": pid, "kind": "gensym", "case": byid[p[1]], "detail": line})
        elif p[0] == "GENBAD":
            v.violation("definition %s on tolerated input %r: generated lexer %s" % (p[1], p[2], p[5]), {"property": pid, "kind": "gencompare", "alpha": alpha, "case": byid[p[1]], "input": p[2], "runtime": p[4], "generated": p[5]})
        elif p[0] == "SPECDIFF":
            log("note: runtime lexer differs from the specification on %s %r (C03's business): %s vs %s" % (p[1], p[2], p[5], p[4]))
        elif p[0] == "NOGEN" and not any(byid.get(p[1]) is vv[1].get("case") for vv in v.violations):
            raise Infra("no generated lexer for %s: %s" % (p[1], p[2]))
        elif p[0] == "DONE":
            stats = [int(x) for x in p[1:]]
    if stats is None:
        raise Infra("gen-compare did not finish")
    return stats


def run(pid, tier, args):
    v = Verdict(pid, tier)
    with vlib.workdir() as wd:
        vhbin = vlib.build_harness(wd)
        replay = json.load(open(args.replay)) if args.replay else None
        alpha = list("abclsne") if tier == "quick" else list("abclrsnexA")
        maxin = 4
        cases = [replay["case"]] if replay else gen_lex.family(vlib.seed(), 25 if tier == "quick" else 300, supported_only=True)
        if replay:
            alpha = replay["alpha"]
        byid = {c["id"]: c for c in cases}
        runs = [(cases, alpha, maxin)]
        if not replay:
            fcases, falpha = gen_lex.fold_family()
            runs.append((fcases, falpha, 3))
            for c in fcases:
                byid[c["id"]] = c
            ucases, ualpha = gen_lex.unicode_family()
            runs.append((ucases, ualpha, 3))
            for c in ucases:
                byid[c["id"]] = c
        rawpath = os.path.join(wd, "raw.json")
        gen_lex.write(rawpath, alpha, cases)
        out = vlib.vh(vhbin, ["lex-prep", rawpath, os.path.join(wd, "cases.json")])
        accepted = [l.split("\t")[1] for l in out.splitlines() if l.startswith("NEW") and l.endswith("\tok")]
        if not accepted:
            raise Infra("no rule map accepted")
        gen = build_generator(wd)
        allraw = os.path.join(wd, "allraw.json")
        gen_lex.write(allraw, alpha, [c for (cs_, _, _) in runs for c in cs_])
        out = vlib.vh(vhbin, ["gen-lexers", allraw, gen, os.path.join(wd, "harness-src", "genlex")])
        for l in out.splitlines():
            p = l.split("\t")
            if p[0] == "GEN" and p[2].startswith("failed"):
                v.violation("generator fails on definition %s: %s" % (p[1], p[2]), {"property": pid, "kind": "generate", "case": byid[p[1]], "error": p[2]})
        vhgen = build_with_generated(wd, v, pid, byid)
        tot = [0, 0, 0]
        seen = {}
        exp_all = []
        for ri, (rcases, ralpha, rmaxin) in enumerate(runs):
            rd = os.path.join(wd, "run%d" % ri)
            os.makedirs(rd)
            rraw = os.path.join(rd, "raw.json")
            gen_lex.write(rraw, ralpha, rcases)
            vlib.vh(vhbin, ["lex-prep", rraw, os.path.join(rd, "cases.json")])
            stats = compare_run(wd, rd, rraw, ralpha, rmaxin, vhgen, v, pid, byid, replay, seen, exp_all)
            for k in range(3):
                tot[k] += stats[k]
        stats = tot + [len(seen)]
        exp = exp_all
        v.validated(stats[0])
        v.notes["runs"] = {"compared": stats[0], "tolerated": stats[1], "tolerated_really_differ": stats[2], "definitions_with_differences": len(seen)}
        if not replay and stats[1] == 0:
            raise Infra("vacuity: no tolerated run in the family")
        if not replay and "G9" in byid:
            # a long flat run of consecutive ignored tokens: the generated lexer must cope like the runtime lexer (bounded stack)
            pr = subprocess.run([vhgen, "gen-deep", rawpath, "G9", "cn", str(200000 if tier == "quick" else 2000000), str(4 << 20)], stdout=subprocess.PIPE, stderr=subprocess.PIPE, timeout=900)
            so = pr.stdout.decode("utf8", "replace").strip().splitlines()
            res_ = dict(l.split("\t") for l in so if "\t" in l)
            if pr.returncode != 0 or res_.get("generated") != res_.get("runtime") or "runtime" not in res_:
                v.violation("definition G9 on a run of %s ignored tokens under a 4 MiB stack: runtime %s, generated %s %s" % ("400000" if tier == "quick" else "4000000", res_.get("runtime"), res_.get("generated"), pr.stderr.decode("utf8", "replace")[:150].replace("\n", " ")),
                            {"property": pid, "kind": "gen-deep", "case": byid["G9"], "runtime": res_.get("runtime"), "generated": res_.get("generated")})
            v.validated(1)
        if not replay:
            # C04 clauses on the generated lexers
            tf = os.path.join(wd, "gen.ndjson")
            vlib.vh(vhgen, ["lexstream-record", rawpath, "3" if tier == "quick" else "4", "generated"], outfile=tf)
            n = lexpos.validate_file(wd, tf, v, pid, "generated lexer (C04 clauses)")
            v.validated(n)
            v.sample({"definition": byid[accepted[0]], "expected_run": exp[1] if len(exp) > 1 else exp[0]})
            tl = [e for e in exp if e.endswith("TOLERATED")]
            if tl:
                v.sample({"tolerated_run": tl[0]})
            v.cov["exhaustive"] = True
        v.notes["family"] = "%d definitions of the supported class (curated operator-boundary cases + seeded random, seed %d) x all inputs <= %d over %s" % (len(accepted), vlib.seed(), maxin, "".join(alpha))
        v.assumptions += ["'compiles' is decided by go build of the emitted source", "the runtime lexer itself is bound to the specification by C03", "tolerated = some rule of the current state matches differently under possessive and backtracking semantics at some step (computed by TLC from Regex.tla)"]
    return v.finish()
