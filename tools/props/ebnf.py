"""C14 - Parser.String() is valid, complete EBNF that survives a round trip.  Ebnf.tla defines the abstract EBNF of a
grammar (EbnfOf) and equality up to redundant parentheses (Norm); grammars are compiled as NAMED Go types (codegen), the real
String() output is parsed with the ebnf package and handed to TLC (MC_Ebnf), which decides every clause: parseable, root
first, every production defined exactly once, all references defined, structure = EbnfOf(g), print-parse-print stable.
MC_EbnfTrees enumerates every small syntax tree of the EBNF grammar with the text Ebnf!PrintExpr gives it; the harness builds
each from real ebnf values: String() must parse back to the same tree and print the same text again (B1)."""
import json, os, random, subprocess
import vlib, gen_grammar as GG, codegen
from vlib import Infra, Verdict, log
from props import parser as P

lit, ref = GG.lit, GG.ref


def curated(rng):
    cap = lambda f, fk, kid: {"op": "cap", "f": f, "fk": fk, "kid": kid}
    seq = lambda *k: {"op": "seq", "kids": list(k)}
    alt = lambda *k: {"op": "alt", "kids": list(k)}
    grp = lambda mode, kid: {"op": "grp", "mode": mode, "kid": kid}
    neg = lambda kid: {"op": "neg", "kid": kid}
    look = lambda n, kid: {"op": "look", "neg": n, "kid": kid}
    gs = []
    F = P.F
    # nested modifiers, modifiers on negations and lookaheads, groups inside captures
    gs.append(P.mk_grammar("e0", [("P0", seq(grp("opt", grp("plus", lit("a"))), cap("A", "strings", grp("once", grp("star", grp("nonempty", grp("once", alt(lit("b"), ref("Int"))))))), lit("!")), [F("A", "strings")])]))
    gs.append(P.mk_grammar("e1", [("P0", seq(grp("star", neg(lit("a"))), neg(grp("once", alt(lit("b"), lit("(")))), cap("A", "string", ref("Ident")), grp("opt", neg(grp("plus", lit("b"))))), [F("A", "string")])]))
    gs.append(P.mk_grammar("e2", [("P0", seq(look(False, seq(lit("a"), lit("b"))), look(True, alt(lit("a"), ref("Int"))), cap("A", "strings", grp("once", grp("plus", alt(ref("Ident"), ref("Int")))))), [F("A", "strings")])]))
    # literals needing escapes, typed literals
    gs.append(P.mk_grammar("e3", [("P0", seq(lit('"'), lit("\\"), cap("A", "string", grp("once", alt(lit("a", "Ident"), lit("\n"), lit("é"), lit("C:\\")))), lit("|"), lit("'"), grp("opt", grp("once", alt(lit("%"), lit("%d%s"), lit("100%!"), lit("%%"))))), [F("A", "string")])]))
    # recursion, unions, several references to the same production
    gs.append(P.mk_grammar("e4", [("P0", seq(cap("A", "node", {"op": "prod", "p": "P1"}), grp("star", seq(lit("("), cap("B", "nodes", {"op": "prod", "p": "P1"}), lit(")")))), [F("A", "node", "P1"), F("B", "nodes", "P1")]),
                                  ("P1", alt(seq(lit("("), cap("K", "union", {"op": "union", "u": "U0"}), lit(")")), cap("V", "string", ref("Ident"))), [F("K", "union", "U0"), F("V", "string")]),
                                  ("P2", seq(lit("b"), cap("W", "strings", ref("Int"))), [F("W", "strings")])], unions={"U0": ["P1", "P2"]}))
    gs.append(P.mk_grammar("e5", [("P0", grp("plus", seq(grp("opt", grp("opt", lit("a"))), grp("nonempty", grp("star", cap("A", "strings", ref("Ident")))), lit("!"))), [F("A", "strings")])]))
    # captures applied directly to [ ] / { } groups inside modified or negated parentheses; negation of repeated terms
    gs.append(P.mk_grammar("e6", [("P0", seq(grp("plus", cap("A", "strings", grp("opt", alt(lit("-"), lit("+"))))), lit("!"), grp("nonempty", cap("B", "strings", grp("star", lit("x")))), neg(grp("star", lit(";"))), neg(grp("opt", grp("once", alt(lit("a"), lit("b")))))), [F("A", "strings"), F("B", "strings")])]))
    # a suffix modifier directly after a bracket group: { x }!  [ x ]+  [ x ]*  (rendered with the bracket spellings)
    GG.BRACKETS[0] = True
    try:
        gs.append(P.mk_grammar("e10", [("P0", seq(grp("nonempty", grp("star", cap("A", "strings", ref("Ident")))), lit("!"), grp("plus", grp("opt", cap("B", "strings", ref("Int")))),
                                                  grp("star", grp("opt", seq(lit(","), cap("C", "strings", ref("Ident"))))), grp("opt", grp("star", lit(";")))), [F("A", "strings"), F("B", "strings"), F("C", "strings")])]))
    finally:
        GG.BRACKETS[0] = False
    # the empty literal, bare and typed; a production wider than any line width whose literals contain " | ", newlines and %
    gs.append(P.mk_grammar("e8", [("P0", seq(cap("A", "string", lit("", "Ident")), grp("opt", lit("")), cap("B", "strings", grp("once", grp("star", alt(lit("a"), lit(""))))), lit("!")), [F("A", "string"), F("B", "strings")])]))
    wide = [lit(" | "), lit("a | b"), lit("|"), lit(" |"), lit("x" * 30), lit("y" * 30), lit("z" * 30), lit("w" * 30), lit(" . "), lit("= "), lit("\n | \n")]
    gs.append(P.mk_grammar("e9", [("P0", seq(cap("A", "strings", grp("once", grp("plus", grp("once", alt(*wide))))), lit("!")), [F("A", "strings")])]))
    # many productions (more than any fixed initial capacity), the later ones first reached while the root is still being printed
    n = 20
    gs.append(P.mk_grammar("e7", [("P0", seq(*([cap("N%d" % i, "node", {"op": "prod", "p": "P%d" % i}) for i in range(1, n)] + [lit("!")])), [F("N%d" % i, "node", "P%d" % i) for i in range(1, n)])] +
                                 [("P%d" % i, seq(lit("("), cap("V", "string", ref("Ident")), grp("opt", lit(")"))) if i % 2 else seq(lit("a"), cap("V", "strings", ref("Int"))), [F("V", "string" if i % 2 else "strings")]) for i in range(1, n)]))
    return gs


def run(pid, tier, args):
    v = Verdict(pid, tier)
    quick = tier == "quick"
    with vlib.workdir() as wd:
        vhbin = vlib.build_harness(wd)
        rng = random.Random(vlib.seed() * 53 + 14)
        dyn = curated(rng)
        n = 40 if quick else 400
        for i in range(n):
            dyn.append(GG.make_grammar(rng, "g%d" % i, extra_kinds=[[], ["token", "tokens"], ["int8"]][i % 3]))
        gs = [codegen.rename(g, "G%s" % g["id"].upper()) for g in dyn]
        for g in gs:
            g.pop("inputs", None)
            g["structure"] = True
            g["userprods"] = []
        # hand-written Go types (anonymous / embedded structs): structure-independent clauses only
        for sid in ("static-embedded", "static-anon-two", "static-anon-rec", "static-alias", "static-unicode-names", "static-parseable-twice", "static-embedded-3", "static-forproduction", "static-two-custom", "static-anon-iface"):
            gs.append({"id": sid, "structure": False, "root": "", "prods": [], "unions": {}, "userprods": {"static-parseable-twice": ["EsAmount"], "static-two-custom": ["EsKey", "EsVal"], "static-anon-iface": ["EsAnonVal"]}.get(sid, [])})
        src = os.path.join(wd, "harness-src")
        codegen.emit([g for g in gs if g["structure"]], os.path.join(src, "gengram", "gen.go"))
        vhg = os.path.join(wd, "vh-gengram")
        p = subprocess.run(["go", "build", "-tags", "verif gengram", "-o", vhg, "./cmd/vh"], cwd=src, env=vlib.GOENV, stdout=subprocess.PIPE, stderr=subprocess.STDOUT)
        if p.returncode != 0:
            raise Infra("generated grammar types do not compile:\n" + p.stdout.decode("utf8", "replace")[-2000:])
        cp = os.path.join(wd, "gcases.json")
        json.dump(gs, open(cp, "w"))
        ep = os.path.join(wd, "ecases.json")
        vlib.vh(vhg, ["ebnf-run", cp, ep], timeout=1200)
        res = vlib.run_tlc(wd, "MC_Ebnf", modules=["Ebnf"], extra_files=[ep], timeout=3000)
        if not res.ok:
            raise Infra("MC_Ebnf: %s" % (res.violation or res.error))
        v.add_tlc(res)
        cases = {c["id"]: c for c in json.load(open(ep))}
        verdicts = {f[0]: "|".join(f[1:]) for f in vlib.parse_lines(res.lines, "EBNF")}
        counts = {}
        nbuild = 0
        for g in gs:
            vd = verdicts.get(g["id"])
            if vd is None:
                raise Infra("no verdict for %s" % g["id"])
            if vd.startswith("builderr") and not g["structure"]:
                # (the hand-written grammars are valid: a Build error - or a parse with the wrong outcome in their maker - is a failure)
                v.violation("grammar %s: %s" % (g["id"], vd[:300]), {"property": pid, "kind": "ebnf", "grammar": [], "unions": {}, "verdict": vd, "text": ""})
                continue
            if vd.startswith("builderr"):
                nbuild += 1
                log("note: %s does not build: %s" % (g["id"], vd[:150]))
                continue
            key = vd.split(":")[0]
            counts[key] = counts.get(key, 0) + 1
            if vd != "ok":
                if counts[key] <= 3:
                    v.violation("grammar %s: %s; String() = %r" % (g["id"], vd[:160], cases[g["id"]]["real"].get("text", "")[:300]),
                                {"property": pid, "kind": "ebnf", "grammar": [[p_["name"], [[f["name"], f["kind"], f["tag"]] for f in p_["fields"]]] for p_ in g["prods"]], "unions": g["unions"], "verdict": vd, "text": cases[g["id"]]["real"].get("text", "")})
                else:
                    v.violations.append(("(suppressed duplicate) %s %s" % (g["id"], key), {"property": pid, "kind": "ebnf", "id": g["id"], "verdict": vd}))
        # every small syntax tree of the EBNF grammar (not only printed grammars): printed by the specification's printer,
        # rebuilt as real ebnf values, printed, parsed and printed again by the package
        if not args.replay:
            tres = vlib.run_tlc(wd, "MC_EbnfTrees", modules=["Ebnf"], consts={"Deep": "FALSE" if quick else "TRUE"}, timeout=3000, workers=8)
            if not tres.ok:
                raise Infra("MC_EbnfTrees: %s" % (tres.violation or tres.error))
            v.add_tlc(tres)
            trees = [l[5:] for l in tres.lines if l.startswith("TREE|")]
            if len(trees) < 1000:
                raise Infra("too few EBNF trees printed (%d)" % len(trees))
            tf = os.path.join(wd, "trees.ndjson")
            open(tf, "w").write("\n".join(trees) + "\n")
            out = vlib.vh(vhbin, ["ebnf-trees", tf], timeout=1200)
            fin = None
            for line in out.splitlines():
                q = line.split("\t")
                if q[0] == "BAD":
                    c = json.loads(trees[int(q[2]) - 1])
                    v.violation("EBNF syntax tree printing as %r: %s" % (c["text"], q[1][:300]), {"property": pid, "kind": "ebnf-tree", "tree": c["tree"], "text": c["text"], "real": q[1]})
                elif q[0] == "DRIFT":
                    log("MODEL-DRIFT: ebnf String() differs from the specification's printer (the tree still survives the round trip): " + q[1][:300])
                    v.notes["model_drift_ebnf_printer"] = True
                elif q[0] == "DONE":
                    fin = q
            if fin is None:
                raise Infra("ebnf-trees did not finish")
            v.validated(int(fin[1]))
            v.notes["ebnf_trees"] = "%s syntax trees of the EBNF grammar (every term kind, ~, (?= ) (?! ), every modifier, two levels of groups, in sequences and alternatives): String() parses back to the same tree and prints the same text again; %s differ in text from the specification's printer" % (fin[1], fin[3])
        v.validated(len(gs) - nbuild)
        if nbuild > len(gs) // 3:
            raise Infra("too many generated grammars fail to build (%d)" % nbuild)
        if counts.get("ok", 0) < 10 and not v.violations:
            raise Infra("vacuity: %d grammars checked" % counts.get("ok", 0))
        ok = next((g for g in gs if verdicts[g["id"]] == "ok"), gs[0])
        v.sample({"grammar": [[p_["name"], [f["tag"] for f in p_["fields"]]] for p_ in ok["prods"]], "String()": cases[ok["id"]]["real"].get("text", "")[:400]})
        v.notes["verdicts"] = counts
        v.notes["family"] = "%d named-type grammars: 10 curated (nested modifiers, empty literals, very wide productions, 20 productions, modifiers on ~ and lookahead groups, groups in captures, literals needing escapes, typed literals, recursion, unions) + seeded F_core" % len(gs)
        v.assumptions += ["the ebnf package's own parser is trusted to read the text (the round-trip clause is checked on its output)", "embedded / anonymous struct types are exercised by C19's struct shapes (String() must not panic), not here"]
    return v.finish()
