"""C08 - left recursion rejected at build time.  Grammar.tla (Nullable, LeftCalls, LeftRecursive over productions reachable
from the root) is evaluated by TLC for every grammar of family F_lr; the real Build must return an error exactly for the
left-recursive ones (B1, dynamic struct types), and every grammar Build accepts is parsed on all short inputs in a
stack-limited child process (consequence clause: no unbounded recursion)."""
import itertools, json, os, random, subprocess
import vlib, gen_grammar as GG
from vlib import Infra, Verdict, log
from props import parser as P

lit, ref = GG.lit, GG.ref


def cap(f, fk, kid):
    return {"op": "cap", "f": f, "fk": fk, "kid": kid}


def seq(*k):
    return {"op": "seq", "kids": list(k)}


def alt(*k):
    return {"op": "alt", "kids": list(k)}


def grp(mode, kid):
    return {"op": "grp", "mode": mode, "kid": kid}


def look(neg, kid):
    return {"op": "look", "neg": neg, "kid": kid}


def GG_ref(t):
    return {"op": "ref", "t": t}


A, B, L = lit("a"), lit("b"), lit("(")
# templates: R is the capture of the referenced production / union; each entry (name, builder, reference is leftmost?)
TEMPLATES = [
    ("head", lambda R: seq(R, A)),
    ("after-token", lambda R: seq(A, R)),
    ("later-alt", lambda R: alt(A, seq(R, B))),
    ("later-alt-after-multi", lambda R: alt(seq(A, B), seq(R, L))),
    ("after-opt", lambda R: seq(grp("opt", A), R, B)),
    ("after-star", lambda R: seq(grp("star", A), R, B)),
    ("after-poslook", lambda R: seq(look(False, A), R)),
    ("after-neglook", lambda R: seq(look(True, B), R, A)),
    ("after-two-nullable", lambda R: seq(grp("opt", A), grp("star", B), R, L)),
    ("after-nullable-group", lambda R: seq(grp("once", alt(A, grp("opt", B))), R)),
    ("in-opt-group", lambda R: seq(grp("opt", seq(R, A)), B)),
    ("in-plus-group", lambda R: seq(grp("plus", seq(R, A)), B)),
    ("in-group-later-alt", lambda R: seq(grp("once", alt(seq(A, B), R)), L)),
    ("in-lookahead-group", lambda R: seq(look(False, seq(RNC(R), A)), A)),
    ("in-lookahead-group-captured", lambda R: seq(look(False, seq(R, A)), A)),
    ("in-negative-lookahead-group-captured", lambda R: seq(look(True, seq(R, A)), B)),
    ("after-plus", lambda R: seq(grp("plus", A), R)),
    ("after-nonempty-opt", lambda R: seq(grp("nonempty", grp("opt", A)), R)),
    ("after-neg", lambda R: seq({"op": "neg", "kid": A}, R)),
    ("after-empty-literal", lambda R: seq(lit(""), R)),
    ("after-nonempty-empty-literal", lambda R: seq(grp("nonempty", grp("opt", lit(""))), R)),
    ("after-typed-empty-literal", lambda R: seq(lit("", "Ident"), R)),
    # a capture whose operand is itself a nullable group written inside the capture: @[ "a" ]  @( "a"? "b"? )  @( "a"* )
    ("after-captured-bracket-opt", lambda R: seq(cap("C", "string", grp("opt", A)), R)),
    ("after-captured-nullable-group", lambda R: seq(cap("C", "string", grp("once", seq(grp("opt", A), grp("opt", B)))), R)),
    ("after-captured-star-group", lambda R: seq(cap("C", "strings", grp("once", grp("star", A))), R, B)),
    ("after-captured-token", lambda R: seq(cap("C", "string", grp("once", seq(grp("opt", A), B))), R)),
    # the reference inside the operand of a negation that is one element of a longer sequence
    ("in-negation-operand", lambda R: alt(seq({"op": "neg", "kid": grp("once", seq(RNC(R), A))}, B), A)),
    ("in-negation-operand-captured", lambda R: seq({"op": "neg", "kid": grp("once", seq(R, A))}, B, L)),
    ("after-negation-operand", lambda R: seq({"op": "neg", "kid": grp("once", seq(A, B))}, R)),
    # a nullable alternative (it can fail without consuming: it starts with a lookahead group) BEFORE the recursive alternative
    ("nullable-alt-before", lambda R: alt(seq(look(True, B), grp("opt", A)), seq(R, B))),
    ("nullable-alt-before-2", lambda R: alt(grp("star", A), seq(R, B))),
    # "!" needs a VALUE, not a token: a capture around an expression that matched nothing yields one ( (@["a"])! ), an optional
    # capture that did not match yields none ( (@"a"?)!  (@"a"? @"b"?)! )
    ("after-nonempty-captured-opt", lambda R: seq(grp("nonempty", grp("once", cap("C", "string", grp("opt", A)))), R)),
    ("after-nonempty-opt-captures", lambda R: seq(grp("nonempty", grp("once", seq(grp("opt", cap("C", "string", A)), grp("opt", cap("D", "string", B))))), R)),
    ("after-nonempty-captured-star", lambda R: seq(grp("nonempty", grp("once", cap("C", "strings", grp("once", grp("star", A))))), R, B)),
    ("after-nonempty-alt-capture", lambda R: seq(grp("nonempty", grp("once", alt(A, cap("C", "string", grp("opt", B))))), R)),
    # an explicit reference to the end-of-input token matches (and yields a value) without consuming anything
    ("after-eof-ref", lambda R: alt(seq(GG_ref("EOF"), R), A)),
    ("after-nonempty-eof-ref", lambda R: alt(seq(grp("nonempty", grp("once", GG_ref("EOF"))), R), A)),
    ("terminal", None),
]


def extra_fields(n, acc=None):
    """fields of the captures other than K (the reference) found in a body"""
    acc = [] if acc is None else acc
    if n["op"] == "cap" and n["f"] != "K" and n["f"] not in [f["name"] for f in acc]:
        acc.append(P.F(n["f"], n["fk"]))
    for k in n.get("kids", []) + ([n["kid"]] if isinstance(n.get("kid"), dict) else []):
        extra_fields(k, acc)
    return acc


def RNC(R):
    """the reference without its capture (captures are not allowed inside lookahead groups in every version)"""
    return R["kid"] if R["op"] == "cap" else R


def family(rng, quick):
    gs = []

    def mk(gid, specs, union=False):
        """specs: list of (template index, target) per production; target 'P<n>' (reached through the one-member union
        U<n>: dynamic struct types cannot refer to themselves directly) or 'U3' (the union of P1 and P2)"""
        prods = []
        unions = {"U%d" % i: ["P%d" % i] for i in range(len(specs))}
        if union:
            unions["U3"] = ["P1", "P2"]
        for pi, (ti, target) in enumerate(specs):
            name, fn = TEMPLATES[ti]
            if fn is None:
                body = seq(cap("T", "string", A), grp("opt", B))
                fields = [P.F("T", "string")]
            else:
                u = target if target.startswith("U") else "U" + target[1:]
                R = cap("K", "union", {"op": "union", "u": u})
                body = fn(R)
                fields = [P.F("K", "union", u)] + extra_fields(body)
            prods.append(("P%d" % pi, body, fields))
        try:
            g = P.mk_grammar(gid, prods, unions=unions, ks=(1,))
        except ValueError:
            return None
        g["shape"] = [(TEMPLATES[ti][0], t) for ti, t in specs]
        return g

    n = 0
    T = range(len(TEMPLATES))
    # one production referring to itself, every template
    for ti in T:
        g = mk("s%d" % ti, [(ti, "P0")])
        if g:
            gs.append(g)
    # a production that is left-recursive in itself (head), reached from the root ONLY through each placement in turn (the walk
    # over the grammar has to get there whatever the root wraps the reference in)
    head = [i for i in T if TEMPLATES[i][0] == "head"][0]
    for ti in T:
        if TEMPLATES[ti][1] is not None:
            g = mk("r%d" % ti, [(ti, "P1"), (head, "P1")])
            if g:
                gs.append(g)
    # two productions: every pair of templates with the cross references
    pairs = [(a, ta, b, tb) for a in T for b in T for ta in ("P0", "P1") for tb in ("P0", "P1")]
    rng.shuffle(pairs)
    for (a, ta, b, tb) in pairs[:(400 if quick else len(pairs))]:
        g = mk("d%d" % len(gs), [(a, ta), (b, tb)])
        if g:
            gs.append(g)
    # through a union of P1/P2
    trip = [(a, b, c, tb, tc) for a in T for b in T for c in T for tb in ("P0", "U3", "P2", "P1") for tc in ("P0", "P1", "U3", "P2")]
    rng.shuffle(trip)
    for (a, b, c, tb, tc) in trip[:(500 if quick else 6000)]:
        g = mk("u%d" % len(gs), [(a, "U3"), (b, tb), (c, tc)], union=True)
        if g:
            gs.append(g)
    # prefixes made of a NULLABLE production N (P2 = "a"*), mentioned once, twice in one element, in two elements, and the
    # look-alike where a consuming token follows
    tn = [("after-nullable-prod", lambda R, N: seq(N, R, A)),
          ("after-nullable-prod-twice-in-one-group", lambda R, N: seq(grp("once", seq(N, grp("opt", B), N)), R, A)),
          ("after-two-nullable-prods", lambda R, N: seq(N, N, R)),
          ("after-nullable-prod-in-opt", lambda R, N: seq(grp("opt", seq(N, N)), R, L)),
          ("after-nullable-prod-then-token", lambda R, N: seq(N, A, R)),
          ("nullable-prod-between-alternatives", lambda R, N: alt(seq(A, B), seq(N, N, R))),
          # a + group whose body is a nullable production (it matches nothing, yet yields a value)
          ("after-plus-of-nullable-prod", lambda R, N: seq(grp("plus", N), R, A)),
          ("after-plus-of-nullable-prod-then-token", lambda R, N: seq(grp("plus", N), A, R))]
    for ti, (tname, fn) in enumerate(tn):
        for target in ("P0", "P1"):
            for p1t in range(0, len(TEMPLATES) - 1, 3):
                unions = {"U0": ["P0"], "U1": ["P1"], "U2": ["P2"]}
                N = cap("N", "unions", {"op": "union", "u": "U2"})
                R = cap("K", "union", {"op": "union", "u": "U" + target[1:]})
                body0 = fn(R, N)
                R1 = cap("K", "union", {"op": "union", "u": "U0"})
                body1 = TEMPLATES[p1t][1](R1) if TEMPLATES[p1t][1] else seq(cap("T", "string", A), grp("opt", B))
                f1 = ([P.F("K", "union", "U0")] + extra_fields(body1)) if TEMPLATES[p1t][1] else [P.F("T", "string")]
                body2 = grp("star", cap("Z", "strings", A))
                try:
                    g = P.mk_grammar("n%d" % len(gs), [("P0", body0, [P.F("N", "unions", "U2"), P.F("K", "union", "U" + target[1:])]), ("P1", body1, f1), ("P2", body2, [P.F("Z", "strings")])], unions=unions, ks=(1,))
                except ValueError:
                    continue
                g["shape"] = [(tname, target), (TEMPLATES[p1t][0], "P0"), ("nullable", "")]
                gs.append(g)
    # nullability that closes only through a CYCLE of productions: Q = ("a" P)*, P = Q "b"?, S uses P (or Q) as a nullable prefix
    # before re-entering itself - for every order of S's alternatives and every production as the one met first
    import itertools as _it
    SR = lambda: cap("K", "union", {"op": "union", "u": "U0"})
    QR = lambda f="Q": cap(f, "union", {"op": "union", "u": "U1"})
    PRs = lambda: cap("Ps", "unions", {"op": "union", "u": "U2"})
    PR = lambda: cap("Pf", "union", {"op": "union", "u": "U2"})
    for prefix in ("P", "Q"):
        alts = [seq(L, QR(), lit(")")), seq(PR() if prefix == "P" else QR("Q2"), SR(), B), cap("T", "string", ref("Ident"))]
        for perm in _it.permutations(range(3)):
            body0 = alt(*[alts[i] for i in perm])
            f0 = [P.F("Q", "union", "U1"), P.F("K", "union", "U0"), P.F("T", "string")] + ([P.F("Pf", "union", "U2")] if prefix == "P" else [P.F("Q2", "union", "U1")])
            body1 = grp("star", seq(A, PRs()))
            body2 = seq(QR(), grp("opt", B))
            try:
                g = P.mk_grammar("c%d" % len(gs), [("P0", body0, f0), ("P1", body1, [P.F("Ps", "unions", "U2")]), ("P2", body2, [P.F("Q", "union", "U1")])],
                                 unions={"U0": ["P0"], "U1": ["P1"], "U2": ["P2"]}, ks=(1,))
            except ValueError:
                continue
            g["shape"] = [("cyclic-nullable-prefix-" + prefix, "".join(map(str, perm)))]
            gs.append(g)
    gs += static_grammars()
    return gs


def static_grammars():
    """descriptions, in the node algebra, of the hand-written Go grammars of harness/cmd/vh/leftrec_static.go (productions that
    refer to one another directly; local types of the same name)"""
    node = lambda f, p, many=False: cap(f, "nodes" if many else "node", {"op": "prod", "p": p})
    F = P.F
    out = []

    def add(gid, prods):
        g = P.mk_grammar(gid, prods, ks=(1,))
        g["static"] = True
        g["shape"] = [("static Go types", gid)]
        out.append(g)
    Q = ("P1", grp("star", seq(A, node("Ps", "P2", True))), [F("Ps", "nodes", "P2")])
    Pp = ("P2", seq(node("Q", "P1"), grp("opt", B)), [F("Q", "node", "P1")])
    f0 = [F("Q", "node", "P1"), F("Pf", "node", "P2"), F("S", "node", "P0"), F("T", "string")]
    a1, a2, a3 = seq(L, node("Q", "P1"), lit(")")), seq(node("Pf", "P2"), node("S", "P0"), B), cap("T", "string", ref("Ident"))
    add("st-cyclic-nullable-1", [("P0", alt(a1, a2, a3), f0), Q, Pp])
    add("st-cyclic-nullable-2", [("P0", alt(a2, a1, a3), f0), Q, Pp])
    add("st-cyclic-lookalike", [("P0", alt(a1, seq(node("Pf", "P2"), A, node("S", "P0"), B), a3), f0), Q, Pp])
    add("st-self-slice", [("P0", seq(grp("star", node("Kids", "P0", True)), cap("Name", "string", ref("Ident"))), [F("Kids", "nodes", "P0"), F("Name", "string")])])
    add("st-right", [("P0", seq(cap("Name", "string", ref("Ident")), grp("opt", seq(L, node("Next", "P0")))), [F("Name", "string"), F("Next", "node", "P0")])])
    item1 = ("P2", cap("Name", "string", ref("Ident")), [F("Name", "string")])
    lst = ("P1", seq(L, grp("star", node("Items", "P2", True)), lit(")")), [F("Items", "nodes", "P2")])
    item2 = ("P3", alt(seq(node("Left", "P3"), B, cap("Right", "string", ref("Ident"))), cap("Atom", "string", ref("Ident"))), [F("Left", "node", "P3"), F("Right", "string"), F("Atom", "string")])
    add("st-same-name", [("P0", alt(node("List", "P1"), node("Sum", "P3")), [F("List", "node", "P1"), F("Sum", "node", "P3")]), lst, item1, item2])
    add("st-same-name-ok", [("P0", node("List", "P1"), [F("List", "node", "P1")]), lst, item1])
    return out


def run(pid, tier, args):
    v = Verdict(pid, tier)
    quick = tier == "quick"
    with vlib.workdir() as wd:
        vhbin = vlib.build_harness(wd)
        rng = random.Random(vlib.seed() * 17 + 8)
        gs = [json.load(open(args.replay))["case"]] if args.replay else family(rng, quick)
        byid = {g["id"]: g for g in gs}
        cp = os.path.join(wd, "cases.json")
        json.dump(gs, open(cp, "w"))
        res = vlib.run_tlc(wd, "MC_LeftRec", modules=["Grammar"], extra_files=[cp], timeout=3000)
        if not res.ok:
            raise Infra("MC_LeftRec: %s" % (res.violation or res.error))
        v.add_tlc(res)
        spec = {f[0]: f[1] for f in vlib.parse_lines(res.lines, "LR")}
        # Build runs in a child process; a fatal crash (stack overflow) is attributed to the grammar being built
        real = {}
        start = 0
        for _attempt in range(12):
            pr = subprocess.run([vhbin, "build-run", cp, str(start)], stdout=subprocess.PIPE, stderr=subprocess.PIPE, env=dict(vlib.GOENV, VH_MAXSTACK=str(256 << 20)), timeout=3000)
            lines_ = pr.stdout.decode("utf8", "replace").splitlines()
            for line in lines_:
                p = line.split("\t", 1)
                if len(p) == 2:
                    real[p[0]] = p[1]
            if pr.returncode == 0:
                break
            done_n = start + len(lines_)
            if done_n >= len(gs):
                break
            real[gs[done_n]["id"]] = "panic fatal: process died (%s)" % pr.stderr.decode("utf8", "replace")[:120].replace("\n", " ")
            start = done_n + 1
        # (after 12 crashes the remaining grammars are left unjudged; the crashes found are reported)
        nlr = nno = 0
        accepted = []
        shown = {}
        for g in gs:
            s, r = spec.get(g["id"]), real.get(g["id"], "")
            if s is None:
                raise Infra("no specification verdict for %s" % g["id"])
            if s == "lr":
                nlr += 1
            else:
                nno += 1
            if r == "":
                continue
            bad = None
            if r.startswith(("panic", "hang")):
                bad = "Build %s" % r[:120]
            elif r.startswith("mixed"):
                bad = "the verdict of Build depends on whether the struct or the union is the root type: %s" % r[6:260]
            elif s == "lr" and not r.startswith("err"):
                bad = "left-recursive grammar accepted by Build"
            elif s == "nolr" and r.startswith("err"):
                bad = "grammar without left recursion rejected: %s" % r[:160]
            elif s == "lr" and "left recursion" not in r:
                log("note: %s rejected for another reason: %s" % (g["id"], r[:100]))
            if r == "ok" and not g.get("static"):
                accepted.append(g)
            if bad:
                key = (bad[:25], str(g.get("shape", ""))[:40])
                if shown.get(bad[:25], 0) < 4:
                    shown[bad[:25]] = shown.get(bad[:25], 0) + 1
                    v.violation("grammar %s %s: %s" % (g["id"], g.get("shape"), bad), {"property": pid, "kind": "leftrec", "case": g, "readable": [[p["name"], [f["tag"] for f in p["fields"]]] for p in g["prods"][1:]], "spec": s, "real": r})
                else:
                    v.violations.append(("(suppressed duplicate) " + bad, {"property": pid, "kind": "leftrec", "case": g}))
        v.validated(len(gs))
        if not args.replay and (nlr < 50 or nno < 50):
            raise Infra("vacuity: %d left-recursive / %d non-recursive grammars" % (nlr, nno))
        # consequence clause: grammars Build accepted never recurse without consuming input
        sample = accepted if len(accepted) <= (150 if quick else 1500) else rng.sample(accepted, 150 if quick else 1500)
        inputs = [" ".join(t) for n in range(0, 4) for t in itertools.product(["a", "b", "("], repeat=n)]
        for g in sample:
            g["inputs"] = [{"s": s_, "toks": GG.lex(s_)} for s_ in inputs]
            g["maxiter"] = 2000   # (a repetition whose body matches nothing spins up to the iteration limit: keep that short)
        pp = os.path.join(wd, "accepted.json")
        json.dump(sample, open(pp, "w"))
        env = dict(vlib.GOENV, VH_MAXSTACK=str(64 << 20))
        pr = subprocess.run([vhbin, "parse-run", pp], stdout=subprocess.PIPE, stderr=subprocess.PIPE, env=env, timeout=3000)
        outc = pr.stdout.decode("utf8", "replace")
        nparse = outc.count("\n")
        if pr.returncode != 0:
            last = outc.strip().splitlines()[-1] if outc.strip() else ""
            gid = last.split("\t")[0] if last else sample[0]["id"]
            # the crash happened in the grammar after the last completed line or in the same one
            v.violation("a grammar accepted by Build crashed the parser under a 64 MiB stack limit (last completed case: %s): %s" % (last[:80], pr.stderr.decode("utf8", "replace")[:150].replace("\n", " ")),
                        {"property": pid, "kind": "crash", "near": gid, "case": byid.get(gid)})
        hangs = [l for l in outc.splitlines() if l.endswith("\thang")]
        for l in hangs[:2]:
            v.violation("accepted grammar hangs: %s" % l, {"property": pid, "kind": "hang", "case": byid.get(l.split("\t")[0])})
        v.validated(nparse)
        lrs = [g for g in gs if spec[g["id"]] == "lr"]
        v.sample({"left_recursive": [[p["name"], [f["tag"] for f in p["fields"]]] for p in lrs[len(lrs) // 2]["prods"][1:]] if lrs else None,
                  "accepted": [[p["name"], [f["tag"] for f in p["fields"]]] for p in accepted[0]["prods"][1:]] if accepted else None})
        v.notes["grammars"] = {"left_recursive": nlr, "not_left_recursive": nno, "accepted_and_parsed": len(sample), "parses": nparse}
        v.notes["family"] = "F_lr: 1-3 mutually referring productions (+ a union), bodies from %d placement templates (head / later alternative / after optional, starred, lookahead, nullable-group prefixes / inside groups and lookahead groups / after consuming prefixes)" % (len(TEMPLATES) - 1)
        v.assumptions += ["dynamic anonymous struct types (production names are synthetic)", "LeftRecursive ranges over productions reachable from the root"]
    return v.finish()
