"""C01 C02 C10 C11 C13 - the parser's meaning.  spec/Meaning.tla (big-step meaning with the context protocol's
bookkeeping) is evaluated by TLC over a grammar family x inputs x lookaheads (MC_Meaning; each property's theorem is an
invariant there), and every evaluated case is replayed into the real parser built from dynamic struct types (B1).
The small-step ParserMachine refinement and hook-trace validation live in props/machine.py (run from here in thorough)."""
import json, os, random, itertools, re
import vlib, gen_grammar as GG
from vlib import Infra, Verdict, log


# ---------------------------------------------------------------------------------------------------------------
def family(pid, tier, seed):
    rng = random.Random(seed * 7919 + int(pid[1:]))
    quick = tier == "quick"
    gs = []
    if pid == "C01":
        n, exh, rnd = (24, 3, 60) if quick else (120, 3, 200)
        for i in range(n):
            kinds = [[], ["token", "tokens"], ["int8"], ["token", "tokens", "int8"], ["capt", "pstring", "capts"], ["capt", "tokens", "textu"], ["pstring", "textu", "int8", "pcapts"]][i % 7]
            g = GG.make_grammar(rng, "g%d" % i, extra_kinds=kinds, ks=(0, 1, 2, 3, 99999, -1, -3) if i % 3 == 0 else (0, 1, 2, -1), use_user=(i % 4 == 3))
            seen = set()
            GG.exhaustive_inputs(g, (exh if i % 2 == 0 else 2) if quick else (4 if i % 6 == 0 else 3), seen, extra_terms=("A",) if g["ci"] else ())
            GG.random_inputs(g, rng, rnd, 8, seen)
            gs.append(g)
        gs += curated_core(rng)
        # the schemas of the C02 family (abandoned attempts), here judged by exact equality incl. accept / reject, every third
        # with AllowTrailing
        lf = leak_family(rng, True)
        rng.shuffle(lf)
        # (every kind of choice point of the schema at least once, whatever the seed; the rest at random)
        firsts, rest, seen_cp = [], [], set()
        for g in lf:
            cp = (g.get("schema") or ["?"])[0]
            (rest if cp in seen_cp else firsts).append(g)
            seen_cp.add(cp)
        lf = firsts + rest
        for g in lf[: (max(40, len(firsts) + 10) if quick else 130)]:
            g["ks"] = [0, 1, -1]
            g["inputs"] = g["inputs"][:40]
            gs.append(g)
        # the repetition limit (participle.MaxIterations): a sub-family with the limit lowered to 3
        for i in range(4 if quick else 30):
            g = GG.make_grammar(rng, "m%d" % i, ks=(0, 1, -1))
            g["maxiter"] = 3
            seen = set()
            GG.exhaustive_inputs(g, 2, seen)
            GG.random_inputs(g, rng, 80, 10, seen)
            terms = GG.grammar_terms(g)
            for t in terms:
                for n_ in (3, 4, 5):
                    GG.add_input(g, " ".join([t] * n_), seen)
            gs.append(g)
    elif pid == "C02":
        gs = leak_family(rng, quick)
        # attempts abandoned because user code failed part-way
        gs += [g for g in curated_core(rng, with_tokens=False) if g["id"] in ("x9", "x10", "x2", "x11")]
    elif pid == "C10":
        n, bases, resp = (20, 40, 6) if quick else (100, 100, 10)
        for i in range(n):
            g = GG.make_grammar(rng, "g%d" % i, extra_kinds=["int8"] if i % 3 == 0 else [], name_elided=False, ks=(0, 1, 2, -1))
            seen = set()
            terms = GG.grammar_terms(g)
            pmap = {p["name"]: p["body"] for p in g["prods"][1:]}
            g["groups"] = []
            for b in range(bases):
                if rng.random() < 0.5:
                    ts = [rng.choice(terms) for _ in range(rng.randrange(0, 5))]
                else:
                    ts = GG.sample(pmap["P0"], pmap, g["unions"], rng, 3)[:8]
                    if ts and rng.random() < 0.4:
                        ts[rng.randrange(len(ts))] = rng.choice(terms)
                start = len(g["inputs"])
                GG.add_input(g, " ".join(ts), seen)
                GG.respacings(g, rng, ts, seen, resp)
                if len(g["inputs"]) - start > 1:
                    g["groups"].append(list(range(start, len(g["inputs"]))))
            gs.append(g)
        # grammars that NAME an elided type ("the first such token lying before the next ordinary token is matched"): no
        # re-spacing relation, the outcome is compared with the meaning; inputs put other elided tokens around the named one
        for i in range(n // 2):
            g = GG.make_grammar(rng, "n%d" % i, extra_kinds=["token", "tokens"] if i % 2 else [], name_elided=True, ks=(0, 1, -1))
            g["explicit"] = True
            seen = set()
            terms = GG.grammar_terms(g)
            pmap = {p["name"]: p["body"] for p in g["prods"][1:]}
            for b in range(bases):
                ts = GG.sample(pmap["P0"], pmap, g["unions"], rng, 3)[:8] if rng.random() < 0.6 else [rng.choice(terms) for _ in range(rng.randrange(0, 5))]
                GG.add_input(g, " ".join(ts), seen)
                GG.respacings(g, rng, ts, seen, resp)
            gs.append(g)
        for g in curated_core(rng, with_tokens=True):
            if g["id"] == "b0":
                continue   # (loops that spin to the iteration limit: exercised by C01 with its own inputs)
            if g["id"] in ("x0", "x1", "x8", "x11", "x12"):
                g["explicit"] = True   # they name an elided type: judged against the meaning, with the inputs they come with
                gs.append(g)
                continue
            g["inputs"], g["groups"] = [], []
            seen = set()
            terms = GG.grammar_terms(g) + [";", "y", "9"]
            pmap = {p["name"]: p["body"] for p in g["prods"][1:]}
            for b in range(bases):
                ts = [rng.choice(terms) for _ in range(rng.randrange(0, 4))]
                if b % 2:
                    ts = GG.sample(pmap["P0"], pmap, g["unions"], rng, 3)[:9]
                start = len(g["inputs"])
                GG.add_input(g, " ".join(ts), seen)
                GG.respacings(g, rng, ts, seen, resp)
                if len(g["inputs"]) - start > 1:
                    g["groups"].append(list(range(start, len(g["inputs"]))))
            gs.append(g)
    elif pid == "C11":
        n, exh, rnd = (20, 2, 80) if quick else (120, 3, 200)
        for i in range(n):
            g = GG.make_grammar(rng, "g%d" % i, extra_kinds=["token", "tokens"] if i % 2 else [], with_pos=True, name_elided=(i % 3 == 2), use_user=(i % 4 == 1))
            seen = set()
            GG.exhaustive_inputs(g, exh, seen)
            GG.random_inputs(g, rng, rnd, 8, seen)
            gs.append(g)
        gs += curated_c11(rng)
        gs += [g for g in curated_core(rng) if g["id"] in ("t3", "t4")]
    elif pid == "C13":
        n, exh, rnd = (24, 3, 60) if quick else (100, 3, 200)
        for i in range(n):
            g = GG.make_grammar(rng, "g%d" % i, extra_kinds=["int8"] if i % 3 == 0 else [], neglook=False, ks=(0, 1, 2, 3, 4, 99999, -1, -2) if i % 2 else (0, 1, 2, 3, 65536, 99999, 1 << 20, -1))
            seen = set()
            GG.exhaustive_inputs(g, exh, seen)
            GG.random_inputs(g, rng, rnd, 9, seen)
            gs.append(g)
        gs += [g for g in curated_core(rng, with_tokens=False) if g["id"] in ("u0", "u1", "x2", "x3", "x6", "x7", "x9", "x10", "x11")]
        # the same production tried at two raw positions that differ only by an explicitly consumed elided token (equal
        # non-elided cursors), first failing and then matching
        cap = lambda f, fk, kid: {"op": "cap", "f": f, "fk": fk, "kid": kid}
        seq = lambda *k: {"op": "seq", "kids": list(k)}
        node = lambda f: cap(f, "node", {"op": "prod", "p": "P1"})
        g = mk_grammar("m2", [("P0", {"op": "alt", "kids": [{"op": "grp", "mode": "plus", "kid": {"op": "grp", "mode": "once", "kid": {"op": "alt", "kids": [seq(GG.lit("a"), GG.lit("b"), cap("A", "strings", GG.lit("("))), seq(GG.lit("a"), GG.lit("b"), cap("A", "strings", GG.lit(")")))]}}},
                                                                 seq(GG.lit("a"), GG.lit("b"), cap("B", "strings", GG.lit(")")))]}, [F("A", "strings"), F("B", "strings")])],
                        ks=(0, 1, 2, 3, 4, -1))
        seen = set()
        for s_ in ("a b )", "a b (", "a b ) a b (", "a b ( a b )", "a b", "a b ) a b"):
            GG.add_input(g, s_, seen)
        gs.append(g)
        # an earlier alternative matches beyond the lookahead and then fails in the conversion of its capture
        pn = lambda f, p_: cap(f, "node", {"op": "prod", "p": p_})
        g = mk_grammar("m3", [("P0", {"op": "grp", "mode": "plus", "kid": {"op": "grp", "mode": "once", "kid": {"op": "alt", "kids": [pn("A", "P1"), pn("B", "P2")]}}}, [F("A", "node", "P1"), F("B", "node", "P2")]),
                              ("P1", seq(GG.lit("("), cap("N", "int8", GG.ref("Int"))), [F("N", "int8")]),
                              ("P2", seq(GG.lit("("), cap("W", "string", GG.ref("Int"))), [F("W", "string")])], ks=(0, 1, 2, 3, -1))
        seen = set()
        for s_ in ("( 300 ( 7", "( 7 ( 300", "( 300", "( 7", "( 128 ( 127 ( 300 ( 9"):
            GG.add_input(g, s_, seen)
        gs.append(g)
        # ... and the same after MANY tokens (18 and 40), with lookaheads on both sides of that length and unlimited ones; the failure
        # is a conversion error / a "!" group, not an unexpected token
        for gid, nlead in (("m4", 17), ("m5", 39)):
            lead = [GG.lit("a")] * nlead
            g = mk_grammar(gid, [("P0", {"op": "alt", "kids": [pn("A", "P1"), pn("B", "P2")]}, [F("A", "node", "P1"), F("B", "node", "P2")]),
                                 ("P1", seq(*(lead + [cap("N", "int8", GG.ref("Int"))])), [F("N", "int8")]),
                                 ("P2", seq(*(lead + [cap("W", "string", GG.ref("Int"))])), [F("W", "string")])], ks=(1, 16, 17, 20, 45, 99999, -1, -4))
            seen = set()
            for s_ in (" ".join(["a"] * nlead) + " 300", " ".join(["a"] * nlead) + " 7", " ".join(["a"] * (nlead - 1)) + " 300"):
                GG.add_input(g, s_, seen)
            gs.append(g)
        for gid, first in (("m0", seq(GG.ref("Comment"), node("N"))), ("m1", seq(GG.ref("Comment"), GG.ref("Comment"), node("N")))):
            g = mk_grammar(gid, [("P0", seq(cap("H", "string", GG.ref("Ident")), {"op": "grp", "mode": "once", "kid": {"op": "alt", "kids": [first, node("N")]}}), [F("H", "string"), F("N", "node", "P1")]),
                                 ("P1", seq(cap("C", "string", GG.ref("Comment")), cap("V", "string", GG.ref("Ident"))), [F("C", "string"), F("V", "string")])],
                           ks=(0, 1, 2, 3, 99999, 150000, -1, -2))
            seen = set()
            for s_ in ("x #k# y", "x #k##c# y", "x  #k# #c# y", "x #k#", "x y", "x#k#y", "x #k# #c# #a# y"):
                GG.add_input(g, s_, seen)
            gs.append(g)
    return gs


def mk_grammar(gid, prods_spec, unions=None, with_pos=False, ks=(0, 1, 2, -1), ci=False, trailing=False):
    """explicit grammar: prods_spec = [(name, body, fields)] (fields without tags)"""
    prods = []
    for name, body, fields in prods_spec:
        fl = GG.fields_from(body, fields)
        if with_pos:
            fl = [{"name": "Pos", "kind": "pos", "arg": "", "tag": ""}, {"name": "EndPos", "kind": "pos", "arg": "", "tag": ""},
                  {"name": "Tokens", "kind": "tokens", "arg": "", "tag": ""}] + fl
        prods.append({"name": name, "fields": fl, "body": body})
    root = {"name": "DynRoot", "fields": [{"name": "X", "kind": "union", "arg": "URoot", "tag": "@@"}],
            "body": {"op": "cap", "f": "X", "fk": "union", "kid": {"op": "union", "u": "URoot"}}}
    u = {"URoot": [prods_spec[0][0]]}
    u.update(unions or {})
    return {"id": gid, "prods": [root] + prods, "unions": u, "inputs": [], "ks": list(ks), "maxiter": 1000000, "conv": GG.conv_table(), "ci": ci, "citypes": ["Ident"] if ci else [], "trailing": trailing}


def F(name, kind, arg=""):
    return {"name": name, "kind": kind, "arg": arg}


def curated_c11(rng):
    """nodes adjacent to elided tokens, explicitly matched elided tokens at node ends, nodes after backtracking"""
    lit, ref = GG.lit, GG.ref
    cap = lambda f, fk, kid: {"op": "cap", "f": f, "fk": fk, "kid": kid}
    seq = lambda *k: {"op": "seq", "kids": list(k)}
    grp = lambda mode, kid: {"op": "grp", "mode": mode, "kid": kid}
    prod = lambda p: {"op": "prod", "p": p}
    gs = []
    # item list whose items end in an optional explicitly named elided token
    gs.append(mk_grammar("c0", [("P0", grp("plus", cap("Items", "nodes", prod("P1"))), [F("Items", "nodes", "P1")]),
                               ("P1", seq(cap("Name", "string", ref("Ident")), grp("opt", cap("Doc", "strings", ref("Comment")))), [F("Name", "string"), F("Doc", "strings")])], with_pos=True))
    # items starting with an explicitly named elided token
    gs.append(mk_grammar("c1", [("P0", grp("plus", cap("Items", "nodes", prod("P1"))), [F("Items", "nodes", "P1")]),
                               ("P1", seq(grp("star", cap("Doc", "strings", ref("Comment"))), cap("Name", "string", ref("Ident"))), [F("Doc", "strings"), F("Name", "string")])], with_pos=True))
    # nodes reached after a failed longer alternative, inside repetition, nested
    gs.append(mk_grammar("c2", [("P0", seq(grp("star", cap("A", "nodes", prod("P1"))), grp("opt", cap("B", "node", prod("P2")))), [F("A", "nodes", "P1"), F("B", "node", "P2")]),
                               ("P1", {"op": "alt", "kids": [seq(lit("("), cap("X", "string", ref("Ident")), lit(")")), seq(lit("("), cap("Y", "string", ref("Int")), lit(")"))]}, [F("X", "string"), F("Y", "string")]),
                               ("P2", seq(lit("("), grp("star", cap("Z", "strings", ref("Ident")))), [F("Z", "strings")])], with_pos=True, ks=(0, 1, 2, 3, -1)))
    # nodes whose last (or only) token is taken by user code (Parseable) through PeekingLexer.Next()
    gs.append(mk_grammar("c3", [("P0", grp("plus", cap("Items", "nodes", prod("P1"))), [F("Items", "nodes", "P1")]),
                               ("P1", seq(cap("Name", "string", ref("Ident")), cap("W", "unode", {"op": "user"})), [F("Name", "string"), F("W", "unode")])], with_pos=True))
    gs.append(mk_grammar("c4", [("P0", seq(grp("star", cap("Ws", "unodes", {"op": "user"}))), [F("Ws", "unodes")])], with_pos=True))
    # a node that matches an explicit EOF reference after a swallowed attempt that had run into EOF; trailing elided text
    gs.append(mk_grammar("c6", [("P0", seq(cap("A", "node", prod("P1")), grp("once", {"op": "alt", "kids": [seq(lit("!"), lit("(")), lit("!")]}), cap("E", "node", prod("P2"))), [F("A", "node", "P1"), F("E", "node", "P2")]),
                               ("P1", cap("N", "string", ref("Ident")), [F("N", "string")]),
                               ("P2", cap("Z", "string", ref("EOF")), [F("Z", "string")])], with_pos=True, ks=(0, 1, 2, -1), trailing=True))
    # nodes that consume nothing but explicitly matched elided tokens (doc comments)
    gs.append(mk_grammar("c5", [("P0", seq(grp("star", cap("Docs", "nodes", prod("P1"))), cap("Name", "string", ref("Ident")), grp("star", cap("After", "nodes", prod("P1")))), [F("Docs", "nodes", "P1"), F("Name", "string"), F("After", "nodes", "P1")]),
                               ("P1", cap("C", "string", ref("Comment")), [F("C", "string")])], with_pos=True))
    for g in gs:
        seen = set()
        GG.exhaustive_inputs(g, 3, seen, extra_terms=("#k#",))
        GG.random_inputs(g, rng, 120, 8, seen)
    return gs


def curated_core(rng, with_tokens=True):
    """shapes the random generator reaches rarely: multi-token captures into Token / []Token fields (at the very start of the
    input and later), explicit EOF references inside choices and groups"""
    lit, ref = GG.lit, GG.ref
    cap = lambda f, fk, kid: {"op": "cap", "f": f, "fk": fk, "kid": kid}
    seq = lambda *k: {"op": "seq", "kids": list(k)}
    alt = lambda *k: {"op": "alt", "kids": list(k)}
    grp = lambda mode, kid: {"op": "grp", "mode": mode, "kid": kid}
    gs = []
    if with_tokens:
        gs.append(mk_grammar("t0", [("P0", seq(cap("K", "token", grp("once", seq(ref("Ident"), ref("Ident")))), cap("R", "tokens", grp("once", grp("star", alt(ref("Ident"), ref("Int"))))), grp("opt", lit("!"))),
                                     [F("K", "token"), F("R", "tokens")])]))
        gs.append(mk_grammar("t1", [("P0", seq(cap("R", "tokens", grp("once", grp("plus", alt(ref("Ident"), lit("("))))), cap("K", "token", grp("once", alt(seq(ref("Int"), ref("Int")), ref("Ident")))), cap("S", "string", grp("once", grp("opt", lit(")"))))),
                                     [F("R", "tokens"), F("K", "token"), F("S", "string")])], ks=(0, 1, 2, -1)))
        gs.append(mk_grammar("t2", [("P0", grp("plus", cap("N", "nodes", {"op": "prod", "p": "P1"})), [F("N", "nodes", "P1")]),
                                     ("P1", alt(seq(lit("("), cap("K", "token", grp("once", seq(ref("Ident"), grp("opt", ref("Int"))))), lit(")")), cap("T", "tokens", grp("once", seq(ref("Int"), ref("Int"))))), [F("K", "token"), F("T", "tokens")])]))
    if with_tokens:
        # one []lexer.Token / lexer.Token field written by several separate captures (the last capture wins)
        gs.append(mk_grammar("t3", [("P0", seq(cap("R", "tokens", ref("Ident")), grp("star", seq(lit("("), cap("R", "tokens", grp("once", seq(ref("Ident"), grp("opt", ref("Int"))))))), grp("opt", cap("K", "token", ref("Int"))), grp("opt", cap("K", "token", lit(")")))),
                                     [F("R", "tokens"), F("K", "token")])], with_pos=True))
    if with_tokens:
        # lexer.Token / []lexer.Token fields whose first matched token comes from a negation
        gs.append(mk_grammar("t4", [("P0", seq(cap("K", "string", ref("Ident")), lit("("), cap("V", "token", {"op": "neg", "kid": lit(";")}),
                                               cap("R", "tokens", grp("once", grp("star", {"op": "neg", "kid": lit(";")}))), lit(";")),
                                     [F("K", "string"), F("V", "token"), F("R", "tokens")])], with_pos=True))
    # explicitly named elided tokens and explicit EOF references in TRAILING optional / repeated groups (the group is entered
    # when nothing but elided text is left before EOF)
    gs.append(mk_grammar("x0", [("P0", seq(cap("H", "string", ref("Ident")), grp("star", cap("D", "strings", ref("Comment")))), [F("H", "string"), F("D", "strings")])], ks=(0, 1, -1)))
    gs.append(mk_grammar("x1", [("P0", seq(grp("plus", cap("H", "strings", ref("Ident"))), grp("opt", cap("D", "string", ref("Comment"))), grp("opt", cap("Z", "string", ref("EOF")))), [F("H", "strings"), F("D", "string"), F("Z", "string")])], trailing=True, ks=(0, 1, -1)))
    # user code that consumes a token and then says "no match", at the head of alternatives and of repeated groups
    gs.append(mk_grammar("x2", [("P0", seq(grp("star", grp("once", alt(cap("W", "unode2", {"op": "user2"}), cap("N", "strings", ref("Int")), seq(lit("("), cap("S", "strings", ref("Ident")))))), grp("opt", lit("!"))),
                                 [F("W", "unode2"), F("N", "strings"), F("S", "strings")])], ks=(0, 1, 2, -1, -3)))
    # user code that FAILS after taking a token, with an error wrapping the "no match" sentinel: a failed attempt like any other
    gs.append(mk_grammar("x9", [("P0", seq(grp("star", grp("once", alt(cap("W", "unode3", {"op": "user3"}), cap("N", "strings", ref("Int"))))),
                                           grp("star", cap("R", "strings", grp("once", alt(ref("Ident"), lit("!"), lit("(")))))),
                                 [F("W", "unode3"), F("N", "strings"), F("R", "strings")])], ks=(0, 1, 2, -1, -3)))
    gs.append(mk_grammar("x10", [("P0", seq(grp("opt", cap("W", "unode3", {"op": "user3"})), grp("star", cap("R", "strings", grp("once", alt(ref("Ident"), lit("!"), ref("Int")))))),
                                  [F("W", "unode3"), F("R", "strings")])], ks=(0, 1, 2, -1)))
    # alternatives that begin by matching an explicitly named ELIDED token and fail before any ordinary token: the next
    # alternative starts from the choice point again (raw cursor and capture start included)
    gs.append(mk_grammar("x11", [("P0", seq(grp("once", alt(seq(cap("C", "string", ref("Comment")), lit("x"), cap("A", "string", ref("Ident"))), seq(ref("Comment"), cap("B", "string", ref("Ident"))), cap("B", "string", ref("Int")))),
                                            grp("opt", lit("!"))), [F("C", "string"), F("A", "string"), F("B", "string")])], ks=(0, 1, 2, -1)))
    if with_tokens:
        gs.append(mk_grammar("x12", [("P0", seq(cap("T", "token", grp("once", alt(seq(ref("Comment"), lit("x")), ref("Ident")))), grp("star", cap("R", "tokens", grp("once", alt(seq(ref("Comment"), lit("(")), ref("Ident")))))),
                                      [F("T", "token"), F("R", "tokens")])], ks=(0, 1, -1)))
    # ONE capture of several tokens into a numeric slice: every captured token is an element of its own
    gs.append(mk_grammar("x13", [("P0", seq(cap("N", "int8s", grp("once", seq(ref("Int"), ref("Int")))), grp("star", cap("N", "int8s", grp("once", seq(lit("("), ref("Int"))))), grp("opt", cap("S", "string", ref("Ident")))),
                                  [F("N", "int8s"), F("S", "string")])], ks=(0, 1, -1)))
    # a nullable production inside an optional group that fails after it (nothing consumed, captures pending)
    gs.append(mk_grammar("x3", [("P0", seq(grp("opt", seq(cap("L", "node", {"op": "prod", "p": "P1"}), lit("!"))), cap("V", "string", ref("Ident"))), [F("L", "node", "P1"), F("V", "string")]),
                                 ("P1", grp("star", cap("M", "strings", lit("("))), [F("M", "strings")])], ks=(0, 1, 2, -1)))
    # an optional group whose body can match without consuming anything ([ "a"? "b"? ]): an empty match is a match
    gs.append(mk_grammar("x4", [("P0", seq(lit("("), grp("opt", seq(grp("opt", cap("A", "string", lit("a"))), grp("opt", cap("B", "string", lit("b"))))), cap("C", "strings", grp("once", grp("star", ref("Ident")))), lit(")")),
                                 [F("A", "string"), F("B", "string"), F("C", "strings")])], ks=(0, 1, -1)))
    # captured literals on a case-insensitive token type: the capture is the TOKEN's text, in its own casing
    gs.append(mk_grammar("x5", [("P0", seq(grp("plus", cap("W", "strings", grp("once", alt(lit("a"), lit("b", "Ident"), lit("Xy"))))), grp("opt", cap("S", "string", lit("q", "Ident")))), [F("W", "strings"), F("S", "string")])], ci=True, ks=(0, 1, -1)))
    # the "!" (non-empty) modifier is not a choice point of its own: a failure inside it counts from the enclosing choice
    gs.append(mk_grammar("x6", [("P0", cap("A", "string", grp("once", alt(seq(lit("a"), grp("nonempty", grp("once", seq(lit("b"), lit("("))))), seq(lit("a"), lit("b"), lit(")"))))), [F("A", "string")])], ks=(0, 1, 2, 3, -1)))
    gs.append(mk_grammar("x7", [("P0", seq(grp("opt", grp("nonempty", grp("once", alt(seq(lit("a"), lit("b"), cap("X", "strings", lit("("))), seq(cap("X", "strings", lit("a")), lit("b"), lit(")")))))), grp("star", cap("R", "strings", grp("once", alt(ref("Ident"), lit("("), lit(")")))))), [F("X", "strings"), F("R", "strings")])], ks=(0, 1, 2, 3, -1)))
    # an explicitly named elided type as the FIRST element of an alternative
    gs.append(mk_grammar("x8", [("P0", grp("plus", grp("once", alt(cap("C", "strings", ref("Comment")), cap("I", "strings", ref("Ident")), seq(lit("("), cap("D", "strings", ref("Comment")))))), [F("C", "strings"), F("I", "strings"), F("D", "strings")])], ks=(0, 1, -1)))
    # a union in an optional / repeated position whose earlier member fails beyond the lookahead
    gs.append(mk_grammar("u0", [("P0", seq(grp("opt", cap("H", "union", {"op": "union", "u": "U0"})), grp("star", cap("R", "strings", grp("once", alt(ref("Ident"), lit("("), lit(")")))))), [F("H", "union", "U0"), F("R", "strings")]),
                                 ("P1", seq(lit("a"), lit("b"), cap("X", "string", lit("("))), [F("X", "string")]),
                                 ("P2", seq(lit("a"), lit("b"), cap("Y", "string", lit(")"))), [F("Y", "string")])], unions={"U0": ["P1", "P2"]}, ks=(0, 1, 2, 3, -1)))
    gs.append(mk_grammar("u1", [("P0", seq(grp("star", cap("H", "unions", {"op": "union", "u": "U0"})), grp("opt", cap("R", "strings", ref("Ident")))), [F("H", "unions", "U0"), F("R", "strings")]),
                                 ("P1", seq(lit("("), cap("X", "strings", ref("Ident")), cap("X", "strings", ref("Ident")), lit(")")), [F("X", "strings")]),
                                 ("P2", seq(lit("("), cap("Y", "string", ref("Ident")), lit("!")), [F("Y", "string")])], unions={"U0": ["P1", "P2"]}, ks=(0, 1, 2, 3, -1)))
    # a suffix modifier directly after a bracket group ({ x }!  [ x ]+ - rendered with the bracket spellings)
    GG.BRACKETS[0] = True
    try:
        gs.append(mk_grammar("b0", [("P0", seq(grp("nonempty", grp("star", cap("A", "strings", ref("Ident")))), lit("!"), grp("plus", grp("opt", cap("B", "strings", ref("Int")))), grp("opt", grp("star", lit("(")))), [F("A", "strings"), F("B", "strings")])], ks=(0, 1, -1)))
    finally:
        GG.BRACKETS[0] = False
    # explicit EOF
    gs.append(mk_grammar("e0", [("P0", seq(grp("plus", cap("W", "strings", ref("Ident"))), grp("once", alt(lit(";"), ref("EOF")))), [F("W", "strings")])], trailing=True))
    gs.append(mk_grammar("e1", [("P0", seq(cap("A", "string", ref("Ident")), grp("opt", cap("B", "strings", ref("Int"))), grp("once", alt(seq(lit("!"), ref("EOF")), ref("EOF"), lit("(")))), [F("A", "string"), F("B", "strings")])], trailing=True, ks=(0, 1, -1)))
    extra_inputs = {"x13": ["3 4", "12 70", "3 4 ( 7", "7 300", "3", "1 2 x"],
                    "x11": ["#c# y", "#c# x y", " y", "#c#y !", "#c# 7", "#a# #b# y", "y"], "x12": ["#c# y", "#c# x y", "y #c# ( z", "#c# x #d# z"],
                    "x9": ["x y !", "x ! y !", "x ! y", "7 ! 7 x", "x ! 7 y ! ( z", "x"], "x10": ["x y !", "x ! y", "x", "7 7 !", "x ! x !"],
                    "x5": ["A b", "a B Xy", "XY xy A", "A Q", "b q", "B b a A"], "x6": ["a b )", "a b (", "a b", "a b ( )"],
                    "x7": ["a b ) x", "a b ( x", "a b", "a b ) ( )", "x"], "x8": ["#k# x #c#", "x", "#k#", "( #k# x", " #a##b# x ( #c#"]}
    for g in gs:
        seen = set()
        for s_ in extra_inputs.get(g["id"], []):
            GG.add_input(g, s_, seen)
        terms = [t for t in GG.grammar_terms(g)] + ["y"]
        import itertools
        for n in range(0, 4):
            for ts in itertools.product(terms + [";"], repeat=n):
                GG.add_input(g, " ".join(ts), seen)
                if n and rng.random() < 0.4:
                    GG.add_input(g, " " + " ".join(ts) + rng.choice([" ", "  #c# ", "\n"]), seen)
                    GG.add_input(g, " ".join(ts) + " ", seen)
        GG.random_inputs(g, rng, 60, 7, seen)
    return gs


def leak_family(rng, quick):
    """C02 schema: choicepoint( captures ; [completed nested production | nested production failing part-way | nothing] ;
    captures ; failing terminal ) ; continuation that succeeds without writing those fields"""
    lit, ref = GG.lit, GG.ref
    gs = []

    def cap(f, fk, kid):
        return {"op": "cap", "f": f, "fk": fk, "kid": kid}

    def seq(*k):
        return {"op": "seq", "kids": list(k)}

    def grp(mode, kid):
        return {"op": "grp", "mode": mode, "kid": kid}

    def look(neg, kid):
        return {"op": "look", "neg": neg, "kid": kid}

    kinds = ["string", "strings", "bool", "int8", "token", "capt", "textu", "pstring", "capts"]
    nested_opts = ["none", "complete", "partial", "deep"]
    cps = ["alt", "opt", "star", "plus", "neg", "look", "nlook", "altalt"]
    combos = list(itertools.product(cps, nested_opts, kinds))
    rng.shuffle(combos)
    if quick:
        combos = combos[:60]
    combos += [("zw_prod", "none", k) for k in ("string", "token")] + [("zw_cap", "none", k) for k in ("tokens", "string", "bool")]
    combos += [(c, n, k) for c in ("lookcap", "nlookcap") for n in ("none", "complete", "partial") for k in ("string", "strings", "bool")]
    combos += [("caploop", "none", k) for k in ("string", "strings", "tokens")] + [("capplus", "none", k) for k in ("string", "strings")]
    # fields of a user type implementing participle.Capture (written through Capture(), which user code makes accumulate)
    combos += [(c, n, k_) for c in ("alt", "opt", "star", "altalt") for n in ("none", "complete") for k_ in ("capt", "textu", "pstring", "capts", "pcapts")]
    # the SAME field captured on the accepted path and again, first thing, inside the abandoned attempt
    combos += [("samefield_" + m, "none", k) for m in ("star", "opt", "alt") for k in ("string", "strings", "capt")]
    # a modifier applied directly to a multi-token capture: @( A B )*  @( A B )?  @( A B )+
    combos += [("modcap_" + m, "none", k) for m in ("star", "opt", "plus") for k in ("string", "strings", "tokens")]
    # the three shapes of the long-input run (leak-big): here with short inputs, judged by the meaning
    combos += [("big_" + m, "none", "strings") for m in ("alt", "opt", "look")]
    # a + group at the head of an enclosing optional / repeated group, its FIRST iteration failing after a capture
    combos += [(c, n, k) for c in ("optplus", "starplus") for n in ("none", "complete") for k in ("string", "strings", "bool")]
    # a Token / []Token capture wrapping a choice whose abandoned attempt explicitly matched an elided token first
    combos += [("tokchoice", "none", k) for k in ("token", "tokens")]
    # captures INSIDE the operand of a negation that matches several tokens and then fails
    combos += [("negcap", n, k) for n in ("none", "complete") for k in ("string", "strings", "bool")]
    for idx, (cp, nested, kind) in enumerate(combos):
        fields0 = [{"name": "A", "kind": kind, "arg": ""}, {"name": "B", "kind": "strings", "arg": ""}, {"name": "C", "kind": "string", "arg": ""}]
        capA = cap("A", kind, ref("Int") if kind == "int8" else ref("Ident"))
        capB = cap("B", "strings", ref("Ident"))
        inner = [capA]
        prods_extra = []
        if nested != "none":
            fields0.append({"name": "N", "kind": "node", "arg": "P1"})
            inner.append(cap("N", "node", {"op": "prod", "p": "P1"}))
            p1body = seq(lit("("), cap("X", "string", ref("Ident")), lit(")"))
            p1fields = [{"name": "X", "kind": "string", "arg": ""}]
            if nested == "partial":
                p1body = seq(lit("("), cap("X", "string", ref("Ident")), cap("Y", "string", ref("Int")), lit(")"))
                p1fields.append({"name": "Y", "kind": "string", "arg": ""})
            if nested == "deep":
                p1body = seq(lit("("), cap("X", "string", ref("Ident")), cap("M", "node", {"op": "prod", "p": "P2"}), lit(")"))
                p1fields.append({"name": "M", "kind": "node", "arg": "P2"})
                prods_extra.append(("P2", seq(lit("b"), cap("Z", "strings", ref("Int"))), [{"name": "Z", "kind": "strings", "arg": ""}]))
            prods_extra.insert(0, ("P1", p1body, p1fields))
        inner += [capB, lit("!")]
        attempt = seq(*inner)
        cont = cap("C", "string", grp("once", grp("plus", {"op": "alt", "kids": [ref("Ident"), ref("Int"), lit("("), lit(")"), lit("?")]})))
        if cp == "zw_prod":
            # an alternative abandoned without consuming a token while captures are pending: @@ whose production fails at its start
            fields0 = [{"name": "N", "kind": "node", "arg": "P1"}, {"name": "C", "kind": "string", "arg": ""}]
            body = {"op": "alt", "kids": [seq(cap("N", "node", {"op": "prod", "p": "P1"}), lit("!")), cont]}
            prods_extra = [("P1", seq(cap("X", kind, grp("once", grp("opt", lit("-")))), cap("Y", "string", ref("Int"))),
                            [{"name": "X", "kind": kind, "arg": ""}, {"name": "Y", "kind": "string", "arg": ""}])]
        elif cp == "zw_cap":
            fields0 = [{"name": "T", "kind": kind, "arg": ""}, {"name": "C", "kind": "string", "arg": ""}]
            body = {"op": "alt", "kids": [seq(cap("T", kind, grp("once", grp("opt", lit("-")))), lit("!")), cont]}
            prods_extra = []
        elif cp in ("lookcap", "nlookcap"):
            # captures INSIDE a lookahead group: a lookahead never contributes captures, whether it matches or not
            body = seq(look(cp == "nlookcap", attempt), cont)
        elif cp in ("caploop", "capplus"):
            # a capture wrapping a repetition whose last iteration matches a token and then fails softly
            rep = grp("star" if cp == "caploop" else "plus", seq(lit("("), ref("Ident")))
            inner_ = seq(ref("Ident"), rep) if cp == "caploop" else rep
            fields0 = [{"name": "A", "kind": kind, "arg": ""}, {"name": "C", "kind": "string", "arg": ""}]
            body = seq(cap("A", kind, grp("once", inner_)), cont)
            prods_extra = []
        elif cp.startswith("samefield_"):
            fields0 = [{"name": "A", "kind": kind, "arg": ""}, {"name": "C", "kind": "string", "arg": ""}]
            again = seq(cap("A", kind, ref("Ident")), lit("!"))
            m = cp.split("_")[1]
            tail_ = grp(m, again) if m != "alt" else grp("once", {"op": "alt", "kids": [again, lit(";")]})
            body = seq(cap("A", kind, ref("Ident")), grp("opt", tail_) if m == "alt" else tail_, grp("opt", cont))
            prods_extra = []
        elif cp.startswith("big_"):
            fields0 = [{"name": "A", "kind": "strings", "arg": ""}, {"name": "B", "kind": "strings", "arg": ""}]
            m = cp.split("_")[1]
            bpart = seq(grp("star", cap("B", "strings", ref("Ident"))), lit("?"))
            if m == "alt":
                body = {"op": "alt", "kids": [seq(grp("star", cap("A", "strings", ref("Ident"))), lit("!")), bpart]}
            elif m == "opt":
                body = seq(grp("opt", seq(grp("plus", cap("A", "strings", ref("Ident"))), lit("!"))), grp("once", bpart))
            else:
                body = seq(grp("opt", look(False, seq(grp("star", cap("A", "strings", ref("Ident"))), lit("!")))), grp("once", bpart))
            prods_extra = []
        elif cp.startswith("modcap_"):
            fields0 = [{"name": "A", "kind": kind, "arg": ""}, {"name": "C", "kind": "string", "arg": ""}]
            m = cp.split("_")[1]
            rep_ = grp(m, cap("A", kind, grp("once", seq(ref("Ident"), lit("!")))))
            body = seq(rep_, cont) if m != "plus" else {"op": "alt", "kids": [seq(rep_, lit(";")), cont]}
            prods_extra = []
        elif cp == "tokchoice":
            fields0 = [{"name": "A", "kind": kind, "arg": ""}, {"name": "C", "kind": "string", "arg": ""}]
            body = seq(cap("A", kind, grp("once", {"op": "alt", "kids": [seq(ref("Comment"), ref("Ident"), lit("!")), seq(ref("Ident"), lit("?")), seq(grp("opt", ref("Comment")), ref("Ident"), lit("("))]})), grp("opt", cont))
            prods_extra = []
        elif cp in ("optplus", "starplus"):
            body = seq(grp("opt" if cp == "optplus" else "star", seq(grp("plus", attempt), lit(";"))), cont)
        elif cp == "negcap":
            body = seq({"op": "neg", "kid": grp("once", attempt)}, grp("opt", cont))
        elif cp == "alt":
            body = {"op": "alt", "kids": [attempt, cont]}
        elif cp == "altalt":
            body = seq(grp("once", {"op": "alt", "kids": [seq(grp("once", {"op": "alt", "kids": [attempt, seq(lit("x"), lit("y"))]}), lit("!")), cont]}))
        elif cp == "opt":
            body = seq(grp("opt", attempt), cont)
        elif cp == "star":
            body = seq(grp("star", attempt), cont)
        elif cp == "plus":
            body = {"op": "alt", "kids": [seq(grp("plus", attempt), lit(";")), cont]}
        elif cp == "neg":
            body = {"op": "alt", "kids": [seq({"op": "neg", "kid": lit("q")}, attempt), cont]}
        elif cp == "look":
            body = {"op": "alt", "kids": [seq({"op": "look", "neg": False, "kid": grp("once", {"op": "alt", "kids": [ref("Ident"), ref("Int")]})}, attempt), cont]}
        else:
            body = seq({"op": "look", "neg": True, "kid": lit(";")}, grp("opt", attempt), cont)
        try:
            fl = GG.fields_from(body, fields0)
            prods = [{"name": "P0", "fields": fl, "body": body}]
            for name, b, f in prods_extra:
                prods.append({"name": name, "fields": GG.fields_from(b, f), "body": b})
        except ValueError:
            continue
        root = {"name": "DynRoot", "fields": [{"name": "X", "kind": "union", "arg": "URoot", "tag": "@@"}],
                "body": {"op": "cap", "f": "X", "fk": "union", "kid": {"op": "union", "u": "URoot"}}}
        g = {"id": "k%d" % idx, "schema": [cp, nested, kind], "prods": [root] + prods, "unions": {"URoot": ["P0"]}, "inputs": [], "ks": [0, 1, 2, 4, -1],
             "maxiter": 1000000, "conv": GG.conv_table(), "ci": False, "citypes": [], "trailing": idx % 3 == 2}   # (every third: AllowTrailing)
        seen = set()
        a = "7" if kind == "int8" else "x"
        nest = {"none": [[]], "complete": [["(", "y", ")"]], "partial": [["(", "y", "9", ")"], ["(", "y", ")"], ["(", "y", "9"]],
                "deep": [["(", "y", "b", "5", ")"], ["(", "y", "b", ")"], ["(", "y", "b", "5"]]}[nested]
        for nb in nest:
            for tail in (["w", "!"], ["w", "?"], ["w"], ["?"], ["w", "!", ";"], ["w", "!", "u"], ["w", "?", "u"]):
                for rep in (1, 2):
                    ts = ([a] + nb + tail[:1]) * (rep - 1) + [a] + nb + tail
                    GG.add_input(g, " ".join(ts), seen)
                    GG.add_input(g, " ".join(["z"] + ts), seen)
        for ts in (["x", "(", "y", "(", "7"], ["x", "(", "y", "(", "(", "z"], ["(", "y", "(", "7"], ["x", "(", "7"], ["x", "(", "y", "("], ["(", "y", "(", "z", "(", ")"]):
            GG.add_input(g, " ".join(ts), seen)
        for ts in (["#k#", "x", "?"], ["#k#", "x", "!"], ["#k#", "#c#", "x", "("], ["x", "?", "w"],
                   ["x", "x", "x", "?"], ["x", "x", "!"], ["x", "x", "x", "x", "x", "?"], ["?"], ["x", "w"], ["7"], ["x", "?"], ["-", "7", "!"], ["-", "!"], ["!"], ["-", "x"], ["-", "7", "?"],
                   ["x", "w", "!", "u"], ["x", "!", "w"], ["x", "!", "w", "!", "u"], ["x", "!", "w", "?"], ["x", "w", "!", "u", "v"], ["x", "!", "w", "!", ";"]):
            GG.add_input(g, " ".join(ts), seen)
        GG.random_inputs(g, rng, 20 if quick else 80, 7, seen, seps=(" ", " ", "  "))
        gs.append(g)
    return gs


# ---------------------------------------------------------------------------------------------------------------
def run_real(vhbin, wd, cases_path):
    out = os.path.join(wd, "real.txt")
    vlib.vh(vhbin, ["parse-run", cases_path], outfile=out, timeout=3000)
    real, lexdiff, builderr = {}, [], {}
    for line in open(out, errors="replace"):
        p = line.rstrip("\n").split("\t", 3)
        if len(p) != 4:
            continue
        if p[3].startswith("LEXDIFF"):
            lexdiff.append(line.strip())
        elif p[3].startswith("builderr"):
            builderr[(p[0], int(p[1]))] = p[3]
        elif p[3] == "skipped":
            pass
        else:
            real[(p[0], int(p[1]), int(p[2]))] = p[3]
    if lexdiff:
        raise Infra("the case file's token streams differ from Parser.Lex (generator self-check): " + lexdiff[0])
    return real, builderr


def run_spec(wd, cases_path, cfg, timeout=3400, consts=None):
    if os.environ.get("VERIF_ASIS"):   # debugging aid: the pinned tree's deviations (see Meaning.tla)
        consts = dict(consts or {}, DevApplyAll="TRUE", DevRawStart="TRUE", DevEmptyTokPanics="TRUE")
    res = vlib.run_tlc(wd, "MC_Meaning", cfg=cfg, modules=["Meaning"], extra_files=[cases_path], timeout=timeout, consts=consts,
                       heap="20g")
    if not res.ok:
        raise Infra("MC_Meaning (%s): %s" % (cfg, res.violation or res.error))
    exp = {}
    for f in vlib.parse_lines(res.lines, "EXPECT"):
        exp[(f[0], int(f[1]), int(f[2]))] = "|".join(f[3:])
    return res, exp


def strip_err(r):
    return "err" if r.startswith("err") else r


def describe(g, key):
    return {"grammar": [{"name": p["name"], "fields": [[f["name"], f["kind"] + (":" + f["arg"] if f["arg"] else ""), f["tag"]] for f in p["fields"]]} for p in g["prods"][1:]],
            "unions": g["unions"], "ci": g["ci"], "trailing": g["trailing"], "lookahead": key[1], "input": g["inputs"][key[2]]["s"]}


def single_case(g, key):
    g2 = {k: v for k, v in g.items() if k not in ("inputs", "ks", "groups")}
    g2["inputs"] = [g["inputs"][key[2]]]
    g2["ks"] = [key[1]]
    return g2


def run(pid, tier, args):
    v = Verdict(pid, tier)
    with vlib.workdir() as wd:
        vhbin = vlib.build_harness(wd)
        if args.replay:
            r = json.load(open(args.replay))
            gs = [r["case"]]
        else:
            gs = family(pid, tier, vlib.seed())
        byid = {g["id"]: g for g in gs}
        if len(byid) != len(gs):
            raise Infra("two grammars of the family share an id: %s" % sorted(g["id"] for g in gs if sum(1 for h in gs if h["id"] == g["id"]) > 1)[:6])
        cp = os.path.join(wd, "cases.json")
        json.dump(gs, open(cp, "w"))
        real, builderr = run_real(vhbin, wd, cp)
        if len(builderr) > len(gs):
            raise Infra("too many generated grammars rejected by Build: %s" % list(builderr.items())[:2])
        res, exp = run_spec(wd, cp, "MC_Meaning_%s.cfg" % pid)
        v.add_tlc(res)
        ncmp = nok = nbug = 0
        drift = []
        for key, r in real.items():
            e = exp.get(key)
            if e is None:
                raise Infra("no specification outcome for case %s" % (key,))
            if e in ("bug", "skip"):
                nbug += 1
                continue
            ncmp += 1
            if r.startswith("ok"):
                nok += 1
            g = byid[key[0]]
            same = strip_err(r) == e
            if pid in ("C01",):
                if not same:
                    v.violation("grammar %s lookahead %d input %r: real %s, meaning %s" % (key[0], key[1], g["inputs"][key[2]]["s"], r[:300], e[:300]),
                                {"property": pid, "kind": "parse", "case": single_case(g, key), "readable": describe(g, key), "real": r, "spec": e})
            elif pid == "C10" and g.get("explicit"):
                if not same:
                    v.violation("grammar %s (names an elided token type) lookahead %d input %r: real %s, meaning %s" % (key[0], key[1], g["inputs"][key[2]]["s"], r[:300], e[:300]),
                                {"property": pid, "kind": "parse", "case": single_case(g, key), "readable": describe(g, key), "real": r, "spec": e})
            elif pid in ("C02", "C11"):
                if not same and r.startswith("ok") and e.startswith("ok"):
                    v.violation("grammar %s lookahead %d input %r: AST %s, meaning %s" % (key[0], key[1], g["inputs"][key[2]]["s"], r[:300], e[:300]),
                                {"property": pid, "kind": "parse", "case": single_case(g, key), "readable": describe(g, key), "real": r, "spec": e})
                elif not same:
                    drift.append(key)
            else:
                if not same:
                    drift.append(key)
        if pid == "C13":
            nrel = 0
            for g in gs:
                ks = g["ks"]
                for i in range(len(g["inputs"])):
                    for a in ks:
                        ra = real.get((g["id"], a, i))
                        if ra is None or not ra.startswith("ok"):
                            continue
                        for b in ks:
                            stronger = a != b and (b < 0 or (a >= 0 and a < b))
                            if not stronger:
                                continue
                            nrel += 1
                            rb = real.get((g["id"], b, i))
                            if rb != ra:
                                v.violation("grammar %s input %r: lookahead %d gives %s but lookahead %d gives %s" % (g["id"], g["inputs"][i]["s"], a, ra[:200], b, (rb or "")[:200]),
                                            {"property": pid, "kind": "parse", "case": dict(single_case(g, (g["id"], a, i)), ks=[a, b]), "readable": describe(g, (g["id"], a, i)), "real": ra, "real_stronger": rb})
            if not args.replay:
                # lookaheads around and beyond MaxLookahead: a failing alternative that consumes 100001 tokens
                bigs = {"flat": {}, "deep": {}, "production": {}}
                for line in vlib.vh(vhbin, ["lookahead-big", "100001"], timeout=1800).splitlines():
                    shape_, kk, oc = line.split("\t", 2)
                    bigs[shape_][int(kk)] = oc
                what = {"flat": "grammar `( @\"x\"+ \"!\" | @\"x\"+ \"?\" )` on 100001 x then ?", "deep": "grammar `\"(\" @@ \")\" | @Ident` on 100009 nested parentheses",
                        "production": "a parser for the production `@Ident \"(\" \"*\" \")\" | @Ident \"(\" \")\"` (ParserForProduction) on `f ( )`"}
                for shape_, big in bigs.items():
                    for a, ra in big.items():
                        for b, rb in big.items():
                            if ra.startswith("ok") and a != b and (b < 0 or (a >= 0 and a < b)):
                                nrel += 1
                                if rb != ra:
                                    v.violation("%s: lookahead %d gives %s but lookahead %d gives %s" % (what[shape_], a, ra, b, rb),
                                                {"property": pid, "kind": "lookahead-big", "shape": shape_, "outcomes": {str(k_): o_ for k_, o_ in big.items()}})
                    if not any(o.startswith("ok") for o in big.values()):
                        raise Infra("vacuity: the long-input lookahead case (%s) never succeeds: %s" % (shape_, big))
            v.notes["successful_pairs_checked"] = nrel
            if nrel < 100 and not args.replay:
                raise Infra("vacuity: only %d (success, stronger lookahead) pairs" % nrel)
        if pid == "C01" and not args.replay:
            # the commit rule at its far end: a first alternative that fails after 100001 tokens is abandoned exactly when the
            # lookahead is unlimited or at least that long (MaxLookahead = 99999 is NOT)
            for line in vlib.vh(vhbin, ["lookahead-big", "100001"], timeout=1800).splitlines():
                shape_, kk, oc = line.split("\t", 2)
                if shape_ != "flat":
                    continue
                kk = int(kk)
                want_ok = kk < 0 or kk >= 100001
                if oc.startswith("ok") != want_ok:
                    v.violation("grammar `( @\"x\"+ \"!\" | @\"x\"+ \"?\" )` on 100001 x then ?: lookahead %d gives %s, the meaning %s" % (kk, oc[:80], "accepts" if want_ok else "rejects (the failed attempt ran past the lookahead)"),
                                {"property": pid, "kind": "lookahead-big", "k": kk, "real": oc[:200]})
                v.validated(1)
        if pid == "C10":
            ngroups = 0
            for g in gs:
                for grp in g.get("groups", []):
                    for k in g["ks"]:
                        outs = {}
                        for i in grp:
                            if exp.get((g["id"], k, i)) in ("bug", "skip") or (g["id"], k, i) not in real:
                                outs = {}
                                break
                            # lexer.Token fields are compared by the token's type and text, not by its raw index
                            toks = g["inputs"][i]["toks"]
                            norm = re.sub(r"tok(\d+)", lambda m: "tok<%s>" % ("%s:%s" % (toks[int(m.group(1)) - 1]["t"], toks[int(m.group(1)) - 1]["v"]) if 0 < int(m.group(1)) <= len(toks) else "0"), strip_err(real[(g["id"], k, i)]))
                            # elided tokens inside a []lexer.Token run are "asked for" and legitimately vary with the spacing
                            norm = re.sub(r"tok<(WS|Comment):[^>]*>,?", "", norm).replace(",]", "]")
                            norm = re.sub(r"pos\d+", "pos", norm)   # Pos / EndPos are positions, not captured fields
                            outs.setdefault(norm, i)
                        if not outs:
                            continue
                        ngroups += 1
                        if len(outs) > 1:
                            (ra, ia), (rb, ib) = list(outs.items())[:2]
                            v.violation("grammar %s lookahead %d: inputs %r and %r have the same non-elided tokens but give %s vs %s" % (g["id"], k, g["inputs"][ia]["s"], g["inputs"][ib]["s"], ra[:200], rb[:200]),
                                        {"property": pid, "kind": "parse", "case": dict(single_case(g, (g["id"], k, ia)), inputs=[g["inputs"][ia], g["inputs"][ib]], groups=[[0, 1]]), "readable": describe(g, (g["id"], k, ia)), "real": ra, "real_other": rb})
            if not args.replay:
                # lexers with many rules: the elided token types lie beyond 64 rules
                outs = {}
                for line in vlib.vh(vhbin, ["elide-many"], timeout=600).splitlines():
                    nr, inp_, oc = line.split("\t")
                    outs.setdefault(nr, {})[inp_] = oc
                for nr, d in outs.items():
                    ngroups += 1
                    if len(set(d.values())) > 1 or "err" in d.values():
                        v.violation(("a parser for one production (ParserForProduction)" if nr == "production" else "a parser whose Elide names come from a slice another Build used as well" if nr == "shared-names" else "lexer with %s rules before the elided ones" % nr) + ": re-spaced inputs with the same non-elided tokens give %s" % (json.dumps(d)[:300]),
                                    {"property": pid, "kind": "elide-many", "rules": nr, "outcomes": d})
            v.notes["respacing_groups_checked"] = ngroups
            if ngroups < 50 and not args.replay:
                raise Infra("vacuity: only %d re-spacing groups" % ngroups)
        if drift:
            k0 = drift[0]
            log("MODEL-DRIFT: %d cases where the real outcome differs from Meaning without breaking %s (C01's business), e.g. %s input %r: real %s, meaning %s" % (
                len(drift), pid, k0[0], byid[k0[0]]["inputs"][k0[2]]["s"], real[k0][:160], exp[k0][:160]))
            v.notes["model_drift_cases"] = len(drift)
        v.validated(ncmp)
        v.notes["cases"] = {"compared": ncmp, "successful_parses": nok, "grammar_bug_or_unjudgeable": nbug, "grammars": len(gs), "build_errors": len(builderr)}
        if not args.replay and nok < 50:
            raise Infra("vacuity: only %d successful parses in the family" % nok)
        if gs and real:
            key = next(k for k in real if real[k].startswith("ok")) if nok else next(iter(real))
            v.sample(dict(describe(byid[key[0]], key), outcome=real[key][:400]))
        v.notes["family"] = "seeded grammars (seed %d) of family F_%s, inputs: exhaustive short token strings + sampled/mutated sentences; every lookahead of each case" % (vlib.seed(), pid)
        v.assumptions += ["struct types built with reflect.StructOf and participle.Union (dynamic, anonymous types)", "token streams of the case file equal Parser.Lex (self-checked each run)",
                          "grammar-bug constructs (nullable alternative/repetition body) are excluded from the verdict"]
        if pid == "C02" and not args.replay:
            # the context protocol on its own, for EVERY well-nested caller (no grammar): C02's mechanism for all grammars at once
            cres = vlib.run_tlc(wd, "ContextProtocol", cfg="MC_ContextProtocol.cfg", consts=({} if tier == "quick" else {"MaxCaps": 4, "MaxBranches": 5}), timeout=3000)
            if not cres.ok:
                raise Infra("ContextProtocol: %s" % (cres.violation or cres.error))
            v.add_tlc(cres)
            # anti-vacuity: with the pinned tree's deviation (a completing production applies every pending capture) it must fail
            ares = vlib.run_tlc(wd, "ContextProtocol", cfg="MC_ContextProtocol.cfg", consts={"ApplyAll": "TRUE"}, timeout=3000)
            if ares.ok or not ares.violation:
                raise Infra("ContextProtocol is vacuous: the ApplyAll deviation does not violate its invariants")
            v.notes["context_protocol"] = "%d distinct states of the protocol with arbitrary callers: NoWriteBeforeCommit, NoDeadCaptureVisible, AppliedOnce hold; the ApplyAll deviation is rejected (%s)" % (cres.states, ares.violation)
        if pid == "C01" and not args.replay:
            from props import recorded
            recorded.check(v, wd, pid)
        if pid == "C01" and not args.replay:
            # Build options in every order give the same parser (CaseInsensitive, Lexer, Elide, Unquote, Upper)
            for line in vlib.vh(vhbin, ["option-order"], timeout=600).splitlines():
                f = line.split("\t")
                v.validated(1)
                if f[0] != "OK":
                    v.violation("the order of the Build options changes the parser: input %s: %s" % (f[1], f[2][:400]), {"property": pid, "kind": "option-order", "line": line})
        if pid == "C11" and not args.replay:
            # hand-written node types that embed a struct carrying Pos / EndPos / Tokens: same values as the plain node type
            for line in vlib.vh(vhbin, ["posfields-static"], timeout=600).splitlines():
                f = line.split("\t")
                v.validated(1)
                if f[0] != "OK":
                    v.violation("node types embedding a struct with Pos/EndPos/Tokens, input %s: %s" % (f[1], f[2][:400]), {"property": pid, "kind": "posfields-static", "line": line})
        if pid == "C02" and not args.replay:
            # abandoned attempts that had queued up to 5000 captures (the shapes big_alt / big_opt / big_look of the family)
            nbig = 0
            for line in vlib.vh(vhbin, ["leak-big"], timeout=1200).splitlines():
                f = line.split("\t")
                nbig += 1
                if f[3:] != ["0", f[2]]:
                    v.violation("long abandoned attempt, shape %s, lookahead %s, %s identifiers then '.': A/B have %s elements, expected 0 and %s" % (f[0], f[1], f[2], "/".join(f[3:]), f[2]),
                                {"property": pid, "kind": "leak-big", "line": line})
            v.validated(nbig)
            if nbig < 30:
                raise Infra("leak-big produced %d lines" % nbig)
        if pid in ("C01", "C02") and not args.replay:
            # small-step machine: refinement to Meaning + validation of the real parser's hook traces
            from props import machine
            rngm = random.Random(vlib.seed() + 99)
            sub = []
            for g in (gs if pid == "C02" else gs[: (6 if tier == "quick" else 60)]):
                g2 = {k: vv for k, vv in g.items() if k != "groups"}
                idx = list(range(len(g["inputs"])))
                rngm.shuffle(idx)
                g2["inputs"] = [dict(g["inputs"][i]) for i in sorted(idx[: (12 if tier == "quick" else 60) if pid == "C02" else (60 if tier == "quick" else 200)])]
                g2["ks"] = g["ks"][:3] if tier == "quick" else g["ks"]
                sub.append(g2)
            machine.check(v, wd, vhbin, sub, pid)
    return v.finish()
