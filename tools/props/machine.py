"""ParserMachine.tla: the small-step mirror of nodes.go/context.go.  (1) refinement: for every case TLC checks that the
machine's outcome equals Meaning's (Refines) together with the context-stack discipline, NoWriteBeforeCommit (C02's
mechanism), NoReentry (C08's consequence) and termination; (2) trace validation: the parse-context operations recorded from
the real parser through the verif hooks must be, event by event, the machine's (TraceConforms as a state invariant)."""
import json, os, re
import vlib
from vlib import Infra, log


def check(v, wd, vhbin, gs, label, timeout=3000):
    """gs: grammars with inputs; returns number of traces validated.  Hook-level disagreement is MODEL-DRIFT (the public
    observables are judged by the calling check), any other invariant failing on the machine is an infrastructure error."""
    d = os.path.join(wd, "machine-" + label)
    os.makedirs(d, exist_ok=True)
    cp = os.path.join(d, "cases.json")
    json.dump(gs, open(cp, "w"))
    out = os.path.join(d, "events.txt")
    vlib.vh(vhbin, ["parse-events", cp], outfile=out, timeout=timeout)
    ev, er, tr, part = {}, {}, {}, {}
    for line in open(out, errors="replace"):
        p = line.rstrip("\n").split("\t")
        if len(p) >= 4:
            ev[(p[0], int(p[1]), int(p[2]))] = [e for e in p[3].split(";") if e]
            er[(p[0], int(p[1]), int(p[2]))] = p[4] if len(p) > 4 else "?"
            tr[(p[0], int(p[1]), int(p[2]))] = json.loads(p[5]) if len(p) > 5 else []
            part[(p[0], int(p[1]), int(p[2]))] = p[6] if len(p) > 6 else "?"
    ntr = 0
    for g in gs:
        for i, inp in enumerate(g["inputs"]):
            inp["ev"] = [ev.get((g["id"], k, i), ["missing"]) for k in g["ks"]]
            inp["er"] = [er.get((g["id"], k, i), "?") for k in g["ks"]]
            inp["tr"] = [tr.get((g["id"], k, i), [{"d": -1, "k": "missing", "v": ""}]) for k in g["ks"]]
            ntr += len(g["ks"])
    json.dump(gs, open(cp, "w"))
    res = vlib.run_tlc(wd, "ParserMachine", cfg="MC_Machine_trace.cfg", modules=["Meaning"], extra_files=[cp], timeout=timeout, heap="24g")
    v.add_tlc(res)
    # error selection (deepestError bookkeeping): the machine's reported error against the real parser's.  The properties do
    # not fix WHICH located error is reported, so a disagreement is model drift.
    nerr = nbad = 0
    first = None
    for f in vlib.parse_lines(res.lines, "ERR"):
        key = (f[0], int(f[1]), int(f[2]))
        real = er.get(key, "?")
        if real in ("?", "-"):
            continue
        nerr += 1
        if real != f[3]:
            nbad += 1
            first = first or (key, real, f[3])
    if nerr:
        v.notes["error_selection_" + label] = "%d failing parses: the reported error (token, kind) equals ParserMachine's in %d" % (nerr, nerr - nbad)
    if nbad:
        g = next(g_ for g_ in gs if g_["id"] == first[0][0])
        log("MODEL-DRIFT: error selection differs from ParserMachine in %d of %d failing parses, e.g. grammar %s lookahead %d input %r: real %s, machine %s" % (nbad, nerr, first[0][0], first[0][1], g["inputs"][first[0][2]]["s"], first[1], first[2]))
        v.notes["model_drift_error_selection"] = True
    # partial AST (what a failing parse hands back next to the error): the machine's against the real one.  No property fixes
    # its content (C06 only demands that it is not nil), so a disagreement is model drift.
    npart = npbad = 0
    pfirst = None
    for f in vlib.parse_lines(res.lines, "PART"):
        key = (f[0], int(f[1]), int(f[2]))
        real, want = part.get(key, "?"), "|".join(f[3:])
        if real == "?" or want == "?":
            continue
        npart += 1
        if (want == "zero" and not real.startswith("Z:")) or (want != "zero" and real[2:] != want):
            npbad += 1
            pfirst = pfirst or (key, real, want)
    if npart:
        v.notes["partial_ast_" + label] = "%d failing parses: the partial AST returned next to the error equals ParserMachine's in %d" % (npart, npart - npbad)
    if npbad:
        g = next(g_ for g_ in gs if g_["id"] == pfirst[0][0])
        log("MODEL-DRIFT: the partial AST of a failing parse differs from ParserMachine in %d of %d failing parses, e.g. grammar %s lookahead %d input %r: real %s, machine %s" % (npbad, npart, pfirst[0][0], pfirst[0][1], g["inputs"][pfirst[0][2]]["s"], pfirst[1][:300], pfirst[2][:300]))
        v.notes["model_drift_partial_ast"] = True
    if res.ok:
        v.validated(ntr)
        v.notes["machine_" + label] = "%d hook traces and node-level traces (participle.Trace) accepted by ParserMachine (Refines, CtxDiscipline, CursorOrder, NoReentry, NoWriteBeforeCommit, Terminates hold)" % ntr
        return ntr
    if res.violation and "NodeTraceConforms" in res.violation:
        m = re.findall(r"/\\ gi = (\d+)", res.out), re.findall(r"/\\ ii = (\d+)", res.out), re.findall(r"/\\ ki = (\d+)", res.out)
        where = ""
        try:
            g = gs[int(m[0][-1]) - 1]
            i, k = int(m[1][-1]) - 1, g["ks"][int(m[2][-1]) - 1]
            rec = tr.get((g["id"], k, i), [])
            mt = re.findall(r"/\\ trc = (<<.*?>>)\n/\\", res.out, re.S)
            where = "grammar %s lookahead %d input %r; recorded %s; machine prefix %s" % (g["id"], k, g["inputs"][i]["s"], json.dumps(rec)[:400], (mt[-1] if mt else "")[-400:].replace("\n", " "))
        except Exception:
            pass
        log("MODEL-DRIFT: the node-level trace printed by participle.Trace is not a behaviour of ParserMachine (%s)" % where)
        v.notes["machine_" + label] = "node trace rejected: " + where
        v.notes["model_drift_node_trace"] = True
        return 0
    if res.violation and "TraceConforms" in res.violation:
        m = re.findall(r"/\\ gi = (\d+)", res.out), re.findall(r"/\\ ii = (\d+)", res.out), re.findall(r"/\\ ki = (\d+)", res.out)
        where = ""
        try:
            g = gs[int(m[0][-1]) - 1]
            i, k = int(m[1][-1]) - 1, g["ks"][int(m[2][-1]) - 1]
            evs = re.findall(r"/\\ evs = (<<.*?>>)\n", res.out, re.S)
            where = "grammar %s lookahead %d input %r; recorded %s; machine prefix %s" % (g["id"], k, g["inputs"][i]["s"], ";".join(ev.get((g["id"], k, i), []))[:300], (evs[-1] if evs else "")[:300].replace("\n", " "))
        except Exception:
            pass
        log("MODEL-DRIFT: a recorded parse-context trace is not a behaviour of ParserMachine (%s)" % where)
        v.notes["machine_" + label] = "hook trace rejected: " + where
        v.notes["model_drift_hooks"] = True
        return 0
    raise Infra("ParserMachine (%s): %s" % (label, res.violation or res.error))


def refinement(v, wd, pid):
    pass
