"""C04 - tokens lossless, positions exact.  (a) Position.tla: folding Advance over any splitting of any input equals PosOf
(MC_Position, exhaustive) and every explored Advance step is replayed on the real lexer.Position.Advance (B1);
(b) token events of real stateful / simple / text-scanner (/ generated, see C05) lexers on all inputs up to the bound are
validated against LexStream by Trace_LexStream (B2): value = input bytes at the offset, increasing non-overlapping offsets,
single EOF at the end, line/column = PosOf(offset), filename preserved, lossless concatenation when nothing is dropped."""
import json, os
import vlib, gen_lex
from vlib import Infra, Verdict, log


def validate(wd, tf, timeout=3000):
    res = vlib.run_tlc(wd, "Trace_LexStream", modules=["LexStream", "Position"], workers=1, dfs=True, timeout=timeout,
                       extra_files=[tf], consts={"TraceFile": '"%s"' % os.path.basename(tf)})
    rej = None
    for f in vlib.parse_lines(res.lines, "REJECTED"):
        rej = int(f[0])
    if rej is None and not res.ok:
        if res.violation is None:
            raise Infra("Trace_LexStream failed to run: %s" % res.error)
        rej = res.states
    return res, rej


def validate_file(wd, tf, v, pid, what, max_viol=3):
    """validate a (possibly long) ndjson file; on rejection report the trace, drop it and continue with the rest"""
    lines = open(tf).read().splitlines()
    total = sum(1 for x in lines if '"ev":"reset"' in x)
    found = 0
    while lines and found < max_viol:
        cur = os.path.join(wd, "cur.ndjson")
        open(cur, "w").write("\n".join(lines) + "\n")
        res, rej = validate(wd, cur)
        v.add_tlc(res)
        if rej is None:
            break
        idx = min(rej, len(lines)) - 1
        starts = [i for i in range(len(lines)) if '"ev":"reset"' in lines[i]]
        s = max(i for i in starts if i <= idx)
        nxt = [i for i in starts if i > s]
        e = nxt[0] if nxt else len(lines)
        tr = [json.loads(x) for x in lines[s:e]]
        for t in tr[1:]:
            t.pop("chars", None), t.pop("nodrop", None)
        bad = json.loads(lines[idx]) if idx < len(lines) else {}
        v.violation("%s: lexer %s on input %r: event %s is not allowed by LexStream" % (what, tr[0].get("lexer"), tr[0].get("input"), {k: bad.get(k) for k in ("ev", "off", "len", "line", "col", "vok", "fok")}),
                    {"property": pid, "kind": "lexstream", "trace": tr, "rejected_event_index": idx - s})
        found += 1
        lines = lines[e:]
    return total


def run(pid, tier, args):
    v = Verdict(pid, tier)
    with vlib.workdir() as wd:
        vhbin = vlib.build_harness(wd)
        if args.replay:
            r = json.load(open(args.replay))
            tf = os.path.join(wd, "trace.ndjson")
            tr = r["trace"]
            for t in tr[1:]:
                t.setdefault("chars", []), t.setdefault("nodrop", False)
            open(tf, "w").write("\n".join(json.dumps(e, separators=(",", ":")) for e in tr) + "\n")
            log("note: re-validating the recorded events (recorded from the real code) against LexStream")
            validate_file(wd, tf, v, pid, "replay")
            return v.finish()
        # (a) Position.tla
        res = vlib.run_tlc(wd, "MC_Position", modules=["Position"], consts={"MaxIn": 4 if tier == "quick" else 6}, timeout=3000)
        if not res.ok:
            raise Infra("MC_Position: %s" % (res.violation or res.error))
        v.add_tlc(res)
        edges = ["|".join(f) for f in vlib.parse_lines(res.lines, "ADV")]
        araw = os.path.join(wd, "alpha.json")
        gen_lex.write(araw, list("anexmu"), [])
        ef = os.path.join(wd, "adv.txt")
        open(ef, "w").write("\n".join(edges) + "\n")
        out = vlib.vh(vhbin, ["advance-replay", araw, ef])
        for line in out.splitlines():
            p = line.split("\t")
            if p[0] == "MISMATCH":
                v.violation(p[2], {"property": pid, "kind": "advance", "edge": p[1]})
            elif p[0] == "DONE":
                v.validated(int(p[1]))
        adds = sorted(set("|".join(f) for f in vlib.parse_lines(res.lines, "ADD")))
        if len(adds) < 20:
            raise Infra("too few Position.Add instances printed (%d)" % len(adds))
        af = os.path.join(wd, "add.txt")
        open(af, "w").write("\n".join(adds) + "\n")
        out = vlib.vh(vhbin, ["posadd-replay", af])
        for line in out.splitlines():
            p = line.split("\t")
            if p[0] == "MISMATCH":
                # (Position.Add is outside C04's statement - token positions never go through it: drift, not a violation)
                if not v.notes.get("model_drift_position_add"):
                    log("MODEL-DRIFT: lexer.Position.Add differs from Position.tla: " + p[2])
                v.notes["model_drift_position_add"] = True
            elif p[0] == "DONE":
                v.notes["position_add"] = "%s instances of Position.Add (embedded text at every place of every input): %s differ from the specification's (behaviour outside the property; drift only)" % (p[1], p[2])
        v.sample({"advance_step": edges[len(edges) // 3], "format": "input|from char|to char|position before|position after"})
        # (b) token streams of real lexers
        cases = gen_lex.family(vlib.seed(), 10 if tier == "quick" else 60)
        alpha_s = list("abnesu") if tier == "quick" else list("abclnesxu")
        rawpath = os.path.join(wd, "raw.json")
        gen_lex.write(rawpath, alpha_s, cases)
        tf = os.path.join(wd, "stateful.ndjson")
        sx = os.path.join(wd, "sextra.json")
        json.dump(["\ufeffab", "\ufeff", "a\ufeffb\n\ufeff", "\ufeff\n\u00e9"], open(sx, "w"))   # byte-order mark: no entry point may strip it
        vlib.vh(vhbin, ["lexstream-record", rawpath, "3" if tier == "quick" else "4", "stateful,simple", sx], outfile=tf)
        n1 = validate_file(wd, tf, v, pid, "stateful/simple")
        # generated lexers (compiled `participle gen lexer` output) through LexString, Lex(reader) and LexBytes
        from props import genlexer
        gcases = [c for c in gen_lex.family(vlib.seed(), 0 if tier == "quick" else 30, supported_only=True)]
        if tier == "quick":
            gcases = [c for c in gcases if c["id"] in ("G1", "G3", "G7", "G8", "G9", "G23", "G28")]
        # ... and classes of two-byte runes met by longer runes and lone bytes (their own alphabet)
        ucases, ualpha = gen_lex.unicode_family()
        ucases = [c for c in ucases if c["id"] in ("U2", "U7", "U8")] if tier == "quick" else ucases
        graw = os.path.join(wd, "graw.json")
        gen_lex.write(graw, alpha_s, gcases)
        gall = os.path.join(wd, "gall.json")
        gen_lex.write(gall, alpha_s, gcases + ucases)
        uraw = os.path.join(wd, "uraw.json")
        gen_lex.write(uraw, ualpha, ucases)
        gen = genlexer.build_generator(wd)
        vlib.vh(vhbin, ["gen-lexers", gall, gen, os.path.join(wd, "harness-src", "genlex")])
        vhgen = genlexer.build_with_generated(wd, v, pid, {c["id"]: c for c in gcases + ucases})
        tfg = os.path.join(wd, "generated.ndjson")
        vlib.vh(vhgen, ["lexstream-record", graw, "3" if tier == "quick" else "4", "generated", sx], outfile=tfg)
        n1 += validate_file(wd, tfg, v, pid, "generated")
        tfu = os.path.join(wd, "generated-u.ndjson")
        vlib.vh(vhgen, ["lexstream-record", uraw, "3", "generated"], outfile=tfu)
        n1 += validate_file(wd, tfu, v, pid, "generated (classes of two-byte runes)")
        # text/scanner based lexers: Go-token alphabet
        traw = os.path.join(wd, "traw.json")
        gen_lex.write(traw, list("ae1qsnmtdQ") if tier == "quick" else list("ae1qsnmtdkQ"), [])
        extra = os.path.join(wd, "extra.json")
        json.dump(["x := \"h\u00e9llo\"\n\ty /* c\nc */ 12.5e3\r\n`raw\n\u00e9` 'c' // tail", "a = `one\r\ntwo\r` b", "`\r`", "a\n\nb\n", "\u00e9\u00e9 \u00e9\n \u00e9", "  \n  ", "\n", "a // c\n", "\"\\n\" x"], open(extra, "w"))
        tf2 = os.path.join(wd, "text.ndjson")
        vlib.vh(vhbin, ["lexstream-record", traw, "4" if tier == "quick" else "5", "text,textcfg", extra], outfile=tf2)
        n2 = validate_file(wd, tf2, v, pid, "text/scanner")
        # a text/scanner whose Error callback is silent: invalid bytes become tokens; and the reader that delivers data with io.EOF
        qraw = os.path.join(wd, "qraw.json")
        gen_lex.write(qraw, list("ae1sxn"), [])
        tf3 = os.path.join(wd, "textquiet.ndjson")
        vlib.vh(vhbin, ["lexstream-record", qraw, "4" if tier == "quick" else "5", "textquiet", extra], outfile=tf3)
        n2 += validate_file(wd, tf3, v, pid, "text/scanner (silent Error callback, DataErrReader)")
        v.validated(n1 + n2)
        first = open(tf).readline()
        v.sample({"token_trace_first_event": json.loads(first) if first.strip() else None})
        # binding self-test
        if not v.violations:
            lines = open(tf2).read().splitlines()[:400]
            k = max(i for i in range(len(lines)) if '"ev":"tok"' in lines[i])
            e = json.loads(lines[k])
            e["col"] += 1
            lines[k] = json.dumps(e, separators=(",", ":"))
            while '"ev":"eof"' not in lines[-1]:
                lines.pop()
            cf = os.path.join(wd, "corrupt.ndjson")
            open(cf, "w").write("\n".join(lines) + "\n")
            res, rej = validate(wd, cf)
            if rej is None:
                raise Infra("binding self-test failed: corrupted token trace accepted")
            v.notes["binding_selftest"] = "column of event %d corrupted: rejected at line %s" % (k + 1, rej)
        v.notes["family"] = "Advance: all inputs <= %d over {a, newline, e-acute(2 bytes), invalid byte 0xFF, stray continuation byte 0xA9, CR} x all span splittings; streams: %d successful lexes (stateful+simple maps x all inputs <= 4 over %s; text/scanner default and comment-preserving x all inputs over %s)" % (
            4 if tier == "quick" else 6, n1 + n2, "".join(alpha_s), "a e-acute 1 \" space newline CR tab .")
        v.cov["exhaustive"] = True
        v.assumptions += ["only successful lexes are judged", "generated lexers: curated supported-class definitions compiled from the real generator output"]
    return v.finish()
