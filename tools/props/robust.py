"""C06 - Parse always returns a value or a well-formed located error.  (1) Grammars of F_core x every byte string up to the
bound over an alphabet with one representative per byte class: the real lexer's token streams are handed to TLC, Meaning
decides success/failure, and the real outcome must agree, never panic or hang, and every error must satisfy ErrOK (implements
participle.Error; position with filename, offset in bounds, line/column = PosOf(offset); unexpected-token errors name a token
of the stream; text = position + message; lexing failure => nil AST, parse failure => non-nil AST).  (2) Realistic example
grammars x seeded mutations of valid inputs (ErrOK, no panic).  (3) Deep and long inputs in stack-limited child processes."""
import json, os, random, subprocess
import vlib, gen_grammar as GG
from vlib import Infra, Verdict, log
from props import parser as P

ALPHA = [97, 98, 40, 41, 49, 57, 32, 34, 10, 0xC3, 0xA9, 0xFF, 35]


def run(pid, tier, args):
    v = Verdict(pid, tier)
    quick = tier == "quick"
    with vlib.workdir() as wd:
        vhbin = vlib.build_harness(wd)
        rng = random.Random(vlib.seed() * 31 + 6)
        if args.replay:
            r = json.load(open(args.replay))
            if r.get("kind") != "bytes":
                raise Infra("replay kind %s: re-run the check" % r.get("kind"))
            gs = [r["case"]]
            extra = [r["input_bytes"]]
            maxlen = 0
        else:
            gs = []
            i = 0
            while len(gs) < (16 if quick else 300):
                g = GG.make_grammar(rng, "g%d" % i, extra_kinds=[[], ["token"], ["int8", "int8s"], ["tokens", "token"], ["uint8s", "capt", "capts"], ["pstring", "textu", "pcapts"]][i % 6], ks=(1, -1) if (quick or i % 4) else (0, 1, 2, -1), trailing=(i % 5 == 0))
                i += 1
                gs.append(g)
            # zero-width and optional captures into every field kind (an empty capture must not break setField)
            lit, ref = GG.lit, GG.ref
            for j, kind in enumerate(["token", "tokens", "string", "strings", "bool", "int8"]):
                opt = {"op": "grp", "mode": "once", "kid": {"op": "grp", "mode": "opt", "kid": lit("a") if kind != "int8" else ref("Int")}}
                star = {"op": "grp", "mode": "once", "kid": {"op": "grp", "mode": "star", "kid": lit("(")}}
                body = {"op": "seq", "kids": [{"op": "cap", "f": "T", "fk": kind, "kid": opt}, {"op": "cap", "f": "U", "fk": kind if kind != "int8" else "strings", "kid": star}, lit("b")]}
                gs.append(P.mk_grammar("z%d" % j, [("P0", body, [P.F("T", kind), P.F("U", kind if kind != "int8" else "strings")])], ks=(1, -1)))
            # numeric slices (a value out of range is a located conversion error like for scalar fields)
            for j, (kind, shape) in enumerate([("int8s", "each"), ("int8s", "run"), ("uint8s", "each"), ("int8", "each")]):
                one = {"op": "cap", "f": "T", "fk": kind, "kid": ref("Int")}
                body = {"op": "seq", "kids": [{"op": "grp", "mode": "star", "kid": one} if shape == "each" else {"op": "cap", "f": "T", "fk": kind, "kid": {"op": "grp", "mode": "once", "kid": {"op": "grp", "mode": "plus", "kid": ref("Int")}}},
                                              {"op": "grp", "mode": "opt", "kid": lit("b")}]}
                gs.append(P.mk_grammar("n%d" % j, [("P0", body, [P.F("T", kind)])], ks=(1, -1)))
            # nodes with Pos / EndPos / Tokens that can match without consuming anything, at the very start of the input
            for j, body in enumerate([{"op": "grp", "mode": "star", "kid": {"op": "cap", "f": "A", "fk": "strings", "kid": ref("Ident")}},
                                      {"op": "seq", "kids": [{"op": "grp", "mode": "opt", "kid": {"op": "cap", "f": "A", "fk": "strings", "kid": lit("a")}}, {"op": "grp", "mode": "star", "kid": lit("(")}]}]):
                gs.append(P.mk_grammar("w%d" % j, [("P0", body, [P.F("A", "strings")])], ks=(1, -1), with_pos=True))
            gs.append(P.mk_grammar("w2", [("P0", {"op": "seq", "kids": [{"op": "cap", "f": "K", "fk": "node", "kid": {"op": "prod", "p": "P1"}}, {"op": "grp", "mode": "opt", "kid": lit("b")}]}, [P.F("K", "node", "P1")]),
                                          ("P1", {"op": "grp", "mode": "star", "kid": {"op": "cap", "f": "A", "fk": "strings", "kid": lit("a")}}, [P.F("A", "strings")])], ks=(1, -1), with_pos=True))
            # a capture whose content is only a lookahead group (it matches without consuming anything)
            for j, kind in enumerate(["token", "tokens", "string", "strings", "bool"]):
                lk = {"op": "grp", "mode": "once", "kid": {"op": "grp", "mode": "opt", "kid": {"op": "look", "neg": False, "kid": lit("(")}}}
                star = {"op": "grp", "mode": "once", "kid": {"op": "grp", "mode": "star", "kid": lit("(")}}
                body = {"op": "seq", "kids": [{"op": "grp", "mode": "opt", "kid": lit("a")}, {"op": "cap", "f": "T", "fk": kind, "kid": lk}, {"op": "cap", "f": "U", "fk": "strings", "kid": star}, lit("b")]}
                gs.append(P.mk_grammar("y%d" % j, [("P0", body, [P.F("T", kind), P.F("U", "strings")])], ks=(1, -1)))
            # grammars that match EOF explicitly (trailing elided text before EOF must not upset the progress check)
            for g0 in P.curated_core(rng, with_tokens=False):
                if g0["id"] in ("e0", "e1"):
                    g0 = dict(g0, id="x" + g0["id"], inputs=[], ks=[1, -1])
                    gs.append(g0)
            extra = []
            maxlen = 3   # (all byte strings of length 4 over 13 symbols x the thorough family does not finish: more grammars instead)
        gp = os.path.join(wd, "grammars.json")
        json.dump(gs, open(gp, "w"))
        cp = os.path.join(wd, "cases.json")
        ex = os.path.join(wd, "extra.json")
        json.dump([bytes(x).decode("latin1") if isinstance(x, list) else x for x in extra], open(ex, "w"))
        outp = os.path.join(wd, "real.txt")
        if args.replay:
            # exact bytes: pass through a latin1 JSON string is lossy for >= 0x80; use the alphabet route instead
            alpha = sorted(set(r["input_bytes"])) or [97]
            vlib.vh(vhbin, ["parse-bytes", gp, cp, str(len(r["input_bytes"])), ",".join(map(str, alpha))], outfile=outp, timeout=3000)
        else:
            vlib.vh(vhbin, ["parse-bytes", gp, cp, str(maxlen), ",".join(map(str, ALPHA))], outfile=outp, timeout=3000)
        real, lexouts = {}, []
        for line in open(outp, errors="replace"):
            p = line.rstrip("\n").split("\t")
            if len(p) < 4:
                continue
            if p[1] == "-":
                lexouts.append(p)
            elif not p[3].startswith("builderr"):
                real[(p[0], int(p[1]), int(p[2]))] = p[3]
        res, exp = P.run_spec(wd, cp, "MC_Meaning_C01.cfg")
        v.add_tlc(res)
        cases = {g["id"]: g for g in json.load(open(cp))}
        nerr = nok = 0
        seen = set()
        for key, rr in real.items():
            e = exp.get(key)
            if e is None:
                raise Infra("no specification outcome for %s" % (key,))
            g = cases[key[0]]
            inp = g["inputs"][key[2]]
            bad = None
            if rr.startswith(("bug", "hang")) and e not in ("bug",):
                bad = "parse %s" % ("panics" if rr.startswith("bug") else "hangs")
            elif "BADERR" in rr:
                bad = "malformed error: " + rr[rr.index("BADERR"):]
            elif e not in ("bug", "skip") and rr.startswith("ok") != e.startswith("ok"):
                bad = "real outcome %s but the meaning says %s" % (rr[:80], e[:80])
            if rr.startswith("ok"):
                nok += 1
            else:
                nerr += 1
            if bad and (key[0], bad[:30]) not in seen:
                seen.add((key[0], bad[:30]))
                raw = eval(inp["q"]) if False else inp["q"]
                v.violation("grammar %s lookahead %d input %s: %s" % (key[0], key[1], inp["q"], bad),
                            {"property": pid, "kind": "bytes", "case": {k: vv for k, vv in next(g0 for g0 in gs if g0["id"] == key[0]).items() if k != "inputs"}, "input_quoted": inp["q"],
                             "input_bytes": list(json.loads(inp["q"]).encode("latin1")) if all(ord(ch) < 256 for ch in json.loads('"' + inp["q"][1:-1].replace("\\x", "\\u00") + '"')) else [], "real": rr, "spec": e})
        nlex = 0
        for p in lexouts:
            nlex += 1
            if p[3].strip() != "lexerr":
                v.violation("grammar %s input %s: lexing failure not reported well: %s" % (p[0], p[4] if len(p) > 4 else "?", p[3]), {"property": pid, "kind": "lexerr", "detail": p})
        v.validated(len(real) + nlex)
        if not args.replay:
            if nerr < 100 or nok < 20:
                raise Infra("vacuity: %d errors / %d successes" % (nerr, nok))
            # (2) example grammars
            out = vlib.vh(vhbin, ["examples-run", str(vlib.seed()), "40" if quick else "600"], timeout=3000)
            nex = 0
            for line in out.splitlines():
                p = line.split("\t")
                nex += 1
                o = p[2]
                if o.startswith("valid"):
                    if "BADERR" in o or o.startswith(("valid panic", "valid hang")):
                        v.violation("example grammar %s on its valid input %s: %s" % (p[0], p[1], o), {"property": pid, "kind": "example", "grammar": p[0], "input_quoted": p[1], "real": o})
                    elif o != "valid ok":
                        raise Infra("example grammar %s rejects its own valid input %s: %s" % (p[0], p[1], o))
                    continue
                if "BADERR" in o or o.startswith(("panic", "hang")):
                    v.violation("example grammar %s on input %s: %s" % (p[0], p[1], o), {"property": pid, "kind": "example", "grammar": p[0], "input_quoted": p[1], "real": o})
            v.validated(nex)
            # (2a) parsers built under unusual option lists (token names the lexer does not have, odd lookaheads, nothing /
            # everything elided): Build may refuse, but a parser that was built must return from every entry point
            out = vlib.vh(vhbin, ["optcfg-run"], timeout=600)
            nb = 0
            for line in out.splitlines():
                p = line.split("\t")
                if len(p) != 3:
                    continue
                if p[1] == "ok":
                    nb += 1
                    if p[2].startswith(("panic", "hang")):
                        v.violation("parser built with the option list `%s`: %s" % (p[0], p[2][:200]), {"property": pid, "kind": "optcfg", "config": p[0], "real": p[2]})
                    v.validated(1)
                elif p[1].startswith("panic"):
                    log("note: Build panics under the option list %s (Build is C19's business, and C19 quantifies over types and tags): %s" % (p[0], p[1][:120]))
            if nb < 8:
                raise Infra("vacuity: only %d option lists built" % nb)
            # (2b) the same clause judged by the trace specification Trace_ErrOK (location by Position!PosOf on the input)
            ef = os.path.join(wd, "errfacts.ndjson")
            vlib.vh(vhbin, ["errfacts-run", str(vlib.seed() + 1), "25" if quick else "300"], outfile=ef, timeout=3000)
            elines = open(ef).read().splitlines()
            while elines:
                cur = os.path.join(wd, "errfacts-cur.ndjson")
                open(cur, "w").write("\n".join(elines) + "\n")
                tres = vlib.run_tlc(wd, "Trace_ErrOK", modules=["LexStream", "Position"], workers=1, dfs=True, timeout=3000, extra_files=[cur], consts={"TraceFile": '"errfacts-cur.ndjson"'})
                v.add_tlc(tres)
                rej = None
                for f in vlib.parse_lines(tres.lines, "REJECTED"):
                    rej = int(f[0])
                if rej is None:
                    if not tres.ok:
                        raise Infra("Trace_ErrOK: %s" % (tres.violation or tres.error))
                    v.validated(len(elines))
                    break
                bad = json.loads(elines[rej - 1])
                bad.pop("chars", None)
                v.violation("example grammar %s on input %r: the error is not well-formed (Trace_ErrOK): %s" % (bad.get("grammar"), bad.get("input"), json.dumps(bad)[:300]), {"property": pid, "kind": "errfacts", "event": bad})
                v.validated(rej)
                elines = elines[rej:]
                if len(v.violations) > 3:
                    break
            # (3) deep / long inputs in child processes
            deep = []
            for name in ("json", "expr", "interp", "ini"):
                deep.append((name, "nested", 300 if quick else 1000, 64 << 20))
                deep.append((name, "flat", 20000 if quick else 100000, 8 << 20))
                deep.append((name, "nestedtrace", 200 if quick else 600, 64 << 20))
            deep.append(("lexflat", "flat", 100000 if quick else 1000000, 4 << 20))
            for name, mode, n, limit in deep:
                pr = subprocess.run([vhbin, "deep-run", name, mode, str(n), str(limit)], stdout=subprocess.PIPE, stderr=subprocess.PIPE, timeout=600)
                o = pr.stdout.decode("utf8", "replace").strip()
                if o == "skip":
                    continue
                if pr.returncode != 0 or not o:
                    tail = pr.stderr.decode("utf8", "replace")[:300].replace("\n", " ")
                    v.violation("example grammar %s, %s input of size %d: process died under a %d MiB stack limit (%s)" % (name, mode, n, limit >> 20, tail),
                                {"property": pid, "kind": "deep", "grammar": name, "mode": mode, "n": n, "limit": limit})
                    continue
                oc = o.split("\t")[3]
                if oc != "ok":
                    v.violation("example grammar %s, %s input of size %d: %s" % (name, mode, n, oc), {"property": pid, "kind": "deep", "grammar": name, "mode": mode, "n": n, "limit": limit, "real": oc})
                v.validated(1)
            v.notes["deep_runs"] = ["%s/%s/%d under %d MiB" % d[:3] + (d[3] >> 20,) if False else "%s %s n=%d stack<=%dMiB" % (d[0], d[1], d[2], d[3] >> 20) for d in deep]
        k0 = next(iter(real)) if real else None
        if k0:
            v.sample({"grammar": P.describe(cases[k0[0]], k0)["grammar"], "input": cases[k0[0]]["inputs"][k0[2]]["q"], "real": real[k0][:200], "meaning": exp[k0][:200]})
        v.notes["cases"] = {"byte_strings_parsed": len(real), "errors": nerr, "successes": nok, "lexing_failures_checked": nlex}
        v.notes["family"] = "%d F_core grammars x all byte strings <= %d over {a b ( ) 1 9 space \" newline 0xC3 0xA9 0xFF #} x lookaheads; 4 example grammars x seeded mutations; nested/flat inputs in stack-limited child processes" % (len(gs), maxlen)
        v.assumptions += ["success/failure is decided by Meaning on the token stream Parser.Lex returns; error identity (which of several candidates is reported) is not judged",
                          "very long / deep inputs are executed on the real code only (no TLC re-evaluation): no panic, no hang, ErrOK, bounded stack",
                          "ErrOK is evaluated by the harness from the public error API"]
    return v.finish()
