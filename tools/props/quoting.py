"""C18 - token mappers; Unquote inverts Go quoting.  Quoting.tla: quoting / unquoting over an abstract alphabet with the
inversion theorems as TLC invariants, and the mapper pipeline (which mapper sees which token, in which order; exactly once).
TLC enumerates every string up to the bound in every quoting style (and arbitrary quoted bodies: invalid escapes), and every
short stream x every choice of three mapper selections; each case is replayed into real parsers (text/scanner and stateful
lexers; ParseString, ParseBytes, Lex; Upper)."""
import json, os
import vlib
from vlib import Infra, Verdict, log


def run(pid, tier, args):
    v = Verdict(pid, tier)
    quick = tier == "quick"
    with vlib.workdir() as wd:
        vhbin = vlib.build_harness(wd)
        if args.replay:
            r = json.load(open(args.replay))
            lf = os.path.join(wd, "r.txt")
            open(lf, "w").write(r["line"] + "\n")
            out = vlib.vh(vhbin, [r["cmd"], lf])
            for line in out.splitlines():
                if line.startswith("MISMATCH"):
                    v.violation(line[:300], r)
            return v.finish()
        res = vlib.run_tlc(wd, "MC_Quoting", modules=["Quoting"], consts={"MaxLen": 4 if quick else 5, "Mode": '"unquote"'}, timeout=3000)
        if not res.ok:
            raise Infra("MC_Quoting(unquote): %s" % (res.violation or res.error))
        v.add_tlc(res)
        qlines = ["|".join(f) for f in vlib.parse_lines(res.lines, "Q")]
        lf = os.path.join(wd, "q.txt")
        open(lf, "w").write("\n".join(qlines) + "\n")
        out = vlib.vh(vhbin, ["quote-run", lf], timeout=3000)
        seen = {}
        for line in out.splitlines():
            p = line.split("\t")
            if p[0] == "SPECDIFF":
                raise Infra("Quoting.tla disagrees with strconv.Quote: " + line)
            if p[0] == "MISMATCH":
                form = p[1].split("|")[0]
                key = (form, p[2], p[5].split(" ")[0][:3])
                seen[key] = seen.get(key, 0) + 1
                if seen[key] <= 2:
                    v.violation("%s lexer, literal %s (%s): Unquote gives %s, expected %s" % (p[2], p[3], form, p[5], p[4]), {"property": pid, "kind": "quote", "cmd": "quote-run", "line": p[1], "lexer": p[2], "expected": p[4], "real": p[5]})
                else:
                    v.violations.append(("(suppressed duplicate) %s %s" % (p[2], p[3]), {"property": pid, "kind": "quote", "cmd": "quote-run", "line": p[1]}))
            elif p[0] == "DONE":
                v.validated(int(p[1]))
        res2 = vlib.run_tlc(wd, "MC_Quoting", modules=["Quoting"], consts={"MaxStream": 3 if quick else 4, "Mode": '"mappers"'}, timeout=3000)
        if not res2.ok:
            raise Infra("MC_Quoting(mappers): %s" % (res2.violation or res2.error))
        v.add_tlc(res2)
        mlines = ["|".join(f) for f in vlib.parse_lines(res2.lines, "M")]
        # six mappers (more than any small fixed chain length) on streams of at most one token
        res3 = vlib.run_tlc(wd, "MC_Quoting", modules=["Quoting"], consts={"MaxStream": 1, "Mode": '"mappers"', "NMappers": 6}, timeout=3000)
        if not res3.ok:
            raise Infra("MC_Quoting(6 mappers): %s" % (res3.violation or res3.error))
        v.add_tlc(res3)
        mlines += ["|".join(f) for f in vlib.parse_lines(res3.lines, "M")]
        mf = os.path.join(wd, "m.txt")
        open(mf, "w").write("\n".join(mlines) + "\n")
        out = vlib.vh(vhbin, ["mapper-run", mf], timeout=3000)
        nm = 0
        for line in out.splitlines():
            p = line.split("\t")
            if p[0] == "MISMATCH":
                nm += 1
                if nm <= 3:
                    v.violation("stream/mappers %s via %s: %s" % (p[1], p[2], p[3]), {"property": pid, "kind": "mapper", "cmd": "mapper-run", "line": p[1], "detail": p[3]})
                else:
                    v.violations.append(("(suppressed duplicate) " + p[1], {"property": pid, "kind": "mapper", "cmd": "mapper-run", "line": p[1]}))
            elif p[0] == "DONE":
                v.validated(int(p[1]))
        v.sample({"unquote_case": qlines[len(qlines) // 3], "format": "style|literal over {a n Q=\" S=' B=` K=\\ N=newline E=e-acute}|expected"})
        v.sample({"mapper_case": mlines[len(mlines) // 2], "format": "token types|selection of mappers 1,2,3 (*=all)|expected calls mapper@token"})
        v.cov["exhaustive"] = True
        v.notes["family"] = "all strings <= %d over 8 symbols in 5 literal forms (strconv.Quote, single-quoted, back-quoted, arbitrary double-/single-quoted bodies); all streams <= %d over 3 token types x 5^3 mapper selections, streams <= 1 x 5^6 selections of six mappers; Upper on the first selection" % (4 if quick else 5, 3 if quick else 4)
        v.assumptions += ["Quoting.tla's Quote equals strconv.Quote on every string of the run (self-checked)", "the abstract alphabet has one representative per class: letter, escape letter, each quote, backslash, newline, multi-byte rune"]
    return v.finish()
