"""C16 - lexer definitions survive JSON.  The specification (StatefulLexer.tla: Expand, Symbols; MC_LexStatic: serialised
form, RoundTripStable invariant) states what the marshalled document must contain; the harness compares the documents
json.Marshal(def) and json.Marshal(def.Rules()) with it (order, names, patterns byte-exact, action kinds, targets), and the
MC_StatefulLexer expectations for every input are replayed against lexer.New(unmarshal(marshal(def))) and
lexer.New(unmarshal(marshal(def.Rules()))) together with their symbol tables (B1)."""
import json, os
import vlib, gen_lex
from vlib import Infra, Verdict, log
from props import lexer as L

EXTRA_PATTERNS = ['"', "\\\\", "\\\"a\\\"", "[\\\"']", "é+", "a\\.b", "\\x{1F600}", "<[^>]*>", "\\\\n", "`", "[\\]\\[]", " ", "(?i)É", "\\$\\^", "a&b", "\\u00e9"[1:], "\U0001F600+", "[\U0001F600-\U0001F64F]a", "\x1b\\[", "a\x07", "\x0bb", "\x7f", "c\x01", "\\p{L}+", "\\pN", "\\P{Lu}x", "[\\p{Greek}\\d]"]


def metachar_cases():
    """rule maps whose patterns are full of quotes, backslashes and non-ASCII (document fidelity)"""
    out = []
    good = [p for p in EXTRA_PATTERNS]
    for i in range(0, len(good), 3):
        rs = [gen_lex.named("M%d" % (i + k), p, "push" if k == 1 else "", "S1" if k == 1 else "") for k, p in enumerate(good[i:i + 3])]
        out.append({"id": "M%d" % i, "rules": {"Root": rs + [gen_lex.inc("S1")], "S1": [gen_lex.named("Q", "'[^']*'", "pop"), gen_lex.rule("a"), dict(gen_lex.RET)]}})
    # an anonymous (empty name) matching rule: accepted by lexer.New, must survive the round trip
    out.append({"id": "MA", "rules": {"Root": [gen_lex.named("", "[ \\t]+"), gen_lex.rule("a"), gen_lex.rule("b", act="push", state="S1")], "S1": [gen_lex.rule("c"), gen_lex.rule("b", act="pop")]}})
    # state names that need JSON escaping (control character, quote, backslash, non-ASCII)
    weird = 'S\x01"\\\u00e9'
    out.append({"id": "MW", "rules": {"Root": [gen_lex.rule("a", act="push", state=weird), gen_lex.inc(weird)],
                                      weird: [gen_lex.rule("b", act="pop"), gen_lex.rule("c")]}})
    return out


def run(pid, tier, args):
    v = Verdict(pid, tier)
    with vlib.workdir() as wd:
        vhbin = vlib.build_harness(wd)
        if args.replay:
            r = json.load(open(args.replay))
            if r.get("kind") == "lexrun":
                return L.do_replay(vhbin, wd, args.replay, v, pid)
            raise Infra("replay of kind %s: re-run the check" % r.get("kind"))
        alpha = list("abclsneJ")   # J: a character beyond the Basic Multilingual Plane (U+1F600)
        cases = gen_lex.family(vlib.seed(), 25 if tier == "quick" else 200) + metachar_cases()
        rawpath = os.path.join(wd, "raw.json")
        gen_lex.write(rawpath, alpha, cases)
        out = vlib.vh(vhbin, ["lex-prep", rawpath, os.path.join(wd, "cases.json")])
        accepted = [l.split("\t")[1] for l in out.splitlines() if l.startswith("NEW") and l.endswith("\tok")]
        byid = {c["id"]: c for c in cases}
        if not any(a.startswith("M") for a in accepted):
            raise Infra("no metacharacter rule map accepted by lexer.New")
        # error TEXTS of failing runs (original vs rebuilt definitions) and the JSON of single rules held across calls
        jout = vlib.vh(vhbin, ["json-errors", rawpath, "2" if tier == "quick" else "3"], timeout=1800)
        njerr = 0
        for line in jout.splitlines():
            q = line.split("\t")
            if q[0] == "MISMATCH":
                njerr += 1
                if njerr <= 3:
                    v.violation("rule map %s: %s" % (q[1], q[2][:400]), {"property": pid, "kind": "json-errors", "alpha": alpha, "case": byid.get(q[1]), "detail": q[2]})
            elif q[0] == "DONE":
                v.validated(int(q[1]))
        if "DONE" not in jout:
            raise Infra("json-errors did not finish")
        # document + symbol tables
        res = vlib.run_tlc(wd, "MC_LexStatic", modules=["StatefulLexer", "Regex", "Position"], extra_files=[os.path.join(wd, "cases.json")],
                           consts={"Mode": '"syms"'}, timeout=600)
        if not res.ok:
            raise Infra("MC_LexStatic: %s" % (res.violation or res.error))
        v.add_tlc(res)
        lf = os.path.join(wd, "static.txt")
        open(lf, "w").write("\n".join(l for l in res.lines if l.startswith(("SYMS|", "JSON|"))) + "\n")
        ndocs = 0
        for maker in (None, "json-def", "json-rules", "json-source"):
            out = vlib.vh(vhbin, ["lex-static", rawpath, lf] + ([maker] if maker else []))
            for line in out.splitlines():
                p = line.split("\t")
                if p[0] == "JSONDIFF" and maker is None:
                    if "marshal error" in p[3]:
                        v.violation("marshalled %s of rule map %s: %s" % (p[2], p[1], p[3]), {"property": pid, "kind": "jsondoc", "case": byid[p[1]], "detail": line})
                    else:
                        # the document's shape is not part of the property (only what the rebuilt definition does); a different
                        # but equivalent serialisation is reported, not alarmed
                        ndrift = v.notes.get("model_drift_documents", 0) + 1
                        v.notes["model_drift_documents"] = ndrift
                        if ndrift == 1:
                            log("MODEL-DRIFT: marshalled %s of rule map %s differs from the specification's serialised form: %s" % (p[2], p[1], p[3]))
                elif p[0] == "SYMDIFF" and maker:
                    v.violation("symbol table after %s round trip differs for %s: %s" % (maker, p[1], " ".join(p[2:])), {"property": pid, "kind": "symbols", "maker": maker, "case": byid[p[1]], "detail": line})
                elif p[0] == "DONE":
                    ndocs += int(p[5])
        v.validated(ndocs)
        # streams after the round trip
        maxin = 3 if tier == "quick" else 4
        # (the original definition on the same runs: the round-tripped definition must lex like the ORIGINAL, so a run where only
        # the original departs from the specification is a difference between the two as well)
        _r0, _e0, mism0, _d0, _n0 = L.mc_and_replay(wd, vhbin, rawpath, maxin, 0, maker=None)
        orig_dev = {(m["case"], m["input"]): m for m in mism0}
        for maker in ("json-def", "json-rules", "json-source"):
            res, exp, mism, done, nodef = L.mc_and_replay(wd, vhbin, rawpath, maxin, 0, maker=maker)
            rt_dev = {(m["case"], m["input"]) for m in mism}
            seen0 = set()
            for k_, m in orig_dev.items():
                if k_ not in rt_dev and k_[0] not in seen0 and k_[0] not in nodef:
                    seen0.add(k_[0])
                    v.violation("after %s round trip, rule map %s on %r lexes as %s but the original definition gives %s" % (maker, m["case"], m["input"], m["spec"], m["real"]),
                                {"property": pid, "kind": "lexrun-vs-original", "maker": maker, "alpha": alpha, "case": byid[m["case"]], "input": m["input"], "original": m["real"], "round_tripped": m["spec"]})
            if res.violation:
                raise Infra("specification invariant failed on the model: %s" % res.violation)
            v.add_tlc(res)
            v.validated(done[0])
            for cid in nodef[:2]:
                v.violation("%s: definition cannot be rebuilt after the round trip (%s)" % (cid, maker), {"property": pid, "kind": "rebuild", "maker": maker, "case": byid[cid]})
            seen = set()
            for m in mism:
                if m["case"] in seen:
                    continue
                seen.add(m["case"])
                v.violation("after %s round trip, rule map %s on %r: real %s, specification %s" % (maker, m["case"], m["input"], m["real"], m["spec"]),
                            {"property": pid, "kind": "lexrun", "maker": maker, "alpha": alpha, "case": byid[m["case"]], "input": m["input"], "why": m["why"], "spec": m["spec"], "real": m["real"]})
        v.sample({"serialised_form": [l for l in res.lines if l.startswith("JSON|")][:1] or "n/a", "rule_map": byid[accepted[-1]]})
        v.sample({"run_after_round_trip": exp[len(exp) // 2]})
        v.cov["exhaustive"] = True
        v.notes["family"] = "%d accepted rule maps (curated + %s random + metacharacter patterns) x three marshalling routes (the definition, its Rules(), the rule set as written with Include rules) x all inputs <= %d over %s" % (len(accepted), "seeded", maxin, "".join(alpha))
        v.assumptions += ["encoding/json is trusted for decoding the documents"]
    return v.finish()
