"""C03 / C07 - the stateful lexer.  spec/StatefulLexer.tla (+Regex, Position) model-checked by TLC for every rule map of
family F_lex x every input up to the bound (MC_StatefulLexer: invariants at every call, EXPECT line per run), every run
replayed into lexer.New(rules) (B1).  Regex.tla is cross-checked against regexp first (self-check, exit 2)."""
import json, os
import vlib, gen_lex
from vlib import Infra, Verdict, log


def static_checks(wd, vhbin, rawpath, cases, alpha, maxin_regex, v=None):
    """symbol tables vs def.Symbols(); Regex.tla vs regexp on every distinct pattern (self-check)"""
    sym_bad = []
    res = vlib.run_tlc(wd, "MC_LexStatic", modules=["StatefulLexer", "Regex", "Position"], extra_files=[os.path.join(wd, "cases.json")],
                       consts={"Mode": '"syms"'}, timeout=600)
    vlib.need_ok(res, "MC_LexStatic(syms)")
    lf = os.path.join(wd, "static.txt")
    open(lf, "w").write("\n".join(l for l in res.lines if l.startswith("SYMS|")) + "\n")
    out = vlib.vh(vhbin, ["lex-static", rawpath, lf])
    for line in out.splitlines():
        if line.startswith("SYMDIFF"):
            sym_bad.append(line)
    if v:
        v.add_tlc(res)
    # regex self-check on single-pattern cases
    pd = os.path.join(wd, "pats")
    os.makedirs(pd, exist_ok=True)
    praw = os.path.join(pd, "raw.json")
    gen_lex.write(praw, alpha, gen_lex.pattern_cases(cases))
    vlib.vh(vhbin, ["lex-prep", praw, os.path.join(pd, "cases.json")])
    res = vlib.run_tlc(wd, "MC_LexStatic", modules=["StatefulLexer", "Regex", "Position"], extra_files=[os.path.join(pd, "cases.json")],
                       consts={"Mode": '"regex"', "MaxIn": maxin_regex}, timeout=1200)
    vlib.need_ok(res, "MC_LexStatic(regex)")
    lf = os.path.join(pd, "static.txt")
    open(lf, "w").write("\n".join(l for l in res.lines if l.startswith("REGEX|")) + "\n")
    out = vlib.vh(vhbin, ["lex-static", praw, lf])
    diffs = [l for l in out.splitlines() if l.startswith("REGEXDIFF")]
    if diffs:
        raise Infra("Regex.tla disagrees with the standard library (specification self-check):\n" + "\n".join(diffs[:5]))
    nre = [l for l in out.splitlines() if l.startswith("DONE")][0].split("\t")[1]
    return sym_bad, int(nre)


def mc_and_replay(wd, vhbin, rawpath, maxin, extra, maker=None, cfg="MC_StatefulLexer.cfg", consts=None, timeout=3000):
    c = {"MaxIn": maxin, "ExtraCalls": extra}
    c.update(consts or {})
    res = vlib.run_tlc(wd, "MC_StatefulLexer", cfg=cfg, modules=["StatefulLexer", "Regex", "Position"],
                       extra_files=[os.path.join(wd, "cases.json")], consts=c, timeout=timeout)
    if not res.ok and res.violation is None:
        raise Infra("MC_StatefulLexer did not complete: %s" % res.error)
    exp = ["|".join(f) for f in vlib.parse_lines(res.lines, "EXPECT")]
    ef = os.path.join(wd, "expect.txt")
    open(ef, "w").write("\n".join(exp) + "\n")
    args = ["lex-run", rawpath, ef, str(extra)] + ([maker] if maker else [])
    out = vlib.vh(vhbin, args)
    mism, done, nodef = [], None, []
    for line in out.splitlines():
        p = line.split("\t")
        if p[0] == "MISMATCH":
            mism.append(dict(case=p[1], input=p[2], why=p[3], spec=p[4], real=p[5]))
        elif p[0] == "DONE":
            done = (int(p[1]), int(p[2]))
        elif p[0] == "NODEF":
            nodef.append(p[1])
    if done is None:
        raise Infra("lex-run did not finish")
    return res, exp, mism, done, nodef


def run_lextrace(wd, tf, timeout=3000):
    res = vlib.run_tlc(wd, "Trace_StatefulLexer", modules=["StatefulLexer", "Regex", "Position"], workers=1, dfs=True, timeout=timeout,
                       extra_files=[tf], consts={"TraceFile": '"%s"' % os.path.basename(tf)})
    rej = None
    for f in vlib.parse_lines(res.lines, "REJECTED"):
        rej = int(f[0])
    if rej is None and not res.ok:
        if res.violation is None:
            raise Infra("Trace_StatefulLexer failed to run: %s" % res.error)
        rej = res.states
    return res, rej


def validate_lextrace(wd, tf, v, pid, max_viol=3):
    lines = open(tf).read().splitlines()
    total = sum(1 for x in lines if '"ev":"reset"' in x)
    found = 0
    while lines and found < max_viol:
        cur = os.path.join(wd, "lexcur.ndjson")
        open(cur, "w").write("\n".join(lines) + "\n")
        res, rej = run_lextrace(wd, cur)
        v.add_tlc(res)
        if rej is None:
            break
        idx = min(rej, len(lines)) - 1
        starts = [i for i in range(len(lines)) if '"ev":"reset"' in lines[i]]
        s0 = max(i for i in starts if i <= idx)
        nxt = [i for i in starts if i > s0]
        e0 = nxt[0] if nxt else len(lines)
        head = json.loads(lines[s0])
        bad = json.loads(lines[idx])
        for k in ("chars", "def"):
            bad.pop(k, None)
        v.violation("example lexer %s on input %r: call %d is not a step of StatefulLexer: %s" % (head.get("lexer"), head.get("input"), idx - s0, json.dumps(bad)[:400]),
                    {"property": pid, "kind": "lextrace", "lexer": head.get("lexer"), "input": head.get("input"), "rejected_event": bad, "event_index": idx - s0})
        found += 1
        lines = lines[e0:]
    return total


BAD_C07 = ("PANIC", "HANG", "TOOMANY", "XEOFMOVED", "+0 ")


def run(pid, tier, args):
    v = Verdict(pid, tier)
    with vlib.workdir() as wd:
        vhbin = vlib.build_harness(wd)
        if args.replay:
            return do_replay(vhbin, wd, args.replay, v, pid)
        alpha = list("abclsne") if tier == "quick" else list("abclrsnex")
        nrandom = (40 if pid == "C03" else 25) if tier == "quick" else 260
        maxin = 4
        extra = 2
        cases = gen_lex.family(vlib.seed(), nrandom)
        rawpath = os.path.join(wd, "raw.json")
        gen_lex.write(rawpath, alpha, cases)
        out = vlib.vh(vhbin, ["lex-prep", rawpath, os.path.join(wd, "cases.json")])
        accepted = [l.split("\t")[1] for l in out.splitlines() if l.startswith("NEW") and l.endswith("\tok")]
        rejected = [l for l in out.splitlines() if l.startswith("NEW") and not l.endswith("\tok")]
        for l in rejected:
            if "hang" in l.split("\t")[2] or "panic" in l.split("\t")[2]:
                log("note: constructor did not return an error for %s: %s (outside C03/C07: rule map not accepted)" % tuple(l.split("\t")[1:3]))
        if len(accepted) < 20:
            raise Infra("too few accepted rule maps (%d)" % len(accepted))
        byid = {c["id"]: c for c in cases}
        sym_bad, nre = static_checks(wd, vhbin, rawpath, cases, alpha, 3 if tier == "quick" else 4, v)
        v.notes["regex_selfcheck_cases"] = nre
        res, exp, mism, done, _ = mc_and_replay(wd, vhbin, rawpath, maxin, extra)
        v.add_tlc(res)
        v.validated(done[0])
        if "x" not in alpha:
            # invalid UTF-8 bytes (quick tier keeps them out of the main alphabet): a small family over {a, b, 0xFF}
            xd = os.path.join(wd, "xbytes")
            os.makedirs(xd)
            xcases = [{"id": "KX0", "rules": {"Root": [gen_lex.rule("[^ab]+", True, "push", "S1"), gen_lex.rule("a")], "S1": [gen_lex.named("Ref0", "\\0"), gen_lex.rule("[a-c]"), gen_lex.rule("b", act="pop")]}},
                      {"id": "KX1", "rules": {"Root": [gen_lex.rule("(?s)."), gen_lex.rule("a")]}},
                      {"id": "KX2", "rules": {"Root": [gen_lex.rule("[^a]"), gen_lex.rule("a+")]}}]
            # ... and digits: a back-reference is ONE digit, a digit after it is literal text (\\11 = group 1 followed by "1")
            xcases += [{"id": "KX3", "rules": {"Root": [gen_lex.named("Open", "(a+)b", "push", "S1"), gen_lex.rule("[ab1]")], "S1": [gen_lex.named("End", "\\11", "pop"), gen_lex.rule("[ab1]")]}},
                       {"id": "KX4", "rules": {"Root": [gen_lex.named("Open", "(a)(1)?", "push", "S1"), gen_lex.rule("b")], "S1": [gen_lex.named("End", "b\\10", "pop"), gen_lex.rule("[ab1]")]}}]
            xraw = os.path.join(xd, "raw.json")
            gen_lex.write(xraw, list("abx1"), xcases)
            vlib.vh(vhbin, ["lex-prep", xraw, os.path.join(xd, "cases.json")])
            shutil.copy(os.path.join(xd, "cases.json"), os.path.join(wd, "cases.json.main")) if False else None
            import shutil as _sh
            _sh.copy(os.path.join(wd, "cases.json"), os.path.join(wd, "cases-main.json"))
            _sh.copy(os.path.join(xd, "cases.json"), os.path.join(wd, "cases.json"))
            xres, xexp, xmism, xdone, _ = mc_and_replay(wd, vhbin, xraw, 4, extra)
            _sh.copy(os.path.join(wd, "cases-main.json"), os.path.join(wd, "cases.json"))
            if xres.violation:
                raise Infra("specification invariant failed on the model: %s" % xres.violation)
            v.add_tlc(xres)
            v.validated(xdone[0])
            for c in xcases:
                byid[c["id"]] = c
                cases.append(c)
            for m in xmism:
                m["alpha"] = list("abx1")
            mism = mism + xmism
        if res.violation:
            # an invariant of the specification failed on the model itself: with the intended semantics this is a
            # specification defect unless the real code shows it too (the replay below decides)
            log("note: TLC reports %s on the model" % res.violation)
            raise Infra("specification invariant failed on the model: %s" % res.violation)
        whys = {}
        for e in exp:
            w = e.split("|")[2] or ("eof" if "EOF@" in e else "?")
            whys[w] = whys.get(w, 0) + 1
        for need in ("eof", "nomatch", "empty", "badref", "underflow"):
            if not whys.get(need):
                raise Infra("vacuity: no run of the model ends with %s" % need)
        v.notes["runs_by_outcome"] = whys
        if pid == "C03":
            # recorded findings: re-judge the mismatching runs with the finding's named deviation switched on
            cand = [m for m in mism if m["why"] != "underflow"]
            known = {}
            alphas = []
            for m in cand:
                if m.get("alpha", alpha) not in alphas:
                    alphas.append(m.get("alpha", alpha))
            for f, kalpha in [(f_, a_) for f_ in vlib.known_for(pid) for a_ in alphas]:
                if not cand or not f.get("deviation"):
                    continue
                kd = os.path.join(wd, "known-%s-%d" % (f["id"], alphas.index(kalpha)))
                os.makedirs(kd)
                cand_a = [m for m in cand if m.get("alpha", alpha) == kalpha]
                kcases = [byid[c] for c in sorted(set(m["case"] for m in cand_a))]
                kraw = os.path.join(kd, "raw.json")
                gen_lex.write(kraw, kalpha, kcases)
                vlib.vh(vhbin, ["lex-prep", kraw, os.path.join(kd, "cases.json")])
                kres = vlib.run_tlc(wd, "MC_StatefulLexer", modules=["StatefulLexer", "Regex", "Position"], extra_files=[os.path.join(kd, "cases.json")],
                                    consts={"MaxIn": maxin, "ExtraCalls": extra, f["deviation"]: "TRUE"}, timeout=3000)
                if not kres.ok and kres.violation is None:
                    raise Infra("known-finding re-judgement failed: %s" % kres.error)
                dev = {}
                for fl in vlib.parse_lines(kres.lines, "EXPECT"):
                    dev[(fl[0], fl[1])] = "|".join(fl[3:])
                for m in cand_a:
                    if dev.get((m["case"], m["input"])) == m["real"]:
                        known[(m["case"], m["input"])] = f
            for m in cand:
                f = known.get((m["case"], m["input"]))
                if f:
                    v.known_hit(f, "rule map %s on input %r: real %s, intended %s" % (m["case"], m["input"], m["real"], m["spec"]))
            mism = [m for m in mism if (m["case"], m["input"]) not in known]
            for l in sym_bad[:2]:
                v.violation("symbol table differs: " + l, {"property": pid, "kind": "symbols", "detail": l})
            seen = set()
            for m in mism:
                if m["why"] == "underflow":
                    continue
                key = (m["case"], m["why"], m["real"].split("@")[0][-8:])
                if key in seen:
                    continue
                seen.add(key)
                v.violation("rule map %s on input %r: real %s, specification %s" % (m["case"], m["input"], m["real"], m["spec"]),
                            {"property": pid, "kind": "lexrun", "alpha": m.get("alpha", alpha), "case": byid[m["case"]], "input": m["input"], "why": m["why"], "spec": m["spec"], "real": m["real"]})
        else:
            seen = set()
            for m in mism:
                if any(b in m["real"] for b in BAD_C07):
                    key = (m["case"], [b for b in BAD_C07 if b in m["real"]][0])
                    if key in seen:
                        continue
                    seen.add(key)
                    v.violation("rule map %s on input %r: %s (specification: %s)" % (m["case"], m["input"], m["real"], m["spec"]),
                                {"property": pid, "kind": "lexrun", "alpha": alpha, "case": byid[m["case"]], "input": m["input"], "why": m["why"], "spec": m["spec"], "real": m["real"]})
            # liveness on the curated maps: every run terminates (WF on NextCall)
            cur = [c for c in cases if c["id"].startswith("K") and c["id"] in accepted]
            ld = os.path.join(wd, "live")
            os.makedirs(ld)
            lraw = os.path.join(ld, "raw.json")
            gen_lex.write(lraw, alpha, cur)
            vlib.vh(vhbin, ["lex-prep", lraw, os.path.join(ld, "cases.json")])
            lres = vlib.run_tlc(wd, "MC_StatefulLexer", cfg="MC_StatefulLexer_live.cfg", modules=["StatefulLexer", "Regex", "Position"],
                                extra_files=[os.path.join(ld, "cases.json")], consts={"MaxIn": 3 if tier == "quick" else 4}, timeout=3000)
            if not lres.ok:
                raise Infra("liveness run failed on the model: %s" % (lres.violation or lres.error))
            v.add_tlc(lres)
            v.notes["liveness"] = "Terminates (<>(status # run) under WF(NextCall)) checked on %d curated maps" % len(cur)
        if pid == "C07":
            # the same clauses on generated lexers (supported-class definitions incl. Pop/Return reachable in Root)
            from props import genlexer
            gd = os.path.join(wd, "gen07")
            os.makedirs(gd)
            gcases = [c for c in gen_lex.family(vlib.seed(), 0 if tier == "quick" else 40, supported_only=True)]
            graw = os.path.join(gd, "raw.json")
            gen_lex.write(graw, alpha, gcases)
            vlib.vh(vhbin, ["lex-prep", graw, os.path.join(gd, "cases.json")])
            gbyid = {c["id"]: c for c in gcases}
            gen = genlexer.build_generator(wd)
            # (generated code is also built for definitions with nullable rules - outside the supported class, judged only
            # by the clauses that need no specification, see lex-long below)
            ncases = gen_lex.nullable_gen()
            allgraw = os.path.join(gd, "allraw.json")
            gen_lex.write(allgraw, alpha, gcases + ncases)
            gbyid.update({c["id"]: c for c in ncases})
            vlib.vh(vhbin, ["gen-lexers", allgraw, gen, os.path.join(wd, "harness-src", "genlex")])
            vhgen = genlexer.build_with_generated(wd, v, pid, gbyid)
            gres = vlib.run_tlc(wd, "MC_StatefulLexer", modules=["StatefulLexer", "Regex", "Position"], extra_files=[os.path.join(gd, "cases.json")],
                                consts={"MaxIn": 3 if tier == "quick" else 4, "ExtraCalls": extra}, timeout=3000)
            if not gres.ok:
                raise Infra("MC_StatefulLexer on the generated-lexer family: %s" % (gres.violation or gres.error))
            v.add_tlc(gres)
            gexp = ["|".join(f) for f in vlib.parse_lines(gres.lines, "EXPECT")]
            gef = os.path.join(gd, "expect.txt")
            open(gef, "w").write("\n".join(gexp) + "\n")
            out = vlib.vh(vhgen, ["lex-run", graw, gef, str(extra), "generated"])
            seen = set()
            for line in out.splitlines():
                p = line.split("\t")
                if p[0] == "MISMATCH" and any(b in p[5] for b in BAD_C07) and p[1] not in seen:
                    seen.add(p[1])
                    v.violation("generated lexer for %s on input %r: %s" % (p[1], p[2], p[5]), {"property": pid, "kind": "lexrun", "maker": "generated", "alpha": alpha, "case": gbyid[p[1]], "input": p[2], "why": p[3], "spec": p[4], "real": p[5]})
                elif p[0] == "DONE":
                    v.validated(int(p[1]))
            v.notes["generated_lexers"] = "%d definitions compiled and run with %d extra calls" % (len(gcases), extra)
            # long inputs ending in runs of invalid bytes (error texts quote the remaining input): the clauses of C07 that need no
            # specification - no panic, no hang, a located error or EOF, also on further calls - for runtime and generated lexers
            for mk, binp, rp, ids in (("runtime", vhbin, rawpath, byid), ("generated", vhgen, allgraw, gbyid)):
                for line in vlib.vh(binp, ["lex-long", rp, str(vlib.seed()), mk], timeout=1200).splitlines():
                    q = line.split("\t")
                    if q[0] == "BAD" and q[1] in ids:
                        v.violation("%s lexer for %s on a long input %s: %s" % (mk, q[1], q[2][:120], q[3][-200:]), {"property": pid, "kind": "lex-long", "maker": mk, "alpha": alpha, "case": ids[q[1]], "input_quoted": q[2], "real": q[3]})
                    elif q[0] == "DONE":
                        v.validated(int(q[1]))
        if pid == "C07" and not args.replay:
            # many states entered one inside the other and left by a single call of Next (Return after Return): no stack growth
            import subprocess
            nret = 200000 if tier == "quick" else 1000000
            pr = subprocess.run([vhbin, "deep-run", "lexreturn", "flat", str(nret), str(8 << 20)], stdout=subprocess.PIPE, stderr=subprocess.PIPE, timeout=600)
            o = pr.stdout.decode("utf8", "replace").strip()
            if pr.returncode != 0 or not o:
                v.violation("a lexer that leaves %d nested states in one call of Next dies under an 8 MiB stack limit (%s)" % (nret, pr.stderr.decode("utf8", "replace")[:200].replace("\n", " ")),
                            {"property": pid, "kind": "lex-return-depth", "n": nret})
            elif o.split("\t")[3] != "ok":
                v.violation("a lexer that leaves %d nested states in one call of Next: %s" % (nret, o.split("\t")[3][:200]), {"property": pid, "kind": "lex-return-depth", "n": nret, "real": o})
            v.validated(1)
        if pid == "C03":
            # B2: realistic stateful lexers (patterns beyond Regex.tla): the regexp outcomes are an oracle table recorded from the
            # standard library; rule choice, stack moves, groups, elision, positions and errors are decided by StatefulLexer!Call
            tf = os.path.join(wd, "lextrace.ndjson")
            vlib.vh(vhbin, ["lextrace-record", str(vlib.seed()), "6" if tier == "quick" else "80"], outfile=tf)
            ntr = validate_lextrace(wd, tf, v, pid)
            v.validated(ntr)
            if not v.violations:
                lines = open(tf).read().splitlines()
                k = max(i for i in range(len(lines)) if '"res":"tok"' in lines[i])
                e = json.loads(lines[k])
                e["to"] += 1
                lines[k] = json.dumps(e, separators=(",", ":"))
                cf = os.path.join(wd, "lexcorrupt.ndjson")
                open(cf, "w").write("\n".join(lines) + "\n")
                res_, rej = run_lextrace(wd, cf)
                if rej is None:
                    raise Infra("binding self-test failed: corrupted lexer trace accepted")
                v.notes["binding_selftest"] = "token end of event %d corrupted: rejected at line %s" % (k + 1, rej)
            v.notes["realistic_lexers"] = "%d traces of 4 example lexers (string interpolation, heredoc with back-reference, INI with Return, template with nested includes) incl. seeded mutations" % ntr
        if pid == "C03" and tier == "thorough":
            # NewSimple path for one-state maps
            res2, exp2, mism2, done2, nodef = mc_and_replay(wd, vhbin, rawpath, 3, 0, maker="simple")
            v.validated(done2[0])
            for m in mism2[:2]:
                v.violation("NewSimple: rule map %s on %r: real %s, specification %s" % (m["case"], m["input"], m["real"], m["spec"]),
                            {"property": pid, "kind": "lexrun", "maker": "simple", "alpha": alpha, "case": byid[m["case"]], "input": m["input"], "why": m["why"], "spec": m["spec"], "real": m["real"]})
        v.sample({"rule_map": byid[accepted[0]], "run": exp[0]})
        v.sample({"run": exp[len(exp) // 2]})
        v.cov["exhaustive"] = True
        v.notes["family"] = "%d accepted rule maps (%d curated + seeded random, seed %d) x all inputs of <= %d symbols over %s; %d extra calls after termination" % (
            len(accepted), len([a for a in accepted if a.startswith("K")]), vlib.seed(), maxin, "".join(alpha), extra)
        v.notes["constructor_rejected"] = len(rejected)
        v.assumptions += ["regexp/syntax Parse+Simplify yields the tree of each pattern; Regex.tla agrees with regexp on every pattern of the run for all texts <= bound (self-checked)",
                          "characters: one representative per class (ASCII word/non-word, space, newline, 2-byte rune" + (", invalid byte)" if "x" in alpha else ")")]
    return v.finish()


def do_replay(vhbin, wd, path, v, pid):
    r = json.load(open(path))
    if r.get("kind") != "lexrun":
        raise Infra("replay kind %s not supported" % r.get("kind"))
    rawpath = os.path.join(wd, "raw.json")
    gen_lex.write(rawpath, r["alpha"], [r["case"]])
    ef = os.path.join(wd, "expect.txt")
    open(ef, "w").write("%s|%s|%s|%s\n" % (r["case"]["id"], r["input"], r["why"], r["spec"]))
    out = vlib.vh(vhbin, ["lex-run", rawpath, ef, "2"] + ([r["maker"]] if r.get("maker") else []))
    for line in out.splitlines():
        p = line.split("\t")
        if p[0] == "MISMATCH":
            v.violation("rule map %s on %r: real %s, specification %s" % (p[1], p[2], p[5], p[4]), r)
    return v.finish()
