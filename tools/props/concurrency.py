"""C09 - concurrent and repeated use.  Concurrency.tla models the one shared mutable structure (the back-reference pattern
cache of a lexer definition) with CacheLoad / CacheStore as separately enabled steps; TLC explores every interleaving of 2-3
lexers after every earlier history and checks ResultsSequential, CacheCoherent, KeyInjective and termination.  Every
completed interleaving is replayed into real lexers through the gate hooks of lexer.BackrefRegex (build tag verif): each
call's result must equal the same call on a fresh definition in isolation (B1).  History independence is also checked
sequentially, and a free-running stress on shared parsers / definitions / generated definition / the ebnf package parser runs
under the Go race detector (data-race freedom is decided by the race detector, not by the specification)."""
import json, os, subprocess
import vlib, gen_lex
from vlib import Infra, Verdict, log
from props import genlexer, api


def run(pid, tier, args):
    v = Verdict(pid, tier)
    quick = tier == "quick"
    with vlib.workdir() as wd:
        vhbin = vlib.build_harness(wd)
        lines_all = []
        for nprocs, withnul in ([(2, False), (2, True)] if quick else [(2, False), (2, True), (3, False), (3, True)]):
            res = vlib.run_tlc(wd, "MC_Concurrency", modules=["Concurrency"], consts={"NProcs": nprocs, "WithNul": "TRUE" if withnul else "FALSE"}, timeout=3000, workers=8)
            if not res.ok:
                raise Infra("MC_Concurrency(%d procs, nul=%s): %s" % (nprocs, withnul, res.violation or res.error))
            v.add_tlc(res)
            lines = sorted(set("|".join(f) for f in vlib.parse_lines(res.lines, "SCHED")))
            if len(lines) < 20:
                raise Infra("too few interleavings printed (%d)" % len(lines))
            lines_all += lines
        lf = os.path.join(wd, "sched.txt")
        open(lf, "w").write("\n".join(lines_all) + "\n")
        out = vlib.vh(vhbin, ["conc-replay", lf], timeout=3000)
        nm = nd = 0
        for line in out.splitlines():
            p = line.split("\t")
            if p[0] == "MISMATCH":
                nm += 1
                if nm <= 3:
                    v.violation("schedule [%s]: %s" % (p[1], p[2][:300]), {"property": pid, "kind": "schedule", "line": p[1], "detail": p[2]})
                else:
                    v.violations.append(("(suppressed duplicate) " + p[1], {"property": pid, "kind": "schedule", "line": p[1]}))
            elif p[0] == "DRIFT":
                nd += 1
                if nd == 1:
                    log("MODEL-DRIFT: gate sequence differs from the specification (results still sequential): %s: %s" % (p[1], p[2]))
            elif p[0] == "DONE":
                v.validated(int(p[1]))
        v.notes["schedules"] = {"replayed": len(lines_all), "result_mismatches": nm, "gate_sequence_drift": nd}
        hf = os.path.join(wd, "history.ndjson")
        out = vlib.vh(vhbin, ["conc-history", hf])
        described = [line.split("\t") for line in out.splitlines()]
        # the (call, result) observations are validated against History.tla (a call's result does not depend on the object's past)
        hres = vlib.run_tlc(wd, "Trace_History", modules=["History"], workers=1, dfs=True, timeout=900, extra_files=[hf])
        v.add_tlc(hres)
        rej = [int(f[0]) for f in vlib.parse_lines(hres.lines, "REJECTED")]
        nev = sum(1 for _ in open(hf))
        if nev < 20:
            raise Infra("too few history observations (%d)" % nev)
        if rej:
            ev = json.loads(open(hf).read().splitlines()[rej[0] - 1])
            detail = next((p[1] for p in described if p[0] == "MISMATCH"), "")
            v.violation("history dependence (Trace_History rejects observation %d): call %r after %r does not return what it returns on a fresh object. %s" % (rej[0], ev["call"], ev["after"], detail[:300]),
                        {"property": pid, "kind": "history", "event": ev, "detail": detail})
        elif not hres.ok:
            raise Infra("Trace_History: %s" % (hres.violation or hres.error))
        elif any(p[0] == "MISMATCH" for p in described):
            raise Infra("the harness reports a history mismatch that Trace_History accepts (binding defect)")
        v.validated(nev)
        v.notes["history_observations"] = "%d (call, result) observations accepted by Trace_History" % nev
        # free-running stress under the race detector (shared parser, definitions, generated definition, ebnf parser)
        graw = os.path.join(wd, "core.json")
        gen_lex.write(graw, list("ab"), [{"id": "core", "rules": api.CORE_RULES}])
        gen = genlexer.build_generator(wd)
        vlib.vh(vhbin, ["gen-lexers", graw, gen, os.path.join(wd, "harness-src", "genlex")])
        src = os.path.join(wd, "harness-src")
        vhr = os.path.join(wd, "vh-race")
        p = subprocess.run(["go", "build", "-race", "-tags", "verif genlex", "-o", vhr, "./cmd/vh"], cwd=src, env=vlib.GOENV, stdout=subprocess.PIPE, stderr=subprocess.STDOUT)
        if p.returncode != 0:
            raise Infra("race-enabled harness does not build:\n" + p.stdout.decode("utf8", "replace")[-2000:])
        pr = subprocess.run([vhr, "conc-stress", str(vlib.seed()), "16", "150" if quick else "3000"], stdout=subprocess.PIPE, stderr=subprocess.PIPE, env=dict(vlib.GOENV, GORACE="halt_on_error=0"), timeout=3000)
        so, se = pr.stdout.decode("utf8", "replace"), pr.stderr.decode("utf8", "replace")
        if "DATA RACE" in se:
            first = se[se.index("WARNING: DATA RACE"):][:1200]
            v.violation("data race reported by the race detector under concurrent use: " + " ".join(first.split())[:400], {"property": pid, "kind": "race", "report": first})
        for line in so.splitlines():
            q = line.split("\t")
            if q[0] == "MISMATCH":
                v.violation("concurrent use: %s %s" % (q[1][:80], q[2][:300]), {"property": pid, "kind": "stress", "job": q[1], "detail": q[2]})
            elif q[0] == "DONE":
                v.validated(int(q[1]))
                v.notes["stress_calls"] = int(q[1])
        if "DONE" not in so:
            raise Infra("stress run did not finish: %s" % se[-500:])
        # binding self-test: a schedule with a wrong gate must be reported as drift
        bad = lines_all[0].rsplit("|", 1)[0] + "|1:store 2:store"
        bf = os.path.join(wd, "bad.txt")
        open(bf, "w").write(bad + "\n")
        out = vlib.vh(vhbin, ["conc-replay", bf])
        if "DRIFT" not in out:
            raise Infra("binding self-test failed: an impossible schedule was replayed without complaint")
        v.notes["binding_selftest"] = "impossible schedule reported as gate-sequence drift"
        v.sample({"schedule": lines_all[len(lines_all) // 2], "format": "call of each process|earlier history|interleaving of cache steps (process:step:hit/miss)"})
        v.cov["exhaustive"] = True
        v.notes["family"] = "2%s processes x calls over back-reference uses {A, B} and NUL-containing {N1, N2} x histories; every interleaving of cache loads/stores; 16-goroutine stress on 4 example parsers, shared back-reference definitions, a generated definition and the ebnf parser under -race" % ("" if quick else "-3")
        v.assumptions += ["data-race freedom is decided by the Go race detector on these runs, not by the TLA+ specification", "the back-reference cache is the only shared mutable state modelled; other shared state is covered only by the stress + race detector"]
    return v.finish()
