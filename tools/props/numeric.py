"""C17 - numeric captures.  Conv.tla (strconv.ParseInt/ParseUint base 0 as a digit-sequence recogniser with per-kind bounds)
is evaluated by TLC for every (kind, text) of the boundary family (MC_Conv); each text is captured into a real field of that
kind (plain, pointer, named, slice element; single token or sign+number joined) and acceptance, stored value, error location
and error naming are compared (B1).  Conv.tla is cross-checked against strconv (self-check, exit 2).  Float conversion is not
decided by the specification: strconv.ParseFloat with the field's bit size is a logged oracle."""
import json, os
import vlib, gen_num
from vlib import Infra, Verdict, log


def run(pid, tier, args):
    v = Verdict(pid, tier)
    with vlib.workdir() as wd:
        vhbin = vlib.build_harness(wd)
        if args.replay:
            r = json.load(open(args.replay))
            ints, floats = ([r["case"]], []) if not r["case"]["kind"].startswith("float") else ([], [r["case"]])
        else:
            ints, floats = gen_num.cases(vlib.seed(), tier == "quick")
        cases = ints + floats
        cf = os.path.join(wd, "ncases.json")
        json.dump({"bounds": gen_num.bounds(), "cases": cases}, open(cf, "w"))
        out = vlib.vh(vhbin, ["num-run", cf])
        real, oracle = {}, {}
        for line in out.splitlines():
            p = line.split("\t")
            real[int(p[0])] = p[1]
            for x in p[2:]:
                if x.startswith("oracle="):
                    oracle[int(p[0])] = x[7:]
        # specification for the integer kinds
        icf = os.path.join(wd, "icases")
        os.makedirs(icf)
        json.dump({"bounds": gen_num.bounds(), "cases": ints or [dict(cases[0], kind="int8", signed=True, text=["1"])]}, open(os.path.join(icf, "ncases.json"), "w"))
        res = vlib.run_tlc(wd, "MC_Conv", modules=["Conv"], extra_files=[os.path.join(icf, "ncases.json")], timeout=3000)
        if not res.ok:
            raise Infra("MC_Conv: %s" % (res.violation or res.error))
        v.add_tlc(res)
        spec = {}
        for f in vlib.parse_lines(res.lines, "CONV"):
            spec[int(f[0])] = f[1]
        n_ok = n_fail = skipped = 0
        for i, c in enumerate(cases):
            r = real.get(i)
            if r is None:
                raise Infra("no harness outcome for case %d" % i)
            if c["kind"].startswith("float"):
                exp = oracle[i]
                if exp.startswith("ok"):
                    want = exp[3:]
                else:
                    want = None
            else:
                e = spec.get(i)
                if e is None:
                    raise Infra("no specification outcome for case %d" % i)
                if e.startswith("ok"):
                    _, base, digits = e.split(" ")
                    want = str(int(digits, int(base)))
                else:
                    want = None
                o = oracle[i]
                if (o == "fail") != (want is None) or (want is not None and o != "ok " + want):
                    raise Infra("Conv.tla disagrees with strconv on %s %r: specification %s, strconv %s" % (c["kind"], c["s"], e, o))
            if r.startswith("fail syntax") and c["shape"] in ("joined", "joined0", "joinedsp"):
                skipped += 1   # the text does not lex to the capture's tokens: not a conversion case
                continue
            if c["variant"] in ("slice", "slicegrp") and want is not None:
                seven = {"float32": "f40e00000", "float64": "f401c000000000000"}.get(c["kind"], "7")
                want = "[%s,%s]" % (seven, want)
            if c["shape"] == "multifirst" and want is not None:
                want = {"float32": "f40e00000", "float64": "f401c000000000000"}.get(c["kind"], "7")   # the last capture is kept
            if want is None:
                n_fail += 1
                if r != "fail conv ":
                    v.violation("%s field (%s, %s) <- %r: must fail with a located conversion error, got %r" % (c["kind"], c["variant"], c["shape"], c["s"], r),
                                {"property": pid, "kind": "num", "case": c, "real": r, "expected": "fail"})
            else:
                n_ok += 1
                if r != "ok " + want:
                    v.violation("%s field (%s, %s) <- %r: stored %r, expected %s" % (c["kind"], c["variant"], c["shape"], c["s"], r, want),
                                {"property": pid, "kind": "num", "case": c, "real": r, "expected": "ok " + want})
        v.validated(n_ok + n_fail)
        if not args.replay and (n_ok < 200 or n_fail < 200):
            raise Infra("vacuity: %d accepted / %d rejected conversions" % (n_ok, n_fail))
        v.notes["cases"] = {"accepted": n_ok, "rejected": n_fail, "not_a_conversion": skipped, "integer_cases_decided_by_Conv.tla": len(ints), "float_cases_decided_by_logged_strconv_oracle": len(floats)}
        v.sample({"case": {k: cases[len(ints) // 2][k] for k in ("kind", "s", "variant", "shape")}, "specification": spec.get(len(ints) // 2), "real": real.get(len(ints) // 2)})
        v.notes["family"] = "boundary values (max, max+1, min, min-1, ...) of every integer width in bases 10/16/8/2 with signs, prefixes, underscores valid and invalid, leading zeros, odd texts; float texts incl. float32/float64 overflow boundaries, subnormals, hex floats, Inf/NaN words"
        v.assumptions += ["float conversion exactness is decided by strconv.ParseFloat with the declared kind's bit size (logged oracle), not by the TLA+ specification",
                          "Conv.tla agrees with strconv.ParseInt/ParseUint on every integer case of the run (self-checked, disagreement = exit 2)",
                          "the capture protocol around a failing conversion (which production fails, rescue by alternatives) is decided by Meaning in C01/C02"]
    return v.finish()
