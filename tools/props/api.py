"""C15 - all entry points agree.  MC_Api (Meaning as the single specification value of every entry point, plus the lexer
state ParseFromLexer must leave behind) is evaluated by TLC; the harness exercises Parse(reader), ParseString, ParseBytes,
ParseFromLexer over Parser.Lex's tokens, each with and without Trace, Parser.Lex, and the definition's Lex / LexString /
LexBytes, on parsers over the stateful core lexer, the GENERATED core lexer (real `participle gen lexer` output) and with an
Upper mapper; all outcomes of one case must be identical (ASTs and error texts), token streams identical, and the cursor after
ParseFromLexer(AllowTrailing) must be the specification's."""
import json, os, random, subprocess
import vlib, gen_grammar as GG, gen_lex
from vlib import Infra, Verdict, log
from props import parser as P, genlexer

CORE_RULES = {"Root": [gen_lex.named("Ident", "[a-zA-Z]+"), gen_lex.named("Int", "[0-9]+"), gen_lex.named("Punct", "[^\\sa-zA-Z0-9#]"),
                       gen_lex.named("Comment", "#[a-z]*#"), gen_lex.named("WS", "\\s+")]}

PARSE_EPS = ["ParseString", "ParseBytes", "Parse", "ParseString+Trace", "ParseBytes+Trace", "ParseFromLexer",
             "Parse(DataErrReader)", "Parse(OneByteReader)", "Parse(named reader)", "Parse(no filename, reader named fn)",
             "ParseFromLexer(Parser.Lexer())", "Parse(part-read strings.Reader)", "Parse(part-read bytes.Reader)"]
LEX_EPS = ["Lex", "def.Lex", "def.LexString", "def.LexBytes", "Lex(DataErrReader)", "Lex(named reader)", "def.Lex(DataErrReader)", "def.Lex(part-read reader)"]


def run(pid, tier, args):
    v = Verdict(pid, tier)
    quick = tier == "quick"
    with vlib.workdir() as wd:
        vhbin = vlib.build_harness(wd)
        rng = random.Random(vlib.seed() * 71 + 15)
        if args.replay:
            gs = [json.load(open(args.replay))["case"]]
        else:
            gs = []
            for i in range(12 if quick else 120):
                g = GG.make_grammar(rng, "g%d" % i, extra_kinds=[[], ["token", "tokens"], ["int8"]][i % 3], ks=(1, -1) if quick else (0, 1, 2, -1), trailing=(i % 2 == 0))
                seen = set()
                GG.exhaustive_inputs(g, 2, seen)
                GG.random_inputs(g, rng, 40 if quick else 150, 8, seen)
                GG.add_input(g, "a # b", seen) if False else None
                gs.append(g)
            # a grammar with a construct the library treats as a grammar bug (an alternative that can be accepted without consuming
            # input): every entry point must treat it the same way (all panic, or all return the same error)
            cap = lambda f, fk, kid: {"op": "cap", "f": f, "fk": fk, "kid": kid}
            gb = P.mk_grammar("bug0", [("P0", {"op": "seq", "kids": [GG.lit("("), {"op": "grp", "mode": "once", "kid": {"op": "alt", "kids": [{"op": "grp", "mode": "opt", "kid": cap("A", "string", GG.ref("Ident"))}, cap("B", "string", GG.ref("Int"))]}}, GG.lit(")")]},
                                        [P.F("A", "string"), P.F("B", "string")])], ks=(1, -1))
            seen = set()
            for s_ in ("( 1 )", "( a )", "( )", "( 1", "1"):
                GG.add_input(gb, s_, seen)
            gs.append(gb)
        byid = {g["id"]: g for g in gs}
        cp = os.path.join(wd, "cases.json")
        json.dump(gs, open(cp, "w"))
        # generated core lexer
        graw = os.path.join(wd, "core.json")
        gen_lex.write(graw, list("ab"), [{"id": "core", "rules": CORE_RULES}])
        gen = genlexer.build_generator(wd)
        vlib.vh(vhbin, ["gen-lexers", graw, gen, os.path.join(wd, "harness-src", "genlex")])
        vhgen = genlexer.build_with_generated(wd, v, pid, {"core": {"id": "core", "rules": CORE_RULES}})
        res = vlib.run_tlc(wd, "MC_Api", modules=["Meaning"], extra_files=[cp], timeout=3000, heap="20g")
        if not res.ok:
            raise Infra("MC_Api: %s" % (res.violation or res.error))
        v.add_tlc(res)
        spec = {}
        for f in vlib.parse_lines(res.lines, "API"):
            spec[(f[0], int(f[1]), int(f[2]))] = (f[3], "|".join(f[4:]))
        ncases = 0
        for variant in ("core", "generated", "plain", "upper", "generated-upper", "multi-upper"):
            outp = os.path.join(wd, "api-%s.txt" % variant)
            vlib.vh(vhgen, ["api-run", cp, variant], outfile=outp, timeout=3000)
            calls = {}
            for line in open(outp, errors="replace"):
                p = line.rstrip("\n").split("\t", 4)
                if len(p) != 5 or p[3] == "build":
                    continue
                calls.setdefault((p[0], int(p[1]), int(p[2])), {})[p[3]] = p[4]
            shown = 0
            pr = calls.pop(("parseable-root", 0, 0), None)
            if pr is not None:
                # a Parseable root consuming one token per call over "a b c": the caller's lexer advances token by token
                want = "a@cursor=2 b@cursor=4 c@cursor=6"
                got = pr.get("ParseFromLexer+AllowTrailing")
                if got != want:
                    v.violation("Parseable root type: repeated ParseFromLexer over `a b c` gives [%s], expected [%s]" % (got, want), {"property": pid, "kind": "api-parseable", "real": got, "expected": want})
            for key, eps in calls.items():
                ncases += 1
                if key[0] == "parseable-root-eps":
                    outs = {ep: eps[ep] for ep in PARSE_EPS if ep in eps}
                    want = ["ok a", "err", "err", "ok a"][key[2]]
                    if len(set(outs.values())) > 1 or not all(o.startswith(want) for o in outs.values()):
                        v.violation("a root grammar type implemented by user code (Parseable), input #%d: entry points give %s, expected %s" % (key[2], json.dumps(outs)[:400], want),
                                    {"property": pid, "kind": "api-parseable-root", "calls": eps})
                    continue
                if key[0] in ("deep", "history"):
                    outs = {ep: eps[ep] for ep in PARSE_EPS if ep in eps}
                    if len(set(outs.values())) > 1:
                        what = "a deeply nested input, with and without the Trace option" if key[0] == "deep" else "calls without options before and after a call with AllowTrailing(true) on the same parser"
                        v.violation("%s (#%d): entry points disagree: %s" % (what, key[2], json.dumps(outs)[:500]), {"property": pid, "kind": "api-" + key[0], "calls": eps})
                    continue
                if key[0] == "usererr":
                    # errors raised by user code (nested Parseable, token mapper): the same through every entry point
                    if len(set(eps.values())) > 1:
                        v.violation("errors from user code (%s), input #%d: entry points disagree: %s" % ("a token mapper configured" if key[1] else "nested Parseable", key[2], json.dumps(eps)[:600]),
                                    {"property": pid, "kind": "api-usererr", "calls": eps})
                    continue
                if key[0] in ("textcfg", "textdef"):
                    # static parser over a configured text/scanner lexer: relational checks only
                    outs = {ep: eps[ep] for ep in PARSE_EPS if ep in eps}
                    louts = {ep: eps[ep] for ep in LEX_EPS + ["pkg.Lex", "pkg.LexString", "pkg.LexBytes"] if ep in eps}
                    if len(set(outs.values())) > 1 or len(set(louts.values())) > 1:
                        v.violation("parser over a text/scanner lexer (%s), input #%d: entry points disagree: %s" % (key[0], key[2], json.dumps({**outs, **louts})[:500]),
                                    {"property": pid, "kind": "api-textcfg", "calls": eps})
                    continue
                g = byid[key[0]]
                if key[2] >= len(g["inputs"]):
                    # inputs beyond the case file (leading byte-order mark): relational checks only
                    outs = {ep: eps[ep] for ep in PARSE_EPS if ep in eps}
                    louts = {ep: eps[ep] for ep in ("Lex", "Lex(DataErrReader)", "Lex(named reader)") if ep in eps}
                    dl = {ep: eps[ep] for ep in ("def.Lex", "def.LexString", "def.LexBytes", "def.Lex(DataErrReader)", "def.Lex(part-read reader)") if ep in eps}
                    if len(set(outs.values())) > 1 or len(set(louts.values())) > 1 or len(set(dl.values())) > 1:
                        nb = min(key[2] - len(g["inputs"]), len(g["inputs"]) - 1)
                        v.violation("[%s lexer] grammar %s lookahead %d extra input #%d (BOM+%r or a very long token): entry points disagree: %s" % (variant, key[0], key[1], key[2] - len(g["inputs"]), g["inputs"][nb]["s"], json.dumps({**outs, **louts, **dl})[:500]),
                                    {"property": pid, "kind": "api-bom", "variant": variant, "calls": eps})
                    continue
                inp = g["inputs"][key[2]]["s"]
                bad = None
                outs = {ep: eps[ep] for ep in PARSE_EPS if ep in eps}
                if len(set(outs.values())) > 1:
                    ref = outs.get("ParseString")
                    other = next(ep for ep in outs if outs[ep] != ref)
                    bad = "ParseString gives %s but %s gives %s" % (ref[:120], other, outs[other][:120])
                louts = {ep: eps[ep] for ep in LEX_EPS if ep in eps}
                if not bad and variant in ("core", "generated", "plain") and len(set(louts.values())) > 1:
                    other = next(ep for ep in louts if louts[ep] != louts["Lex"])
                    bad = "Parser.Lex gives %s but %s gives %s" % (louts["Lex"][:100], other, louts[other][:100])
                pl = {ep: eps[ep] for ep in ("Lex", "Lex(DataErrReader)", "Lex(named reader)") if ep in eps}
                if not bad and len(set(pl.values())) > 1:
                    other = next(ep for ep in pl if pl[ep] != pl["Lex"])
                    bad = "Parser.Lex gives %s but %s gives %s" % (pl["Lex"][:100], other, pl[other][:100])
                if not bad and variant.endswith("upper"):
                    dl = {ep: eps[ep] for ep in ("def.Lex", "def.LexString", "def.LexBytes", "def.Lex(DataErrReader)", "def.Lex(part-read reader)") if ep in eps}
                    if len(set(dl.values())) > 1:
                        bad = "the definition's Lex/LexString/LexBytes disagree"
                s_after, s_out = spec.get(key, (None, None))
                if not bad and variant in ("core", "generated", "plain") and s_out not in (None, "bug", "skip"):
                    after = eps.get("ParseFromLexer+AllowTrailing")
                    if after is not None and s_after != "bug" and after != s_after:
                        bad = "after ParseFromLexer with trailing input allowed the caller's lexer is at [%s], specification [%s]" % (after, s_after)
                    ps = eps.get("ParseString", "")
                    if not bad and (ps.startswith("ok") != s_out.startswith("ok") or (ps.startswith("ok") and ps != s_out)):
                        log("MODEL-DRIFT: %s lookahead %d input %r: ParseString %s, Meaning %s (C01's business)" % (key[0], key[1], inp, ps[:100], s_out[:100])) if shown == 0 else None
                if bad:
                    shown += 1
                    if shown <= 3:
                        v.violation("[%s lexer] grammar %s lookahead %d input %r: %s" % (variant, key[0], key[1], inp, bad),
                                    {"property": pid, "kind": "api", "variant": variant, "case": P.single_case(g, key), "readable": P.describe(g, key), "calls": eps})
                    else:
                        v.violations.append(("(suppressed duplicate) " + bad[:80], {"property": pid, "kind": "api", "variant": variant}))
        v.validated(ncases)
        k0 = next(iter(spec))
        v.sample({"case": P.describe(byid[k0[0]], k0), "specification": {"after_ParseFromLexer": spec[k0][0], "every_entry_point": spec[k0][1][:300]}})
        v.notes["family"] = "%d seeded F_core grammars x exhaustive short + sampled inputs x lookaheads; lexer variants: stateful core, generated core (compiled `participle gen lexer` output), each with and without Upper(Ident), the core definition with three catch-all mappers + Upper(Ident) + mappers for Int and Punct, and the core definition behind a wrapper that offers only Lex(filename, reader); entry points: %s; %s" % (len(gs), ", ".join(PARSE_EPS + ["ParseFromLexer+AllowTrailing"]), ", ".join(LEX_EPS))
        v.assumptions += ["the text/scanner default lexer's entry points are exercised by C04/C06/C18, not here", "custom Parseable root types are not part of the family"]
    return v.finish()
