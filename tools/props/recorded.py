"""Trace validation of the repository's OWN test-suite (binding B2, source S3): the suite is run with the verif hooks on and
every parse it performs is recorded (grammar node graph as the library built it, token stream, options, outcome); each
recorded parse whose grammar lies in the modelled fragment is then judged by Meaning: it must have succeeded exactly when the
documented meaning accepts the token stream."""
import json, os, subprocess
import vlib
from vlib import Infra, log


def record(wd, packages=("./...",)):
    rec = os.path.join(wd, "recorded.ndjson")
    env = dict(vlib.GOENV, VERIF_PARSE_RECORD=rec)
    p = subprocess.run(["go", "test", "-tags", "verif", "-vet=off", "-count=1"] + list(packages), cwd=vlib.REPO, env=env, stdout=subprocess.PIPE, stderr=subprocess.STDOUT, timeout=1800)
    if p.returncode != 0:
        # the suite itself fails with the hooks on: report, the recorded prefix is still judged
        log("note: the repository's test-suite fails under -tags verif: %s" % p.stdout.decode("utf8", "replace")[-400:].replace("\n", " "))
    recs = []
    if os.path.exists(rec):
        for line in open(rec, errors="replace"):
            try:
                recs.append(json.loads(line))
            except ValueError:
                pass
    return recs, p.returncode


def check(v, wd, pid):
    from props import parser as P
    recs, rc = record(wd)
    # the example grammars' own tests (separate module; packages whose dependencies are not available offline are skipped)
    ex = os.path.join(vlib.REPO, "_examples")
    if os.path.isdir(ex):
        rec2 = os.path.join(wd, "recorded-examples.ndjson")
        subprocess.run(["go", "test", "-tags", "verif", "-vet=off", "-count=1", "./..."], cwd=ex, env=dict(vlib.GOENV, VERIF_PARSE_RECORD=rec2), stdout=subprocess.PIPE, stderr=subprocess.STDOUT, timeout=1800)
        if os.path.exists(rec2):
            for line in open(rec2, errors="replace"):
                try:
                    recs.append(json.loads(line))
                except ValueError:
                    pass
    if len(recs) < 50:
        raise Infra("only %d parses recorded from the repository's test-suite" % len(recs))
    cases, meta, seen = [], {}, set()
    skipped = {}
    for r in recs:
        g = r["grammar"]
        if g.get("unsupported"):
            skipped[g["unsupported"].split(" (")[0]] = skipped.get(g["unsupported"].split(" (")[0], 0) + 1
            continue
        key = json.dumps([g["prods"], g["unions"], r["toks"], r["k"], r["trailing"], sorted(r["citypes"])], sort_keys=True)
        if key in seen:
            continue
        seen.add(key)
        # conversion table for the numeric fields: every token text and every join of up to 3 consecutive non-elided tokens
        kinds = sorted({f["kind"].rstrip("s") if f["kind"].rstrip("s") in INT_BITS or f["kind"].rstrip("s") in ("float32", "float64") else "" for p_ in g["prods"] for f in p_["fields"]} - {""})
        conv = {}
        undecided = False
        if kinds:
            vals = [t["v"] for t in r["toks"] if not t["el"] and t["t"] != "EOF"]
            texts = set(vals)
            for i in range(len(vals)):
                for n_ in (2, 3):
                    if i + n_ <= len(vals):
                        texts.add("".join(vals[i:i + n_]))
            for k_ in kinds:
                conv[k_] = {}
                for tx in texts:
                    c_ = py_conv(k_, tx)
                    if c_ is not None:
                        conv[k_][tx] = c_
        cid = "r%d" % len(cases)
        cases.append({"id": cid, "prods": g["prods"], "unions": g["unions"], "ci": bool(r["citypes"]), "citypes": sorted(r["citypes"]), "trailing": r["trailing"],
                      "maxiter": g.get("maxiter", 1000000), "conv": conv, "ks": [r["k"]], "inputs": [{"s": "", "toks": r["toks"]}]})
        meta[cid] = r
    cp = os.path.join(wd, "recorded-cases.json")
    json.dump(cases, open(cp, "w"))
    d = os.path.join(wd, "recorded")
    os.makedirs(d, exist_ok=True)
    cp2 = os.path.join(d, "cases.json")
    json.dump(cases, open(cp2, "w"))
    res, exp = P.run_spec(wd, cp2, "MC_Meaning_C01.cfg")
    v.add_tlc(res)
    n = bad = 0
    for c in cases:
        e = exp.get((c["id"], c["ks"][0], 0))
        r = meta[c["id"]]
        if e is None:
            raise Infra("no specification outcome for recorded parse %s" % c["id"])
        if e in ("bug", "skip"):
            continue
        n += 1
        if e.startswith("ok") != bool(r["ok"]):
            bad += 1
            if bad <= 3:
                toks = " ".join(t["v"] for t in r["toks"] if not t["el"])
                v.violation("a parse of the repository's test-suite (grammar %s, tokens `%s`, lookahead %d): the library %s but the meaning %s" % (
                    c["prods"][0]["name"], toks[:120], r["k"], "succeeded" if r["ok"] else "failed with: " + r["err"][:120], "accepts" if e.startswith("ok") else "rejects"),
                    {"property": pid, "kind": "recorded", "case": c, "real_ok": r["ok"], "real_err": r["err"], "spec": e})
    v.validated(n)
    v.notes["recorded_test_suite_parses"] = {"recorded": len(recs), "distinct_in_modelled_fragment": len(cases), "judged": n, "outside_fragment": skipped}
    return n


# ---- conversion oracle for recorded grammars (emulates strconv.ParseInt/ParseUint base 0 and ParseFloat acceptance) ------
INT_BITS = {"int8": 8, "int16": 16, "int32": 32, "int64": 64, "int": 64, "uint8": 8, "uint16": 16, "uint32": 32, "uint64": 64, "uint": 64}


def py_conv(kind, text):
    """'fail' | canonical decimal string | None (cannot decide -> the case is skipped)"""
    import re
    if kind in INT_BITS:
        signed = not kind.startswith("u")
        t = text
        neg = False
        if t[:1] in "+-":
            if not signed:
                return "fail"
            neg = t[0] == "-"
            t = t[1:]
        if not t:
            return "fail"
        base = 10
        body = t
        low = t.lower()
        if low.startswith("0x"):
            base, body = 16, t[2:]
        elif low.startswith("0b"):
            base, body = 2, t[2:]
        elif low.startswith("0o"):
            base, body = 8, t[2:]
        elif t.startswith("0") and len(t) > 1:
            base, body = 8, t[1:]
        if "_" in t:
            return None  # underscore rules: leave to C17
        if not body or not re.fullmatch({16: "[0-9a-fA-F]+", 10: "[0-9]+", 8: "[0-7]+", 2: "[01]+"}[base], body):
            return "fail"
        n = int(body, base)
        if neg:
            n = -n
        bits = INT_BITS[kind]
        lo, hi = (-(1 << (bits - 1)), (1 << (bits - 1)) - 1) if signed else (0, (1 << bits) - 1)
        return str(n) if lo <= n <= hi else "fail"
    if kind in ("float32", "float64"):
        if re.fullmatch(r"[-+]?(\d+\.?\d*|\.\d+)([eE][-+]?\d+)?", text):
            try:
                f = float(text)
            except ValueError:
                return "fail"
            if f in (float("inf"), float("-inf")):
                return "fail"
            if kind == "float32" and abs(f) > 3.4028235677973366e38:
                return "fail"
            return repr(f)
        if re.fullmatch(r"[A-Za-z_(){}\[\],;:!?*/=<>\"' ]+", text) and text.lower() not in ("inf", "infinity", "nan", "+inf", "-inf"):
            return "fail"
        return None
    return None
