"""C19 - Build always returns a parser or an error.  TagSyntax.tla (the documented tag grammar as recursive descent over an
abstract token alphabet, with the three-valued class MustBuild / MustError / Either) is evaluated by TLC on (a) every token
soup up to the bound and (b) every single-token insertion, deletion and replacement applied to valid tags; the harness puts
the corresponding tag text on dynamic struct types (whole-tag form, parser:"..." form, split over two fields, struct-typed
field for @@) and calls the real Build under recover + watchdog (B1).  (c) struct shapes (maps, channels, funcs, anonymous,
recursive, embedded, unexported, untagged ...) must build or fail without panicking."""
import json, os, subprocess, random
import vlib
from vlib import Infra, Verdict, log

ALPHA = ["@", "Ident", "Foo", "Lit", "(", ")", "[", "]", "{", "}", "|", "?", "*", "+", "!", "~", ":", "=", "Bad"]


def gen_valid(rng, depth=3):
    """a random derivation of the documented tag grammar over the abstract alphabet (no unknown types)"""
    def disj(d):
        out = seq(d)
        for _ in range(rng.choice([0, 0, 1, 2])):
            out += ["|"] + seq(d)
        return out

    def seq(d):
        out = []
        for _ in range(rng.choice([1, 1, 2, 3])):
            out += term(d)
        return out

    def term(d):
        a = atom(d)
        if rng.random() < 0.3:
            a = a + [rng.choice(["?", "*", "+", "!"])]
        return a

    def atom(d):
        r = rng.random()
        if d <= 0 or r < 0.3:
            return rng.choice([["Ident"], ["Lit"], ["Lit", ":", "Ident"]])
        if r < 0.5:
            return ["@"] + rng.choice([["Ident"], ["Lit"], ["("] + disj(d - 1) + [")"]])
        if r < 0.6:
            return ["~"] + atom(d - 1)
        if r < 0.75:
            return ["("] + disj(d - 1) + [")"]
        if r < 0.85:
            return ["(", "?", rng.choice(["=", "!"])] + disj(d - 1) + [")"]
        if r < 0.92:
            return ["["] + disj(d - 1) + ["]"]
        return ["{"] + disj(d - 1) + ["}"]
    return disj(depth)


def edits(toks):
    out = []
    for i in range(len(toks)):
        out.append(toks[:i] + toks[i + 1:])
        for a in ALPHA:
            if a != toks[i]:
                out.append(toks[:i] + [a] + toks[i + 1:])
    for i in range(len(toks) + 1):
        for a in ALPHA:
            out.append(toks[:i] + [a] + toks[i:])
    return out


def run_lines(vhbin, wd, lines, v, pid, label):
    lf = os.path.join(wd, label + ".txt")
    open(lf, "w").write("\n".join(lines) + "\n")
    out = vlib.vh(vhbin, ["tag-run", lf], timeout=3000)
    counts, done = {}, None
    seen = set()
    for line in out.splitlines():
        p = line.split("\t")
        if p[0] == "MISMATCH":
            kind = p[5].split(" ")[0]
            key = (p[4], kind, p[2] if kind != "panic" else "")
            if len([k for k in seen if k[:2] == key[:2]]) >= 3:
                continue
            seen.add(key + (p[3],))
            v.violation("%s tag `%s` (%s form): class %s but Build gives %s" % (label, p[3], p[2], p[4], p[5][:120]),
                        {"property": pid, "kind": "tag", "tag": p[3], "form": p[2], "class": p[4], "real": p[5]})
        elif p[0] == "COUNT":
            counts[p[1]] = int(p[2])
        elif p[0] == "DONE":
            done = int(p[1])
    if done is None:
        raise Infra("tag-run did not finish")
    return counts, done


def run(pid, tier, args):
    v = Verdict(pid, tier)
    quick = tier == "quick"
    with vlib.workdir() as wd:
        vhbin = vlib.build_harness(wd)
        if args.replay:
            r = json.load(open(args.replay))
            if r.get("kind") != "tag":
                raise Infra("replay kind %s: re-run the check" % r.get("kind"))
            inv = {'"a"': "Lit", "|": "OR", "'": "Bad", "`": "Bad", '"abc': "Bad", "/*": "Bad", "c": "", "\\": "Bad", "'ab'": "Bad"}
            toks = [inv.get(t, t) for t in r["tag"].split(" ")]
            counts, n = run_lines(vhbin, wd, ["r|%s|%s" % (" ".join(toks), r["class"])], v, pid, "replay")
            return v.finish()
        # (a) soups
        res = vlib.run_tlc(wd, "MC_TagSyntax", modules=["TagSyntax"], consts={"MaxLen": 3 if quick else 4, "Mode": '"soup"'}, timeout=3000)
        if not res.ok:
            raise Infra("MC_TagSyntax(soup): %s" % (res.violation or res.error))
        v.add_tlc(res)
        lines = ["|".join(f) for f in vlib.parse_lines(res.lines, "CLASS")]
        counts, n1 = run_lines(vhbin, wd, lines, v, pid, "soup")
        # (b) single-token edits of valid tags
        rng = random.Random(vlib.seed() * 131 + 19)
        cases, seen = [], set()
        nvalid = 30 if quick else 400
        valids = []
        while len(valids) < nvalid:
            t = gen_valid(rng)
            if 3 <= len(t) <= (10 if quick else 14) and tuple(t) not in seen:
                seen.add(tuple(t))
                valids.append(t)
        for vi, t in enumerate(valids):
            cases.append({"id": "v%d" % vi, "toks": t})
            for ei, e in enumerate(edits(t)):
                if e and tuple(e) not in seen:
                    seen.add(tuple(e))
                    cases.append({"id": "v%de%d" % (vi, ei), "toks": e})
        # curated token lists beyond the soup bound: the lookahead spelling "? =" / "? !" belongs to "(" only
        for ci, t in enumerate([["[", "?", "=", "Ident", "]"], ["[", "?", "!", "Ident", "]"], ["{", "?", "=", "Ident", "}"], ["{", "?", "!", "Lit", "}"],
                                ["(", "?", "=", "Ident", ")", "Ident"], ["(", "?", "!", "Lit", ")", "@", "Ident"], ["@", "[", "?", "=", "Ident", "]"],
                                ["(", "?", "=", "Ident", "]"], ["[", "?", "=", "Ident", ")"], ["(", "?", "Ident", ")"], ["(", "?", "=", ")"]]):
            if tuple(t) not in seen:
                seen.add(tuple(t))
                cases.append({"id": "c%d" % ci, "toks": t})
        cf = os.path.join(wd, "tagcases.json")
        json.dump(cases, open(cf, "w"))
        res2 = vlib.run_tlc(wd, "MC_TagSyntax", modules=["TagSyntax"], consts={"Mode": '"cases"'}, extra_files=[cf], timeout=3000)
        if not res2.ok:
            raise Infra("MC_TagSyntax(cases): %s" % (res2.violation or res2.error))
        v.add_tlc(res2)
        lines2 = ["|".join(f) for f in vlib.parse_lines(res2.lines, "CLASS")]
        cls = {l.split("|")[0]: l.split("|")[2] for l in lines2}
        for vi in range(len(valids)):
            if cls.get("v%d" % vi) not in ("MustBuild", "Either"):
                raise Infra("generator/specification disagreement: valid tag %s classified %s" % (valids[vi], cls.get("v%d" % vi)))
        counts2, n2 = run_lines(vhbin, wd, lines2, v, pid, "edit")
        v.validated(n1 + n2)
        for need in ("MustBuild/ok", "MustError/err", "Either/ok", "Either/err"):
            if not (counts.get(need, 0) + counts2.get(need, 0)):
                raise Infra("vacuity: no %s case" % need)
        # (c) struct shapes
        # (a fatal crash - e.g. a stack overflow in Build - kills the process: the shape that was running is reported and the
        # command is run again without it)
        out, skip = "", []
        for _attempt in range(8):
            pr = subprocess.run([vhbin, "shape-run"], stdout=subprocess.PIPE, stderr=subprocess.PIPE, env=dict(vlib.GOENV, VH_SKIP=",".join(skip)), timeout=900)
            so = pr.stdout.decode("utf8", "replace")
            out = "\n".join(l for l in so.splitlines() if not l.startswith("BEGIN\t"))
            if pr.returncode == 0:
                break
            begun = [l.split("\t")[1] for l in so.splitlines() if l.startswith("BEGIN\t")]
            done_ = {l.split("\t")[0] for l in so.splitlines() if not l.startswith("BEGIN\t") and "\t" in l}
            crashed = [b for b in begun if b not in done_]
            if not crashed:
                raise Infra("shape-run failed: %s" % pr.stderr.decode("utf8", "replace")[-500:])
            skip.append(crashed[-1])
            v.violation("struct shape %s: Build kills the process (%s)" % (crashed[-1], pr.stderr.decode("utf8", "replace")[:160].replace("\n", " ")),
                        {"property": pid, "kind": "shape", "shape": crashed[-1], "real": "fatal crash"})
        must_err = {"no-tags", "empty", "unknown-type", "nested-no-tags", "anon-leftrec", "blank-tag-then-unknown-token", "blank-tag-then-unclosed-group", "ptrptr-struct-scalar", "embedded-pointer-bad-tag", "recursive-stray-token", "mutual-recursive-stray-token"}
        for line in out.splitlines():
            name, res_ = line.split("\t")
            if res_.startswith("panic") or res_ == "hang" or (name in must_err and res_ != "err") or (name in ("recursive", "embedded", "anon-struct", "anon-rec-string", "supported-targets", "excluded-fields", "embedded-deep", "embedded-3-levels", "embedded-6-levels", "blank-tags-then-fields", "ptr-to-slice-recursive", "ptr4-struct", "embedded-foreign-tag", "union-nonstruct-parseable", "nonstruct-parseable-field", "union-member-with-custom-field", "negation-in-struct-field-tag", "ladder-40") and res_ != "ok"):
                v.violation("struct shape %s: Build gives %s" % (name, res_), {"property": pid, "kind": "shape", "shape": name, "real": res_})
            v.validated(1)
        v.sample({"soup": lines[len(lines) // 2], "edit_case": lines2[len(lines2) // 2], "format": "id|abstract tokens|class"})
        v.notes["outcomes_by_class"] = {"soups": counts, "edits": counts2}
        v.notes["family"] = "all token soups <= %d over the 18-symbol tag alphabet (whole-tag, parser:\"...\", split and struct-field forms); %d valid tags x every single-token insertion/deletion/replacement (%d cases); 45 struct shapes (incl. four whose productions form cycles below the root, every documented capture target under value / pointer / slice / slice-of-pointer wrappers, and excluded fields)" % (3 if quick else 4, nvalid, len(cases))
        v.cov["exhaustive"] = True
        v.assumptions += ["left recursion (also a must-error cause) is decided by C08", "MustBuild is demanded for scalar string fields; @@ is exercised on a struct-typed field"]
    return v.finish()
