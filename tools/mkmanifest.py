#!/usr/bin/env python3
"""Writes /verif/MANIFEST.json from the table below (single source; validated against the schema)."""
import json, os, sys

VERIF = os.path.dirname(os.path.dirname(os.path.abspath(__file__)))

MC = "model_checking"
CHECKS = {
    "C12": dict(
        technique="TLA+ spec PeekingLexer checked exhaustively by TLC; every explored transition replayed into the real lexer.PeekingLexer; recorded random traces validated by Trace_PeekingLexer; cursor invariant shown inductive by Apalache for longer symbolic streams",
        text="TLC explores every stream up to the bound, every operation with every argument in every reachable state, checking the cursor invariants and action properties of the specification; each explored transition is replayed on the real object and all observations compared (transition coverage), and random traces of the real object are accepted step by step by the trace specification. Exhaustive within the bound on stream length; beyond it seeded traces, and an Apalache check that the cursor invariant is inductive (loops abstracted by their postconditions) for all streams up to 10/14 tokens with symbolic contents.",
        note="Trusted: TLC, the harness's observation of token identity through distinct Value/Pos; match predicates limited to 4 subsets of 3 token kinds.",
        ref="4/C12, 3.2"),
    "C03": dict(
        technique="TLA+ spec StatefulLexer (+Regex, Position) model-checked by TLC over a family of rule maps x all inputs up to a bound; every run replayed into lexer.New(rules); Regex.tla self-checked against regexp",
        text="One NextCall action per call of Next(); TLC enumerates every rule map of the family (curated maps per mechanism + seeded random) with every input up to the bound, evaluates the stream invariants in every state and prints the stream the rules define; each run is replayed on the real lexer and compared token by token (names, values, offsets, positions, error position), and the symbol table is compared with the specification's. Exhaustive over inputs within the bound for each map; the family of maps is a sample.",
        note="Trusted: regexp/syntax Parse+Simplify for the pattern trees; Regex.tla's agreement with regexp is checked for every pattern of the run on all texts up to the bound (disagreement = exit 2). Underflow maps are left to C07.",
        ref="4/C03, 3.4, 3.5"),
    "C07": dict(
        technique="TLA+ spec StatefulLexer model-checked by TLC incl. underflow / empty-match / missing-group maps and extra calls after EOF or error; liveness (termination) under weak fairness; every run replayed into the real lexer under recover + watchdog",
        text="Same state machine as C03, explored on the maps C03 excludes too; invariants StackNonEmpty, NoPanic, FinishesWithinInput, action properties EofStutters and Progress, and the temporal property Terminates are checked by TLC; every run (plus further calls after termination) is executed on the real lexer, where any panic, hang, empty token, or moving EOF is a violation.",
        note="Trusted: as C03. Generated lexers are exercised for the same clauses inside the C05 check.",
        ref="4/C07, 3.5"),
    "C04": dict(
        technique="TLA+ spec Position (Advance folds to PosOf; TLC exhaustive, every step replayed on Position.Advance) and LexStream trace specification validating token events recorded from real stateful, simple and text/scanner lexers",
        text="TLC proves on all inputs up to the bound and all span splittings that the incremental position update equals the position defined from the input alone, and each explored step is replayed on the real Position.Advance; token events of real lexers on all inputs up to the bound are accepted step by step by Trace_LexStream (value = input bytes at offset, increasing non-overlapping offsets, one EOF at the end, line/column = PosOf(offset), filename, lossless concatenation when nothing is dropped).",
        note="Only successful lexes are judged. Generated lexers' streams are judged by the same trace specification inside C05.",
        ref="4/C04, 3.3, 3.7"),
    "C05": dict(
        technique="TLA+ spec MC_GenLexer (StatefulLexer with the possessive matcher in lock step with the backtracking matcher; tolerated set computed from Regex.tla) model-checked by TLC; real `participle gen lexer` output compiled and compared with the real runtime lexer on every non-tolerated run; generated lexers' token events validated by Trace_LexStream",
        text="TLC runs the generated-lexer model and the runtime-lexer model in lock step for every definition of the supported-class family and every input up to the bound, checks that they coincide until the first step at which some rule matches differently under possessive and backtracking semantics (the documented tolerated difference), and prints each run; the harness generates, compiles (a compile failure is a violation) and runs the real generated lexers: symbol table, tokens, positions, elision, EOF and error position must equal the real runtime lexer's on every non-tolerated run; no panic on any run.",
        note="'Compiles' is decided by go build. Runtime lexer bound to the specification by C03. Exhaustive over inputs within the bound; definitions are curated operator-boundary cases plus seeded random ones.",
        ref="4/C05, 3.4, 3.6"),
    "C01": dict(
        technique="TLA+ spec Meaning (big-step meaning of the tag language with the context protocol's bookkeeping) evaluated by TLC over a seeded grammar family x exhaustive short + sampled inputs x lookaheads; every case replayed into the real parser (reflect.StructOf grammars)",
        text="TLC computes, for every grammar of the family, every input and every lookahead, the outcome the documented meaning defines (success/failure and the canonical AST incl. Token/[]Token fields by raw token index); the harness builds the grammar with the real Build, parses the input with ParseString and compares. Exhaustive over token strings up to the bound per grammar plus sampled longer inputs; the grammar family is a seeded sample. The small-step ParserMachine is refined to Meaning by TLC (thorough).",
        note="Trusted: the generator's rendering of abstract trees to tag text (cross-checked by the equality itself), dynamic anonymous struct types. Grammar-bug constructs excluded. Error identity is not compared.",
        ref="4/C01, 3.10, 3.11"),
    "C02": dict(
        technique="TLA+ spec Meaning with write log threaded through abandoned attempts (theorem NoDeadCapture checked by TLC) over the leak-schema grammar family; ASTs replayed against the real parser",
        text="For every choice point kind x nesting variant x capture kind of the leak schema, TLC checks that no write performed inside an abandoned attempt targets a struct value that survives it, and computes the AST of the accepted derivation; the real AST must be identical field by field (a field no accepted capture wrote prints as zero).",
        note="As C01. Verdict only on cases where both the meaning and the code succeed (success/failure agreement is C01's).",
        ref="4/C02, 3.10"),
    "C10": dict(
        technique="TLA+ spec Meaning: theorem ElisionIndependent checked by TLC on the family; real outcomes of all re-spacings of each base token string compared with each other and with the meaning",
        text="TLC checks on the specification that deleting every elided token never changes the outcome, for every grammar/input/lookahead of the family; on the real parser every group of inputs with identical non-elided tokens (spaces/comments inserted in every gap, at start and end) must give identical outcomes.",
        note="Grammars of the family do not name elided types and carry no raw-index fields. Verdict from the relation on real outcomes; disagreement with Meaning that keeps the relation is reported as MODEL-DRIFT (exit 0).",
        ref="4/C10"),
    "C11": dict(
        technique="TLA+ spec Meaning: theorem NodeRunsWellFormed checked by TLC; Pos/EndPos/Tokens of every node replayed against the real parser",
        text="Every production of the family carries Pos, EndPos and Tokens; TLC checks nesting, disjoint ordered siblings, Pos within the run and root-run end on the meaning, and computes each node's run; the real AST's Pos/EndPos/Tokens (mapped to raw token indices through Parser.Lex) must be identical.",
        note="As C01; verdict on cases where both succeed.",
        ref="4/C11"),
    "C13": dict(
        technique="TLA+ spec Meaning: theorem LookaheadMonotone checked by TLC on grammars without ~ and lookahead groups; relation checked on the real outcomes for all pairs k < k'",
        text="TLC checks on the specification, for every grammar/input of the family and all pairs of lookaheads in {0,1,2,3,4,50,-1}, that a success at k is reproduced identically at every stronger k'; the same relation is demanded of the real parser's outcomes.",
        note="Verdict from the relation on real outcomes; disagreement with Meaning is MODEL-DRIFT.",
        ref="4/C13"),
    "C17": dict(
        technique="TLA+ spec Conv (strconv integer syntax and range as digit-sequence recogniser) evaluated by TLC over boundary texts of every integer kind; each text captured into real fields (plain/pointer/named/slice, single or joined tokens) and compared; floats against a logged strconv.ParseFloat oracle",
        text="For every integer kind and every boundary text (max, max+1, min, min-1 in bases 10/16/8/2, prefixes, signs, underscores valid and invalid, leading zeros) TLC decides acceptance and the normalised value from Conv.tla; the real parser must accept exactly those, store exactly that value, and otherwise fail with a participle.Error located at the first captured token that names the conversion. Conv.tla itself is cross-checked against strconv on every case (disagreement = infrastructure failure).",
        note="Float conversion exactness is NOT decided by the specification (TLC has no floats): strconv.ParseFloat with the declared kind's bit size is a logged oracle. The capture protocol around a failing conversion is decided by Meaning (C01/C02 families with int8 fields).",
        ref="4/C17, 3.10, 8"),
    "C06": dict(
        technique="TLA+ spec Meaning decides success/failure on the real token streams of every byte string up to a bound for a family of grammars; harness evaluates the error well-formedness predicate, panics and hangs; example grammars under seeded mutation; deep/long inputs in stack-limited child processes",
        text="Every byte string up to the bound over an alphabet with one representative per byte class is lexed by the real lexer; TLC evaluates Meaning on the resulting token stream and the real parse must succeed exactly when the meaning does, never panic or hang, and return errors satisfying ErrOK (participle.Error, filename, offset in bounds, line/column consistent, unexpected token present in the stream, text = position + message, nil AST on lexing failure, partial AST on parse failure). Realistic grammars (JSON, expression, INI, stateful interpolation) are driven with seeded mutations and with nested (300+) and flat (20000+) inputs in child processes under a stack limit.",
        note="Long/deep inputs are executed on the real code only (TLC does not re-evaluate them). Error identity is not judged. ErrOK is computed by the harness from the public error API.",
        ref="4/C06"),
    "C19": dict(
        technique="TLA+ spec TagSyntax (documented tag grammar as recursive descent, three-valued class) evaluated by TLC on all token soups up to a bound and on every single-token edit of valid tags; real Build called on dynamic struct types carrying the tag text, and on a set of struct shapes, under recover + watchdog",
        text="TLC enumerates every sequence of tag tokens up to the bound over the 18-symbol alphabet and every insertion/deletion/replacement of one token in seeded valid tags, and classifies each as MustBuild, MustError (unknown token type, unclosed group or lookahead, modifier/capture/negation applied to nothing, empty alternative) or Either; Build must never panic or hang, must return an error for MustError and a parser for MustBuild, in the whole-tag, parser:\"...\", two-field and struct-field forms. Exhaustive over soups within the bound.",
        note="Left recursion (also must-error) is decided by C08. Struct shapes are a fixed list of 41 types (a fatal crash of Build is attributed to the shape that was running). The tag lexer (text/scanner) is exercised only through the alphabet's concrete spellings.",
        ref="4/C19, 3.9"),
    "C08": dict(
        technique="TLA+ spec Grammar (Nullable, LeftCalls, LeftRecursive) evaluated by TLC over the placement family F_lr; real Build verdict compared; accepted grammars parsed on all short inputs in a stack-limited child process",
        text="For every grammar of F_lr (1-3 mutually referring productions and a union; the reference placed at the head, in later alternatives, after optional/starred/lookahead/nullable prefixes, inside groups, captures and lookahead groups, after consuming prefixes, after empty literals) TLC decides LeftRecursive; Build must return an error exactly for those. Every accepted grammar is then parsed on all inputs up to length 3 under a 64 MiB stack limit: a crash is the consequence clause failing.",
        note="Production references go through one-member unions because dynamic struct types cannot refer to themselves directly; hand-written Go grammars with direct pointer / slice recursion, cyclic nullability and same-named types are described in the node algebra and judged by the same specification.",
        ref="4/C08, 3.8"),
    "C14": dict(
        technique="TLA+ spec Ebnf (EbnfOf, Norm) evaluated by TLC against the parsed output of the real Parser.String() for grammars compiled as named Go types; every clause (parseable, root first, defined exactly once, references defined, structure up to redundant parentheses, print-parse-print) decided in MC_Ebnf",
        text="Grammars (curated nestings of every operator + seeded F_core) are generated as named Go struct types and compiled; the real String() text is parsed with the ebnf package and its tree handed to TLC, which compares its normal form with the normal form of the abstract EBNF the specification derives from the grammar, and checks production order/uniqueness and the round-trip flag.",
        note="The ebnf package's parser is trusted to read the text. Anonymous/embedded struct types are covered by C19's struct shapes (String() must not panic).",
        ref="4/C14, 3.12"),
    "C18": dict(
        technique="TLA+ spec Quoting (Quote/UnquoteIntended with inversion theorems; mapper pipeline CallLog with SeesExactlyOnce) model-checked by TLC over all strings and streams up to a bound; every case replayed into real parsers",
        text="TLC checks the inversion theorems for every string up to the bound and prints the expected result of Unquote for every literal form (strconv.Quote output, single-quoted, back-quoted, arbitrary quoted bodies with invalid escapes); the harness parses each literal with Unquote on the text/scanner lexer and on a stateful lexer and compares value, error presence and error position. For the mapper pipeline TLC enumerates every stream up to the bound and every choice of three mapper selections, checks exactly-once, and the recorded calls of real Map functions (ParseString, ParseBytes, Lex) must equal the specified call log; Upper must upper-case exactly the selected types and leave positions untouched.",
        note="Alphabet has one representative per character class. Quoting.tla's Quote is self-checked against strconv.Quote.",
        ref="4/C18, 3.13"),
    "C15": dict(
        technique="TLA+ spec MC_Api (Meaning as the single value of every entry point; lexer state after ParseFromLexer) evaluated by TLC; all entry points and observational options exercised on real parsers over stateful, generated and mapped lexers and compared",
        text="For every grammar/input/lookahead of the family TLC gives the one outcome every entry point must return and the state in which ParseFromLexer with trailing input allowed must leave the caller's lexer. The harness calls Parse(reader), ParseString, ParseBytes, ParseFromLexer over Parser.Lex's tokens, each with and without Trace, Parser.Lex and the definition's Lex/LexString/LexBytes, on parsers over the stateful core lexer, the compiled generated core lexer and with an Upper mapper: all ASTs and error texts of a case must be identical, token streams identical, the cursor equal to the specification's; a Parseable root type is driven token by token through ParseFromLexer.",
        note="Verdict from equality among the real entry points and from the specification's cursor; disagreement between ParseString and Meaning is C01's (MODEL-DRIFT). Text/scanner lexer entry points are exercised by C04/C06/C18.",
        ref="4/C15, 3.14"),
    "C09": dict(
        technique="TLA+ spec Concurrency (shared back-reference cache with separately enabled load/store steps) model-checked by TLC over all interleavings of 2-3 lexers and histories; every interleaving replayed into real lexers through gate hooks; sequential history-independence test; 16-goroutine stress under the Go race detector",
        text="TLC checks ResultsSequential, CacheCoherent, KeyInjective and termination for every interleaving of cache loads and stores of 2 (thorough: 3) concurrent lexing calls after every earlier history, including groups containing the key separator; each completed interleaving is replayed by a scheduler that parks the real goroutines at the two gate hooks of lexer.BackrefRegex and releases them in the specified order, and every call's token stream must equal the same call on a fresh definition. A free-running stress (shared example parsers, back-reference definitions, generated definition, ebnf package parser, Parser.String) compares every result with its sequential reference under -race.",
        note="Data-race freedom is a memory-model property outside TLA+: it is decided by the race detector on these runs. Only the back-reference cache is modelled as shared state.",
        ref="4/C09, 3.15"),
    "C16": dict(
        technique="TLA+ spec StatefulLexer (Expand, Symbols, RoundTripStable invariant) checked by TLC; marshalled documents compared with the specification's serialised form; MC_StatefulLexer expectations replayed against definitions rebuilt from both JSON routes",
        text="TLC checks that include expansion is idempotent and the symbol table stable when expanded rules are fed back, and prints the serialised form and the expected streams; the harness compares json.Marshal(def) and json.Marshal(def.Rules()) with that form (order, byte-exact names and patterns, action kinds and targets), and replays all inputs up to the bound on lexer.New(unmarshal(...)) for both routes, comparing streams and symbol tables with the original.",
        note="Trusted: encoding/json for decoding the documents; pattern trees as in C03.",
        ref="4/C16, 3.5"),
}

NOT_YET = {}


def main():
    props = [json.loads(l) for l in open(os.path.join(VERIF, "properties.jsonl"))]
    checks, na = [], []
    for p in props:
        pid = p["id"]
        if pid in CHECKS:
            c = CHECKS[pid]
            checks.append({
                "property_id": pid,
                "quick_cmd": "./check %s --tier quick" % pid,
                "thorough_cmd": "./check %s --tier thorough" % pid,
                "evidence_file": "/verif/evidence/%s.json" % pid,
                "replay_cmd_template": "./check %s --replay {path}" % pid,
                "engine": "tlc+vh",
                "level_claimed": {"category": c.get("level", MC), "text": c["text"], "design_ref": "DESIGN.md section " + c["ref"]},
                "level_note": c["note"] + " The composition of the check as built (specification part and real-code supplements) is tabulated in DESIGN.md 11.12; the seeded changes it detects are listed in SEEDED.md.",
                "technique": c["technique"],
            })
        else:
            na.append({"property_id": pid, "reason": NOT_YET.get(pid, "check not built yet in this revision (planned: TLA+ specification + TLC + conformance replay, see DESIGN.md section 4)")})
    m = {
        "version": 1,
        "setup_cmd": "./tools/setup.sh",
        "hooks": {
            "guard": "verif",
            "enable": "go build -tags verif (harness go.mod: replace github.com/alecthomas/participle/v2 => /repo; GOFLAGS=-mod=mod GOPROXY=off)",
            "baseline_off_cmd": "for m in . ./cmd/participle; do (cd /repo/$m && GOFLAGS=-mod=mod GOPROXY=off GOTOOLCHAIN=local go test -vet=off -count=1 -timeout 25m ./...) || exit 1; done",
            "source_commits": HOOK_COMMITS,
            "add_only": True,
        },
        "engines": [
            {"name": "tlc+vh", "path": "/verif/check", "serves_properties": sorted(CHECKS),
             "kind_free_text": "TLA+ specifications in /verif/spec checked by TLC; Go harness /verif/harness (cmd/vh) replays specification behaviours into the real code and records traces for the trace specifications; python drivers in /verif/tools"},
        ],
        "checks": checks,
        "notes": "Exit codes: 0 held, 1 VIOLATION line, 2 infrastructure failure (never a violation). Known findings: /verif/known_findings.json.",
        "not_applicable": na,
    }
    open(os.path.join(VERIF, "MANIFEST.json"), "w").write(json.dumps(m, indent=1) + "\n")
    try:
        import jsonschema
        jsonschema.validate(m, json.load(open("/root/.vp/MANIFEST.schema.json")))
        print("MANIFEST.json valid;", len(checks), "checks,", len(na), "not claimed")
    except ImportError:
        print("MANIFEST.json written (jsonschema not available for validation)")


HOOK_COMMITS = ["5734b20", "9ae4f2c", "be0d14a", "0aa5701", "52c46bd"]

if __name__ == "__main__":
    main()
