#!/usr/bin/env python3
"""Writes /verif/MANIFEST.json from the table below (single source; validated against the schema)."""
import json, os, sys

VERIF = os.path.dirname(os.path.dirname(os.path.abspath(__file__)))

MC = "model_checking"
CHECKS = {
    "C12": dict(
        technique="TLA+ spec PeekingLexer checked exhaustively by TLC; every explored transition replayed into the real lexer.PeekingLexer; recorded random traces validated by Trace_PeekingLexer",
        text="TLC explores every stream up to the bound, every operation with every argument in every reachable state, checking the cursor invariants and action properties of the specification; each explored transition is replayed on the real object and all observations compared (transition coverage), and random traces of the real object are accepted step by step by the trace specification. Exhaustive within the bound on stream length; beyond it seeded traces.",
        note="Trusted: TLC, the harness's observation of token identity through distinct Value/Pos; match predicates limited to 4 subsets of 3 token kinds.",
        ref="4/C12, 3.2"),
}

NOT_YET = {}


def main():
    props = [json.loads(l) for l in open(os.path.join(VERIF, "properties.jsonl"))]
    checks, na = [], []
    for p in props:
        pid = p["id"]
        if pid in CHECKS:
            c = CHECKS[pid]
            checks.append({
                "property_id": pid,
                "quick_cmd": "./check %s --tier quick" % pid,
                "thorough_cmd": "./check %s --tier thorough" % pid,
                "evidence_file": "/verif/evidence/%s.json" % pid,
                "replay_cmd_template": "./check %s --replay {path}" % pid,
                "engine": "tlc+vh",
                "level_claimed": {"category": c.get("level", MC), "text": c["text"], "design_ref": "DESIGN.md section " + c["ref"]},
                "level_note": c["note"],
                "technique": c["technique"],
            })
        else:
            na.append({"property_id": pid, "reason": NOT_YET.get(pid, "check not built yet in this revision (planned: TLA+ specification + TLC + conformance replay, see DESIGN.md section 4)")})
    m = {
        "version": 1,
        "setup_cmd": "./tools/setup.sh",
        "hooks": {
            "guard": "verif",
            "enable": "go build -tags verif (harness go.mod: replace github.com/alecthomas/participle/v2 => /repo; GOFLAGS=-mod=mod GOPROXY=off)",
            "baseline_off_cmd": "for m in . ./cmd/participle; do (cd /repo/$m && GOFLAGS=-mod=mod GOPROXY=off GOTOOLCHAIN=local go test -vet=off -count=1 -timeout 25m ./...) || exit 1; done",
            "source_commits": HOOK_COMMITS,
            "add_only": True,
        },
        "engines": [
            {"name": "tlc+vh", "path": "/verif/check", "serves_properties": sorted(CHECKS),
             "kind_free_text": "TLA+ specifications in /verif/spec checked by TLC; Go harness /verif/harness (cmd/vh) replays specification behaviours into the real code and records traces for the trace specifications; python drivers in /verif/tools"},
        ],
        "checks": checks,
        "notes": "Exit codes: 0 held, 1 VIOLATION line, 2 infrastructure failure (never a violation). Known findings: /verif/known_findings.json.",
        "not_applicable": na,
    }
    open(os.path.join(VERIF, "MANIFEST.json"), "w").write(json.dumps(m, indent=1) + "\n")
    try:
        import jsonschema
        jsonschema.validate(m, json.load(open("/root/.vp/MANIFEST.schema.json")))
        print("MANIFEST.json valid;", len(checks), "checks,", len(na), "not claimed")
    except ImportError:
        print("MANIFEST.json written (jsonschema not available for validation)")


HOOK_COMMITS = []

if __name__ == "__main__":
    main()
