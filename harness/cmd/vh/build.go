package main

import (
	"bufio"
	"fmt"
	"os"
	"reflect"
	"runtime/debug"
	"strconv"
	"strings"
	"time"

	"github.com/alecthomas/participle/v2"
	"github.com/alecthomas/participle/v2/lexer"
)

func init() {
	commands["tag-run"] = tagRun
	commands["shape-run"] = shapeRun
}

type tagRootU interface{}
type tagRoot struct {
	X tagRootU `@@`
}
type tagSub struct {
	V string `@Ident`
}

var tagText = map[string]string{"Lit": `"a"`, "OR": "|"}

func guardedBuild(f func() error) string {
	ch := make(chan string, 1)
	go func() {
		defer func() {
			if r := recover(); r != nil {
				ch <- fmt.Sprintf("panic %v", r)
			}
		}()
		if err := f(); err != nil {
			ch <- "err"
			return
		}
		ch <- "ok"
	}()
	select {
	case s := <-ch:
		return s
	case <-time.After(10 * time.Second):
		return "hang"
	}
}

func buildTagged(fields []reflect.StructField) string {
	return guardedBuild(func() error {
		st := reflect.StructOf(fields)
		_, err := participle.Build[tagRoot](participle.Union[tagRootU](reflect.New(st).Interface()))
		return err
	})
}

// tag-run <lines file>: "id|tok tok ...|class"; builds the tag in several forms and prints mismatches.
func tagRun(args []string) error {
	f, err := os.Open(args[0])
	if err != nil {
		return err
	}
	defer f.Close()
	sc := bufio.NewScanner(f)
	sc.Buffer(make([]byte, 1<<20), 1<<20)
	w := bufio.NewWriter(os.Stdout)
	defer w.Flush()
	n, bad := 0, 0
	counts := map[string]int{}
	strT := reflect.TypeOf("")
	subT := reflect.TypeOf(&tagSub{})
	for sc.Scan() {
		p := strings.Split(sc.Text(), "|")
		if len(p) != 3 {
			return fmt.Errorf("bad line %q", sc.Text())
		}
		abstract := strings.Fields(p[1])
		spellings := []string{""}
		if strings.Contains(p[1], "Bad") {
			spellings = []string{"'", "`", "\"abc", "/* c", "\\", "'ab'"}
		}
		for _, badSpelling := range spellings {
			toks := append([]string{}, abstract...)
			for i, t := range toks {
				if r, ok := tagText[t]; ok {
					toks[i] = r
				}
				if t == "Bad" {
					toks[i] = badSpelling
				}
			}
			tag := strings.Join(toks, " ")
			hasSelf := strings.Contains(tag, "@ @")
			forms := map[string][]reflect.StructField{
				"whole":  {{Name: "A", Type: strT, Tag: reflect.StructTag(tag)}},
				"parser": {{Name: "A", Type: strT, Tag: reflect.StructTag("json:\"a\" parser:" + strconv.Quote(tag))}},
			}
			if hasSelf {
				// @@ needs a struct-typed field: with one, the documented syntax must build
				forms["struct"] = []reflect.StructField{{Name: "A", Type: subT, Tag: reflect.StructTag(tag)}}
			}
			if len(toks) >= 2 {
				k := len(toks) / 2
				forms["split"] = []reflect.StructField{{Name: "A", Type: strT, Tag: reflect.StructTag(strings.Join(toks[:k], " "))}, {Name: "B", Type: strT, Tag: reflect.StructTag(strings.Join(toks[k:], " "))}}
			}
			for form, fields := range forms {
				res := buildTagged(fields)
				n++
				counts[p[2]+"/"+strings.Fields(res)[0]]++
				ok := true
				switch {
				case strings.HasPrefix(res, "panic"), res == "hang":
					ok = false
				case p[2] == "MustError" && res != "err":
					ok = false
				case p[2] == "MustBuild" && res != "ok" && form != "split":
					ok = false
				}
				if !ok {
					bad++
					if bad <= 3000 {
						fmt.Fprintf(w, "MISMATCH\t%s\t%s\t%s\t%s\t%s\n", p[0], form, tag, p[2], res)
					}
				}
			}
		}
	}
	for k, v := range counts {
		fmt.Fprintf(w, "COUNT\t%s\t%d\n", k, v)
	}
	fmt.Fprintf(w, "DONE\t%d\t%d\n", n, bad)
	return nil
}

// ---- struct shapes --------------------------------------------------------------------------------------------

type shMap struct {
	M map[string]string `@Ident`
}
type shChan struct {
	C chan int `@Ident`
}
type shFunc struct {
	F func() `@Ident`
}

// a union whose members are a struct production and a NON-struct type implemented by user code (Parseable); the same type as a
// plain field
type shValue interface{ shValue() }
type shNumber float64

func (shNumber) shValue() {}
func (n *shNumber) Parse(lex *lexer.PeekingLexer) error {
	t := lex.Peek()
	f, err := strconv.ParseFloat(t.Value, 64)
	if err != nil {
		return participle.NextMatch
	}
	lex.Next()
	*n = shNumber(f)
	return nil
}

type shName struct {
	Name string `@Ident`
}

func (shName) shValue() {}

type shUnionScalar struct {
	Key   string  `@Ident "="`
	Value shValue `@@`
}
type shScalarField struct {
	N  shNumber   `@@`
	Ns []shNumber `( "," @@ )*`
}

// a union member with a field whose production is a function registered with ParseTypeWith
type shCustomVal interface{}

func parseShCustomVal(lex *lexer.PeekingLexer) (shCustomVal, error) {
	t := lex.Peek()
	if t.EOF() {
		return nil, participle.NextMatch
	}
	lex.Next()
	return t.Value, nil
}

type shStmt interface{ shStmt() }
type shAssign struct {
	Name string      `@Ident "="`
	Val  shCustomVal `@@`
}
type shCall struct {
	Fn string `@Ident "(" ")"`
}

func (shAssign) shStmt() {}
func (shCall) shStmt()   {}

type shProgram struct {
	Stmts []shStmt `@@*`
}

// stray input after the expression of a struct that refers to itself (directly; through another struct)
type shRecStray struct {
	Name string        `@Ident`
	Kids []*shRecStray `( "(" @@* ")" )? )`
}
type shMutA struct {
	B *shMutB `"a" @@?`
}
type shMutB struct {
	A *shMutA `"b" @@? ]`
}

// an UNCAPTURED negation in the tag of a struct-typed field (it captures nothing, so the field's type does not matter to it)
type shNegItem struct {
	Name string     `@Ident`
	Next *shNegItem `( ~";" "," @@ )?`
}
type shNegList struct {
	Items []*shNegItem `( !";" @@ )*`
}

// a ladder of 40 productions, each referring to the next one in two leftmost alternatives (2^40 leftmost paths, 41 nodes)
type shL0 struct {
	One  *shL1   `(  @@`
	Many []*shL1 ` | @@+ )`
}
type shL1 struct {
	One  *shL2   `(  @@`
	Many []*shL2 ` | @@+ )`
}
type shL2 struct {
	One  *shL3   `(  @@`
	Many []*shL3 ` | @@+ )`
}
type shL3 struct {
	One  *shL4   `(  @@`
	Many []*shL4 ` | @@+ )`
}
type shL4 struct {
	One  *shL5   `(  @@`
	Many []*shL5 ` | @@+ )`
}
type shL5 struct {
	One  *shL6   `(  @@`
	Many []*shL6 ` | @@+ )`
}
type shL6 struct {
	One  *shL7   `(  @@`
	Many []*shL7 ` | @@+ )`
}
type shL7 struct {
	One  *shL8   `(  @@`
	Many []*shL8 ` | @@+ )`
}
type shL8 struct {
	One  *shL9   `(  @@`
	Many []*shL9 ` | @@+ )`
}
type shL9 struct {
	One  *shL10   `(  @@`
	Many []*shL10 ` | @@+ )`
}
type shL10 struct {
	One  *shL11   `(  @@`
	Many []*shL11 ` | @@+ )`
}
type shL11 struct {
	One  *shL12   `(  @@`
	Many []*shL12 ` | @@+ )`
}
type shL12 struct {
	One  *shL13   `(  @@`
	Many []*shL13 ` | @@+ )`
}
type shL13 struct {
	One  *shL14   `(  @@`
	Many []*shL14 ` | @@+ )`
}
type shL14 struct {
	One  *shL15   `(  @@`
	Many []*shL15 ` | @@+ )`
}
type shL15 struct {
	One  *shL16   `(  @@`
	Many []*shL16 ` | @@+ )`
}
type shL16 struct {
	One  *shL17   `(  @@`
	Many []*shL17 ` | @@+ )`
}
type shL17 struct {
	One  *shL18   `(  @@`
	Many []*shL18 ` | @@+ )`
}
type shL18 struct {
	One  *shL19   `(  @@`
	Many []*shL19 ` | @@+ )`
}
type shL19 struct {
	One  *shL20   `(  @@`
	Many []*shL20 ` | @@+ )`
}
type shL20 struct {
	One  *shL21   `(  @@`
	Many []*shL21 ` | @@+ )`
}
type shL21 struct {
	One  *shL22   `(  @@`
	Many []*shL22 ` | @@+ )`
}
type shL22 struct {
	One  *shL23   `(  @@`
	Many []*shL23 ` | @@+ )`
}
type shL23 struct {
	One  *shL24   `(  @@`
	Many []*shL24 ` | @@+ )`
}
type shL24 struct {
	One  *shL25   `(  @@`
	Many []*shL25 ` | @@+ )`
}
type shL25 struct {
	One  *shL26   `(  @@`
	Many []*shL26 ` | @@+ )`
}
type shL26 struct {
	One  *shL27   `(  @@`
	Many []*shL27 ` | @@+ )`
}
type shL27 struct {
	One  *shL28   `(  @@`
	Many []*shL28 ` | @@+ )`
}
type shL28 struct {
	One  *shL29   `(  @@`
	Many []*shL29 ` | @@+ )`
}
type shL29 struct {
	One  *shL30   `(  @@`
	Many []*shL30 ` | @@+ )`
}
type shL30 struct {
	One  *shL31   `(  @@`
	Many []*shL31 ` | @@+ )`
}
type shL31 struct {
	One  *shL32   `(  @@`
	Many []*shL32 ` | @@+ )`
}
type shL32 struct {
	One  *shL33   `(  @@`
	Many []*shL33 ` | @@+ )`
}
type shL33 struct {
	One  *shL34   `(  @@`
	Many []*shL34 ` | @@+ )`
}
type shL34 struct {
	One  *shL35   `(  @@`
	Many []*shL35 ` | @@+ )`
}
type shL35 struct {
	One  *shL36   `(  @@`
	Many []*shL36 ` | @@+ )`
}
type shL36 struct {
	One  *shL37   `(  @@`
	Many []*shL37 ` | @@+ )`
}
type shL37 struct {
	One  *shL38   `(  @@`
	Many []*shL38 ` | @@+ )`
}
type shL38 struct {
	One  *shL39   `(  @@`
	Many []*shL39 ` | @@+ )`
}
type shL39 struct {
	One  *shL40   `(  @@`
	Many []*shL40 ` | @@+ )`
}
type shL40 struct {
	Leaf string `@Ident`
}

type shIface struct {
	I interface{ Foo() } `@@`
}
type shAnon struct {
	Inner struct {
		A string `@Ident`
	} `@@`
	B string `@Ident`
}
type shRec struct {
	Name string `"(" @Ident`
	Kid  *shRec `@@? ")"`
}
type shEmbedBase struct {
	A string `@Ident`
}
type shEmbed struct {
	shEmbedBase
	B string `@Ident`
}
type shUnexported struct {
	a string `@Ident`
	B string `@Ident`
}
type shNoTags struct {
	A string
	B int
}
type shEmpty struct{}
type shPtrPtr struct {
	A **string `@Ident`
}
type shSliceOfSlice struct {
	A [][]string `@Ident*`
}
type shArray struct {
	A [2]string `@Ident`
}
type shNestedNoTags struct {
	K shNoTags `@@`
}
type shStructScalar struct {
	K shEmbedBase `@Ident`
}
type shBadPos struct {
	Pos int
	A   string `@Ident`
}
type shUnknownType struct {
	A string `@Nope`
}
type shAnonLeftRec struct {
	Inner struct {
		Back *shAnonLeftRec `@@`
	} `@@`
	B string `@Ident`
}
type shAnonRec struct {
	Inner struct {
		Back *shAnonRec `"(" @@? ")"`
	} `@@`
}
type shComplex struct {
	A complex128 `@Ident`
}
type shUintptr struct {
	A uintptr `@Int`
}

// supported capture targets: every documented field type with the wrappers the README lists (value, pointer, slice,
// slice of pointers) must build
type shCapStruct struct{ Name string }

func (p *shCapStruct) Capture(values []string) error { p.Name = values[0]; return nil }

type shTextStruct struct{ Name string }

func (p *shTextStruct) UnmarshalText(b []byte) error { p.Name = string(b); return nil }

type shCapSlice []string

func (p *shCapSlice) Capture(values []string) error { *p = append(*p, values...); return nil }

type shSupported struct {
	S    string          `@Ident`
	PS   *string         `@Ident`
	SS   []string        `@Ident`
	I    int             `@Int`
	I8   int8            `@Int`
	U16  uint16          `@Int`
	PI   *int64          `@Int`
	IS   []int32         `@Int`
	F    float64         `@Float`
	FS   []float32       `@Float`
	B    bool            `@"x"`
	PB   *bool           `@"x"`
	BS   []bool          `@"x"`
	C    shCapStruct     `@Ident`
	PC   *shCapStruct    `@Ident`
	CS   []shCapStruct   `@Ident`
	PCS  []*shCapStruct  `@Ident`
	T    shTextStruct    `@Ident`
	PT   *shTextStruct   `@Ident`
	TS   []shTextStruct  `@Ident`
	PTS  []*shTextStruct `@Ident`
	NS   shCapSlice      `@Ident`
	Tok  lexer.Token     `@Ident`
	Toks []lexer.Token   `@Ident`
	Sub  shEmbedBase     `@@`
	PSub *shEmbedBase    `@@`
	Subs []shEmbedBase   `@@*`
	PSs  []*shEmbedBase  `@@*`
	Pos  lexer.Position
	End  lexer.Position `parser:"" json:"-"`
}

// fields excluded from the grammar: parser:"" / no tag / parser:"-"-free spelling with other keys present
type shExcluded struct {
	A       string `parser:"@Ident" json:"a"`
	Comment string `parser:"" json:"comment"`
	Note    string
	B       string `parser:"@Ident"`
}

// anonymous embedding several levels deep, several tagged siblings at the innermost level
type shDeep3 struct {
	X string `@Ident`
	Y string `@Int`
	Z string `@String`
}
type shDeep2 struct {
	shDeep3
	W string `@Ident`
}
type shDeep1 struct {
	shDeep2
}
type shDeep0 struct {
	shDeep1
	V string `@Int`
}
type shDeepRoot struct {
	shDeep0
	U string `@Ident`
}

// the same innermost struct (several tagged siblings) embedded 3 and 6 levels deep
type ShE3 struct {
	X string `(  @Ident`
	Y string ` | @Int`
	Z string ` | @String )`
}
type ShE2 struct{ ShE3 }
type ShE1 struct{ ShE2 }
type shE0 struct {
	ShE1
	End string `@";"`
}
type ShF5 struct{ ShE3 }
type ShF4 struct{ ShF5 }
type ShF3 struct{ ShF4 }
type ShF2 struct{ ShF3 }
type ShF1 struct{ ShF2 }
type shF0 struct {
	ShF1
	End string `@";"`
}

// a tag without any token (blank, or only a comment) between grammar fields: the fields after it still belong to the grammar
type shBlankGood struct {
	A string `@Ident`
	B string ` `
	C string `// nothing here`
	D string `@Int`
	E string `parser:" "`
	F string `@String`
}
type shBlankBad struct {
	A string `@Ident`
	B string ` `
	C string `@NoSuchToken`
}
type shBlankUnclosed struct {
	A string `@Ident`
	B string `/* c */`
	C string `( @Int`
}

// several levels of indirection between a field and the struct it reaches; embedded POINTERS to structs
type shTreeIndirect struct {
	Name string            `@Ident`
	Kids *[]shTreeIndirect `( "(" @@* ")" )?`
}
type shLeaf struct {
	V string `@Ident`
}
type shPtr4 struct {
	L ****shLeaf `@@`
}
type shSliceSlice struct {
	L [][]shLeaf `@@*`
}
type shPlain struct{ X string }
type shPtrPtrScalar struct {
	P **shPlain `@Ident`
}
type ShEmbValue struct {
	*ShEmbGroup
	V string `@Ident`
}
type ShEmbGroup struct {
	*ShEmbValue
	G string `"(" @Ident ")"`
}
type ShInnerOK struct {
	A string `@Ident`
}
type shEmbPtrBadTag struct {
	*ShInnerOK `@Bogus`
	B          string `@Int`
}

// an embedded struct (by value) whose embedding field carries a tag of another package: still flattened into the grammar
type ShCommon struct {
	A string `@Ident`
}
type shEmbForeignTag struct {
	ShCommon `json:",inline" yaml:",inline"`
	B        string `parser:"@Int" json:"b"`
}

// cycles among productions BELOW the root (the root itself is not on the cycle): the left-recursion analysis asks whether such
// a production can match nothing while it is still being analysed.  Build may accept or refuse; it has to return.
type shCycRootA struct {
	B *shCycB `@@ "x"`
}
type shCycB struct {
	Self *shCycB `  @@ "y"`
	Z    string  `| @Ident`
}
type shCycRootM struct {
	B *shCycMB `@@ "x"`
}
type shCycMB struct {
	C *shCycMC `  @@ "y"`
	Q string   `| @Ident`
}
type shCycMC struct {
	B *shCycMB `@@ "z"`
}
type shCycRootN struct {
	B *shCycNB `@@ "x"`
}
type shCycNB struct {
	C *shCycNC `@@?`
}
type shCycNC struct {
	B *shCycNB `@@?`
	K string   `@Ident?`
}
type shCycRootG struct {
	B []*shCycGB `( @@ "," )* "x"`
}
type shCycGB struct {
	Pre  string   `@Ident?`
	Self *shCycGB `( "(" @@ ")" )?`
	Alt  *shCycGB `( (?= "[" ) @@ )?`
}

// shape-run: Build on struct shapes; prints "name\toutcome".
func shapeRun(args []string) error {
	debug.SetMaxStack(256 << 20)
	run := func(name string, f func() error) {
		for _, sk := range strings.Split(os.Getenv("VH_SKIP"), ",") {
			if sk == name {
				return // (a shape that killed an earlier run of this command: reported by the caller)
			}
		}
		fmt.Printf("BEGIN\t%s\n", name)
		fmt.Printf("%s\t%s\n", name, guardedBuild(f))
		if os.Getenv("VERIF_SHAPE_DEBUG") != "" {
			fmt.Fprintln(os.Stderr, name, f())
		}
	}
	run("map", func() error { _, err := participle.Build[shMap](); return err })
	run("chan", func() error { _, err := participle.Build[shChan](); return err })
	run("func", func() error { _, err := participle.Build[shFunc](); return err })
	run("iface-no-union", func() error { _, err := participle.Build[shIface](); return err })
	run("anon-struct", func() error { _, err := participle.Build[shAnon](); return err })
	run("recursive", func() error { _, err := participle.Build[shRec](); return err })
	run("embedded", func() error { _, err := participle.Build[shEmbed](); return err })
	run("unexported", func() error { _, err := participle.Build[shUnexported](); return err })
	run("no-tags", func() error { _, err := participle.Build[shNoTags](); return err })
	run("empty", func() error { _, err := participle.Build[shEmpty](); return err })
	run("ptrptr", func() error { _, err := participle.Build[shPtrPtr](); return err })
	run("slice-of-slice", func() error { _, err := participle.Build[shSliceOfSlice](); return err })
	run("array", func() error { _, err := participle.Build[shArray](); return err })
	run("nested-no-tags", func() error { _, err := participle.Build[shNestedNoTags](); return err })
	run("struct-scalar", func() error { _, err := participle.Build[shStructScalar](); return err })
	run("bad-pos", func() error { _, err := participle.Build[shBadPos](); return err })
	run("unknown-type", func() error { _, err := participle.Build[shUnknownType](); return err })
	run("anon-leftrec", func() error { _, err := participle.Build[shAnonLeftRec](); return err })
	run("anon-rec-string", func() error {
		p, err := participle.Build[shAnonRec]()
		if err == nil {
			_ = p.String()
		}
		return err
	})
	run("supported-targets", func() error { _, err := participle.Build[shSupported](); return err })
	run("excluded-fields", func() error {
		p, err := participle.Build[shExcluded]()
		if err != nil {
			return err
		}
		v, err := p.ParseString("", "x y")
		if err != nil || v.A != "x" || v.B != "y" || v.Comment != "" {
			return fmt.Errorf("excluded field took part in the parse: %+v %v", v, err)
		}
		return nil
	})
	run("embedded-deep", func() error {
		p, err := participle.Build[shDeepRoot]()
		if err != nil {
			return err
		}
		v, err := p.ParseString("", `a 1 "s" b 2 c`)
		if err != nil || v.X != "a" || v.Y != "1" || v.Z != `"s"` || v.W != "b" || v.V != "2" || v.U != "c" {
			return fmt.Errorf("fields of deeply embedded structs are mixed up: %+v %v", v, err)
		}
		return nil
	})
	run("embedded-3-levels", func() error {
		p, err := participle.Build[shE0]()
		if err != nil {
			return err
		}
		for in, want := range map[string][3]string{"a;": {"a", "", ""}, "1;": {"", "1", ""}, `"s";`: {"", "", `"s"`}} {
			v, err := p.ParseString("", in)
			if err != nil || [3]string{v.X, v.Y, v.Z} != want || v.End != ";" {
				return fmt.Errorf("fields of an embedded struct are mixed up on %q: %+v %v", in, v, err)
			}
		}
		return nil
	})
	run("embedded-6-levels", func() error {
		p, err := participle.Build[shF0]()
		if err != nil {
			return err
		}
		for in, want := range map[string][3]string{"a;": {"a", "", ""}, "1;": {"", "1", ""}, `"s";`: {"", "", `"s"`}} {
			v, err := p.ParseString("", in)
			if err != nil || [3]string{v.X, v.Y, v.Z} != want || v.End != ";" {
				return fmt.Errorf("fields of an embedded struct are mixed up on %q: %+v %v", in, v, err)
			}
		}
		return nil
	})
	run("blank-tags-then-fields", func() error {
		p, err := participle.Build[shBlankGood]()
		if err != nil {
			return err
		}
		v, err := p.ParseString("", `a 1 "s"`)
		if err != nil || v.A != "a" || v.D != "1" || v.F != `"s"` || v.B != "" || v.C != "" || v.E != "" {
			return fmt.Errorf("fields after a token-free tag are not part of the grammar: %+v %v", v, err)
		}
		return nil
	})
	run("blank-tag-then-unknown-token", func() error { _, err := participle.Build[shBlankBad](); return err })
	run("blank-tag-then-unclosed-group", func() error { _, err := participle.Build[shBlankUnclosed](); return err })
	run("ptr-to-slice-recursive", func() error { _, err := participle.Build[shTreeIndirect](); return err })
	run("ptr4-struct", func() error { _, err := participle.Build[shPtr4](); return err })
	run("slice-of-slice-struct", func() error { _, err := participle.Build[shSliceSlice](); return err })
	run("ptrptr-struct-scalar", func() error { _, err := participle.Build[shPtrPtrScalar](); return err })
	run("embedded-pointer-cycle", func() error { _, err := participle.Build[ShEmbValue](); return err })
	run("embedded-pointer-bad-tag", func() error { _, err := participle.Build[shEmbPtrBadTag](); return err })
	run("union-nonstruct-parseable", func() error {
		p, err := participle.Build[shUnionScalar](participle.Union[shValue](shNumber(0), shName{}))
		if err != nil {
			return err
		}
		v, err := p.ParseString("", "a = 1.5")
		if err != nil || v.Value != shNumber(1.5) {
			return fmt.Errorf("union with a non-struct Parseable member: %+v %v", v, err)
		}
		if v, err = p.ParseString("", "a = b"); err != nil || v.Value != (shName{Name: "b"}) {
			return fmt.Errorf("union with a non-struct Parseable member: %+v %v", v, err)
		}
		return nil
	})
	run("nonstruct-parseable-field", func() error {
		p, err := participle.Build[shScalarField]()
		if err != nil {
			return err
		}
		v, err := p.ParseString("", "1 , 2.5")
		if err != nil || v.N != 1 || len(v.Ns) != 1 || v.Ns[0] != 2.5 {
			return fmt.Errorf("non-struct Parseable fields: %+v %v", v, err)
		}
		return nil
	})
	run("union-member-with-custom-field", func() error {
		for i, opts := range [][]participle.Option{
			{participle.Union[shStmt](shAssign{}, shCall{}), participle.ParseTypeWith(parseShCustomVal)},
			{participle.ParseTypeWith(parseShCustomVal), participle.Union[shStmt](shCall{}, shAssign{})},
		} {
			p, err := participle.Build[shProgram](opts...)
			if err != nil {
				return fmt.Errorf("option order %d: %w", i, err)
			}
			if v, err := p.ParseString("", "f ( ) x = 7"); err != nil || len(v.Stmts) != 2 {
				return fmt.Errorf("union member with a ParseTypeWith field: %+v %v", v, err)
			}
		}
		return nil
	})
	run("recursive-stray-token", func() error { _, err := participle.Build[shRecStray](); return err })
	run("mutual-recursive-stray-token", func() error { _, err := participle.Build[shMutA](); return err })
	run("negation-in-struct-field-tag", func() error {
		if _, err := participle.Build[shNegItem](); err != nil {
			return err
		}
		p, err := participle.Build[shNegList]()
		if err != nil {
			return err
		}
		if v, err := p.ParseString("", ". a . b"); err != nil || len(v.Items) != 2 {
			return fmt.Errorf("uncaptured negation before @@: %+v %v", v, err)
		}
		return nil
	})
	// a ladder of 40 productions, each referring to the next one in two leftmost alternatives (2^40 leftmost paths, 41 nodes)
	run("ladder-40", func() error { _, err := participle.Build[shL0](); return err })
	run("embedded-foreign-tag", func() error {
		p, err := participle.Build[shEmbForeignTag]()
		if err != nil {
			return err
		}
		v, err := p.ParseString("", "a 1")
		if err != nil || v.A != "a" || v.B != "1" {
			return fmt.Errorf("embedded struct with a foreign tag: %+v %v", v, err)
		}
		return nil
	})
	run("complex", func() error { _, err := participle.Build[shComplex](); return err })
	run("uintptr", func() error { _, err := participle.Build[shUintptr](); return err })
	run("cycle-below-root-self", func() error { _, err := participle.Build[shCycRootA](); return err })
	run("cycle-below-root-mutual", func() error { _, err := participle.Build[shCycRootM](); return err })
	run("cycle-below-root-nullable", func() error { _, err := participle.Build[shCycRootN](); return err })
	run("cycle-below-root-guarded", func() error { _, err := participle.Build[shCycRootG](); return err })
	return nil
}
