package main

import (
	"verifharness/gengram"

	"github.com/alecthomas/participle/v2"
)

// Hand-written grammars with Go-level features the generated families lack: anonymous struct types (two with the
// same shape but different grammars), embedded structs, a pointer to an anonymous struct.  Only the structure-
// independent clauses of C14 are judged for them.

type esBase struct {
	A string `@Ident`
}
type esEmbedded struct {
	esBase
	C string `@Int`
}
type esAnonTwo struct {
	A struct {
		V string `@Ident`
	} `@@`
	B struct {
		V string `@String`
	} `"," @@`
	C *struct {
		W []string `"[" @Int* "]"`
	} `@@?`
}
type esAnonRec struct {
	Inner struct {
		Back *esAnonRec `"(" @@? ")"`
	} `@@`
}

var staticEbnf = map[string]struct {
	root string
	mk   func() (gengram.Built, error)
}{
	"static-embedded": {"EsEmbedded", func() (gengram.Built, error) { return participle.Build[esEmbedded]() }},
	"static-anon-two": {"EsAnonTwo", func() (gengram.Built, error) { return participle.Build[esAnonTwo]() }},
	"static-anon-rec": {"EsAnonRec", func() (gengram.Built, error) { return participle.Build[esAnonRec]() }},
}
