package main

import (
	"fmt"

	"verifharness/gengram"

	"github.com/alecthomas/participle/v2"
	"github.com/alecthomas/participle/v2/lexer"
)

// Hand-written grammars with Go-level features the generated families lack: anonymous struct types (two with the
// same shape but different grammars), embedded structs, a pointer to an anonymous struct.  Only the structure-
// independent clauses of C14 are judged for them.

type esBase struct {
	A string `@Ident`
}
type esEmbedded struct {
	esBase
	C string `@Int`
}
type esAnonTwo struct {
	A struct {
		V string `@Ident`
	} `@@`
	B struct {
		V string `@String`
	} `"," @@`
	C *struct {
		W []string `"[" @Int* "]"`
	} `@@?`
}
type esAnonRec struct {
	Inner struct {
		Back *esAnonRec `"(" @@? ")"`
	} `@@`
}

// a lexer definition whose symbol table gives two names to one token type: references print under the name the grammar uses
type aliasDef struct{ lexer.Definition }

func (a aliasDef) Symbols() map[string]lexer.TokenType {
	out := map[string]lexer.TokenType{}
	for k, v := range a.Definition.Symbols() {
		out[k] = v
	}
	out["Word"] = out["Ident"]
	out["Number"] = out["Int"]
	out["Name"] = out["Ident"]
	return out
}

type esAlias struct {
	W string   `@Word`
	N []string `@Number*`
	I string   `@Ident?`
	M string   `@Name?`
}

// production names with letters outside ASCII (Go identifiers may contain any Unicode letter)
type EsGröße struct {
	Wert  string  `@Int`
	Über  *EsÜber `@@?`
	Liste []*Es名前 `( "," @@ )*`
}
type EsÜber struct {
	X string `"(" @Ident ")"`
}
type Es名前 struct {
	N string `@Ident`
}

// the same user-implemented (Parseable) type captured in several places: one production, referenced several times
type EsAmount struct{ N string }

func (a *EsAmount) Parse(lex *lexer.PeekingLexer) error {
	t := lex.Next()
	if t.EOF() {
		return participle.NextMatch
	}
	a.N = t.Value
	return nil
}

type esTransfer struct {
	From *EsAmount   `"from" @@`
	To   *EsAmount   `"to" @@`
	Step []*EsAmount `( "step" @@ )*`
}

// staticForbid: substrings the String() of a static case must not contain
var staticForbid = map[string][]string{"static-parseable-twice": {"EsAmount2", "EsAmount3", "EsAmount1"}}

// staticExpect: substrings the String() of a static case must contain
var staticExpect = map[string][]string{"static-alias": {"<word>", "<number>*", "<ident>?", "<name>?"},
	"static-parseable-twice": {`"from" EsAmount "to" EsAmount ("step" EsAmount)*`},
	"static-two-custom":      {`EsKey "=" EsVal`},
	"static-embedded-3":      {`"public"? "static"? <ident> (":" <int>)? ("," <ident>)*`},
	"static-forproduction":   {`EsFP = <ident> "=" EsFPSub ("+" <ident>)* .`, `EsFPSub = "(" <ident> ")" .`}}

// three levels of embedding, several tagged fields in the innermost struct
type esL3 struct {
	Public bool   `@"public"?`
	Static bool   `@"static"?`
	Name   string `@Ident`
}
type esL2 struct{ esL3 }
type esL1 struct {
	esL2
	Size int `( ":" @Int )?`
}
type esL0 struct {
	esL1
	Tail []string `( "," @Ident )*`
}

// a parser for one production derived from the grammar's parser: the original keeps describing the whole grammar
type esFPSub struct {
	X string `"(" @Ident ")"`
}
type esFP struct {
	Head string   `@Ident "="`
	Sub  *esFPSub `@@`
	More []string `( "+" @Ident )*`
}

// two productions implemented by functions registered with ParseTypeWith, side by side
type EsKey interface{}
type EsVal interface{}

func parseEsKey(lex *lexer.PeekingLexer) (EsKey, error) {
	t := lex.Peek()
	if t.EOF() || t.Value == "=" {
		return nil, participle.NextMatch
	}
	lex.Next()
	return "key:" + t.Value, nil
}
func parseEsVal(lex *lexer.PeekingLexer) (EsVal, error) {
	t := lex.Peek()
	if t.EOF() {
		return nil, participle.NextMatch
	}
	lex.Next()
	return "val:" + t.Value, nil
}

type esEntry struct {
	K EsKey `@@ "="`
	V EsVal `@@`
}

// a union declared on an unnamed interface type
type esAnonMemberA struct {
	A string `"a" @Ident`
}
type esAnonMemberB struct {
	B string `"b" @Int`
}

func (esAnonMemberA) esM() {}
func (esAnonMemberB) esM() {}

type esAnonIface struct {
	Items []interface{ esM() } `@@*`
}

var staticEbnf = map[string]struct {
	root string
	mk   func() (gengram.Built, error)
}{
	"static-embedded":        {"EsEmbedded", func() (gengram.Built, error) { return participle.Build[esEmbedded]() }},
	"static-anon-two":        {"EsAnonTwo", func() (gengram.Built, error) { return participle.Build[esAnonTwo]() }},
	"static-anon-rec":        {"EsAnonRec", func() (gengram.Built, error) { return participle.Build[esAnonRec]() }},
	"static-unicode-names":   {"EsGröße", func() (gengram.Built, error) { return participle.Build[EsGröße]() }},
	"static-parseable-twice": {"EsTransfer", func() (gengram.Built, error) { return participle.Build[esTransfer]() }},
	"static-anon-iface": {"EsAnonIface", func() (gengram.Built, error) {
		return participle.Build[esAnonIface](participle.Union[interface{ esM() }](esAnonMemberA{}, esAnonMemberB{}))
	}},
	"static-two-custom": {"EsEntry", func() (gengram.Built, error) {
		p, err := participle.Build[esEntry](participle.ParseTypeWith(parseEsKey), participle.ParseTypeWith(parseEsVal))
		if err != nil {
			return nil, err
		}
		// (the right function for each: the parse result shows which one ran)
		if v, err := p.ParseString("", "a = b"); err != nil || v.K != "key:a" || v.V != "val:b" {
			return nil, fmt.Errorf("two ParseTypeWith productions: %+v %v", v, err)
		}
		return p, nil
	}},
	"static-embedded-3": {"EsL0", func() (gengram.Built, error) { return participle.Build[esL0]() }},
	"static-forproduction": {"EsFP", func() (gengram.Built, error) {
		p, err := participle.Build[esFP]()
		if err != nil {
			return nil, err
		}
		if sub, err := participle.ParserForProduction[esFPSub](p); err != nil || sub == nil {
			return nil, fmt.Errorf("ParserForProduction: %v", err)
		}
		return p, nil
	}},
	"static-alias": {"EsAlias", func() (gengram.Built, error) {
		return participle.Build[esAlias](participle.Lexer(aliasDef{lexer.TextScannerLexer}))
	}},
}
