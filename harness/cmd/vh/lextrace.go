package main

import (
	"bufio"
	"encoding/json"
	"fmt"
	"math/rand"
	"os"
	"regexp"
	"strconv"
	"strings"
	"sync"
	"unicode"
	"unicode/utf8"

	"github.com/alecthomas/participle/v2/lexer"
)

func init() { commands["lextrace-record"] = lextraceRecord }

// realistic stateful lexers (in the style of the repository's examples and tests)
func exampleLexers() map[string]*lexer.StatefulDefinition {
	return map[string]*lexer.StatefulDefinition{
		"interp": interpLexer,
		"heredoc": lexer.MustStateful(lexer.Rules{
			"Root": {
				{Name: "Heredoc", Pattern: `<<(\w+)\b`, Action: lexer.Push("Heredoc")},
				{Name: "Ident", Pattern: `[a-zA-Z_]\w*`},
				{Name: "Number", Pattern: `\d+(\.\d+)?`},
				{Name: "comment", Pattern: `//[^\n]*`},
				{Name: "Punct", Pattern: `[-+*/=(){};,]`},
				{Name: "whitespace", Pattern: `\s+`},
			},
			"Heredoc": {
				{Name: "End", Pattern: `\b\1\b`, Action: lexer.Pop()},
				lexer.Include("Root"),
			},
		}),
		"ini": lexer.MustStateful(lexer.Rules{
			"Root": {
				{Name: "Section", Pattern: `\[`, Action: lexer.Push("Section")},
				{Name: "Key", Pattern: `[a-zA-Z_][\w.]*`, Action: lexer.Push("Value")},
				{Name: "comment", Pattern: `[#;][^\n]*`},
				{Name: "eol", Pattern: `[\n\r]+`},
				{Name: "ws", Pattern: `[ \t]+`},
			},
			"Section": {
				{Name: "Name", Pattern: `[^\]\n]+`},
				{Name: "SectionEnd", Pattern: `\]`, Action: lexer.Pop()},
			},
			"Value": {
				{Name: "Eq", Pattern: `[ \t]*=[ \t]*`},
				{Name: "String", Pattern: `"(\\.|[^"\\])*"`},
				{Name: "Float", Pattern: `[-+]?\d+\.\d+`},
				{Name: "Int", Pattern: `[-+]?\d+`},
				{Name: "Bare", Pattern: `[^\s"#;=]+`},
				{Name: "ws", Pattern: `[ \t]+`},
				lexer.Return(),
			},
		}),
		"template": lexer.MustStateful(lexer.Rules{
			"Root": {
				{Name: "Open", Pattern: `\{\{-?`, Action: lexer.Push("Expr")},
				{Name: "Text", Pattern: `(?s)([^{]|\{[^{])+`},
				{Name: "Brace", Pattern: `\{`},
			},
			"Expr": {
				{Name: "Close", Pattern: `-?\}\}`, Action: lexer.Pop()},
				{Name: "String", Pattern: `"(\\.|[^"\\])*"`},
				{Name: "LParen", Pattern: `\(`, Action: lexer.Push("Paren")},
				lexer.Include("Atoms"),
			},
			"Paren": {
				{Name: "RParen", Pattern: `\)`, Action: lexer.Pop()},
				{Name: "LParen", Pattern: `\(`, Action: lexer.Push("Paren")},
				lexer.Include("Atoms"),
			},
			"Atoms": {
				{Name: "Ident", Pattern: `(?i)[a-z_][a-z0-9_.]*`},
				{Name: "Number", Pattern: `\d+`},
				{Name: "Op", Pattern: `[|:,+*/=<>!-]+`},
				{Name: "space", Pattern: `\s+`},
			},
		}),
	}
}

var lexInputs = map[string][]string{
	"interp":   {`"hello ${name} and ${"nested ${deep}"} \" $ done"`, `a + "x${b*c}y"`, `"${"${a}"}"`, `x "unterminated ${`},
	"heredoc":  {"x = <<EOF\nhello EOF2 world\nEOF\ny = 12.5;", "a <<A b <<B c B d A e", "<<E E", "// c\nf(1, 2)\n", "<<é x"},
	"ini":      {"[core]\nname = \"v\\\"x\"\ncount=3\n; comment\nratio = -1.5\nbare = yes\n", "k=v\n[s]\n", "a = \n b=2", "[unterminated\nk=1"},
	"template": {"Hello {{ name | upper }}!{{- if (a (b c)) -}} { x {{ \"s}}\" }}", "{{ A.b }} {", "{{ ( ( }}", "plain"},
}

type jStackEntry struct {
	Name   string  `json:"name"`
	Groups [][]int `json:"groups"`
}

func codePoints(s string) []int {
	out := []int{}
	for _, r := range s {
		out = append(out, int(r))
	}
	if !utf8.ValidString(s) {
		out = out[:0]
		for i := 0; i < len(s); {
			r, w := utf8.DecodeRuneInString(s[i:])
			out = append(out, int(r))
			i += w
		}
	}
	return out
}

func sigOf(name string, groups []string) string { return name + "\x00" + strings.Join(groups, "\x01") }

// recordLexTrace lexes `in` with def, logging one event per Next() call, and builds the oracle table.
func recordLexTrace(enc *json.Encoder, id string, def *lexer.StatefulDefinition, in string) (events int) {
	rules := def.Rules()
	// specification view of the (already expanded) rules
	states := []string{}
	for st := range rules {
		states = append(states, st)
	}
	sortStrings(states)
	specRules := map[string][]map[string]any{}
	for st, rs := range rules {
		specRules[st] = []map[string]any{}
		for _, r := range rs {
			act, target := "none", ""
			switch a := r.Action.(type) {
			case lexer.ActionPush:
				act, target = "push", a.State
			case lexer.ActionPop:
				act = "pop"
			}
			if r == lexer.ReturnRule {
				act = "return"
			}
			_, refs := placeholderPattern(r.Pattern)
			specRules[st] = append(specRules[st], map[string]any{"name": r.Name, "act": act, "state": target, "ncap": 0, "backrefs": refs,
				"elided": len(r.Name) > 0 && unicode.IsLower(rune(r.Name[0])), "tree": map[string]any{"op": "Oracle", "sub": []any{}, "runes": []any{}}})
		}
	}
	// byte offset of every character index (1-based), plus the end
	offs := []int{}
	for i := 0; i < len(in); {
		offs = append(offs, i)
		_, w := utf8.DecodeRuneInString(in[i:])
		i += w
	}
	offs = append(offs, len(in))
	charIdx := map[int]int{}
	for k, o := range offs {
		charIdx[o] = k + 1
	}
	l, _ := def.LexString("", in)
	type call struct{ ev map[string]any }
	var calls []map[string]any
	sigs := map[string]jStackEntry{}
	sigGroups := map[string][]string{}
	snapshot := func() (int, []jStackEntry) {
		names, groups, rem, _ := lexer.VerifLexerState(l)
		st := []jStackEntry{}
		for k := range names {
			e := jStackEntry{Name: names[k], Groups: [][]int{}}
			for _, g := range groups[k] {
				e.Groups = append(e.Groups, codePoints(g))
			}
			st = append(st, e)
			sg := sigOf(names[k], groups[k])
			sigs[sg] = e
			sigGroups[sg] = groups[k]
		}
		return charIdx[len(in)-rem], st
	}
	for n := 0; n <= len(in)+1; n++ {
		pi, pst := snapshot()
		ev := map[string]any{"ev": "call", "pre": map[string]any{"i": pi, "stack": pst}, "name": "", "from": 0, "to": 0, "off": 0, "line": 0, "col": 0}
		var t lexer.Token
		var err error
		func() {
			defer func() {
				if r := recover(); r != nil {
					err = fmt.Errorf("panic %v", r)
					ev["res"] = "panic"
				}
			}()
			t, err = l.Next()
		}()
		qi, qst := snapshot()
		ev["post"] = map[string]any{"i": qi, "stack": qst}
		switch {
		case ev["res"] == "panic":
		case err != nil:
			pos, _ := errPos(err)
			ev["res"], ev["off"], ev["line"], ev["col"] = "err", pos.Offset, pos.Line, pos.Column
		case t.EOF():
			ev["res"], ev["off"], ev["line"], ev["col"] = "eof", t.Pos.Offset, t.Pos.Line, t.Pos.Column
		default:
			names := lexer.SymbolsByRune(def)
			ev["res"], ev["name"] = "tok", names[t.Type]
			ev["from"], ev["to"] = charIdx[t.Pos.Offset], charIdx[t.Pos.Offset+len(t.Value)]
			ev["off"], ev["line"], ev["col"] = t.Pos.Offset, t.Pos.Line, t.Pos.Column
		}
		calls = append(calls, ev)
		if ev["res"] != "tok" {
			break
		}
	}
	// oracle: for every observed stack-entry signature, every rule of its state, every character index
	var cache sync.Map
	oracle := []map[string]any{}
	for sg, e := range sigs {
		rs := rules[e.Name]
		tab := [][]map[string]any{}
		for _, r := range rs {
			row := []map[string]any{}
			var re *regexp.Regexp
			if r != lexer.ReturnRule {
				if _, refs := placeholderPattern(r.Pattern); len(refs) > 0 {
					re, _ = lexer.BackrefRegex(&cache, r.Pattern, sigGroups[sg])
				} else {
					re = regexp.MustCompile("^(?:" + r.Pattern + ")")
				}
			}
			for k := 0; k < len(offs); k++ {
				cell := map[string]any{"len": -1, "groups": [][]int{}}
				if re != nil {
					if m := re.FindStringSubmatchIndex(in[offs[k]:]); m != nil {
						cell["len"] = charIdx[offs[k]+m[1]] - (k + 1)
						gs := [][]int{}
						for g := 0; g+1 < len(m); g += 2 {
							if m[g] < 0 {
								gs = append(gs, []int{})
							} else {
								gs = append(gs, codePoints(in[offs[k]+m[g]:offs[k]+m[g+1]]))
							}
						}
						cell["groups"] = gs
					}
				}
				row = append(row, cell)
			}
			tab = append(tab, row)
		}
		oracle = append(oracle, map[string]any{"state": e.Name, "groups": e.Groups, "tab": tab})
	}
	empty := map[string]any{"i": 0, "stack": []jStackEntry{}}
	enc.Encode(map[string]any{"ev": "reset", "lexer": id, "input": in, "chars": charsOf(in),
		"def": map[string]any{"id": id, "states": states, "rules": specRules, "oracle": oracle},
		"pre": empty, "post": empty, "res": "", "name": "", "from": 0, "to": 0, "off": 0, "line": 0, "col": 0})
	for _, ev := range calls {
		ev["chars"] = [][]int{}
		ev["def"] = map[string]any{}
		enc.Encode(ev)
	}
	return len(calls) + 1
}

func sortStrings(s []string) {
	for i := range s {
		for j := i + 1; j < len(s); j++ {
			if s[j] < s[i] {
				s[i], s[j] = s[j], s[i]
			}
		}
	}
}

// lextrace-record <seed> <mutations per input>
func lextraceRecord(args []string) error {
	seed, _ := strconv.Atoi(args[0])
	n, _ := strconv.Atoi(args[1])
	rng := rand.New(rand.NewSource(int64(seed)))
	w := bufio.NewWriterSize(os.Stdout, 1<<20)
	defer w.Flush()
	enc := json.NewEncoder(w)
	lexers := exampleLexers()
	ids := []string{}
	for id := range lexers {
		ids = append(ids, id)
	}
	sortStrings(ids)
	traces, events := 0, 0
	for _, id := range ids {
		for _, in := range lexInputs[id] {
			events += recordLexTrace(enc, id, lexers[id], in)
			traces++
			for k := 0; k < n; k++ {
				m := mutate(rng, in)
				if len(m) > 120 {
					m = m[:120]
				}
				if !utf8.ValidString(m) {
					m = strings.ToValidUTF8(m, "?")
				}
				events += recordLexTrace(enc, id, lexers[id], m)
				traces++
			}
		}
	}
	fmt.Fprintf(os.Stderr, "TRACES\t%d\t%d\n", traces, events)
	return nil
}
