package main

import (
	"bufio"
	"fmt"
	"os"
	"strconv"
	"strings"

	"github.com/alecthomas/participle/v2"
	"github.com/alecthomas/participle/v2/lexer"
)

func init() {
	commands["quote-run"] = quoteRun
	commands["mapper-run"] = mapperRun
}

var qsym = map[byte]string{'a': "a", 'n': "n", 't': "t", 'Q': `"`, 'S': "'", 'B': "`", 'K': `\`, 'N': "\n", 'E': "é", 'G': "\a", 'T': "\t", 'R': "\uFFFD", 'F': "/"}

func qrender(s string) string {
	var sb strings.Builder
	for i := 0; i < len(s); i++ {
		sb.WriteString(qsym[s[i]])
	}
	return sb.String()
}

type qGrammar struct {
	Pre string `@Ident?`
	V   string `@(String | RawString | Char)`
}

var qStateful = lexer.MustSimple([]lexer.SimpleRule{
	{Name: "String", Pattern: `"(\\(.|\n)|[^"\\])*"`},
	{Name: "RawString", Pattern: "`[^`]*`"},
	{Name: "Char", Pattern: `'(\\(.|\n)|[^'\\])*'`},
	{Name: "Ident", Pattern: `[a-z]+`},
	{Name: "WS", Pattern: `[ ]+`},
})

// quote-run <lines>: "form|literal symbols|expected"; parses "x <literal>" with Unquote on the text/scanner lexer (where
// the literal is a valid Go token) and on a stateful lexer; compares value / error presence / error position.
func quoteRun(args []string) error {
	f, err := os.Open(args[0])
	if err != nil {
		return err
	}
	defer f.Close()
	pText := participle.MustBuild[qGrammar](participle.Unquote("String", "RawString", "Char"))
	pState := participle.MustBuild[qGrammar](participle.Lexer(qStateful), participle.Elide("WS"), participle.Unquote("String", "RawString", "Char"))
	sc := bufio.NewScanner(f)
	w := bufio.NewWriter(os.Stdout)
	defer w.Flush()
	n, bad := 0, 0
	for sc.Scan() {
		p := strings.Split(sc.Text(), "|")
		if len(p) != 3 {
			return fmt.Errorf("bad line %q", sc.Text())
		}
		form, lit := p[0], qrender(p[1])
		want := p[2]
		if strings.HasPrefix(want, "ok:") {
			want = "ok:" + qrender(want[3:])
		}
		if form == "dq" {
			// self-check of Quoting.tla's Quote against strconv.Quote
			if strconv.Quote(qrender(p[2][3:])) != lit {
				fmt.Fprintf(w, "SPECDIFF\t%s\tstrconv.Quote gives %s, specification %s\n", sc.Text(), strconv.Quote(qrender(p[2][3:])), lit)
			}
		}
		input := "x " + lit
		try := func(name string, parse func() (*qGrammar, error)) {
			got := runGuarded(func() (s string) {
				defer func() {
					if r := recover(); r != nil {
						s = fmt.Sprintf("panic %v", r)
					}
				}()
				ast, err := parse()
				if err != nil {
					pe, ok := err.(participle.Error)
					if !ok {
						return "err NOTPARTICIPLEERROR"
					}
					// "a located error": anywhere inside the offending literal, line/column consistent with the offset
					pos := pe.Position()
					if pos.Offset < 2 || pos.Offset > len(input) {
						return fmt.Sprintf("err BADPOS %v", pos)
					}
					line := 1 + strings.Count(input[:pos.Offset], "\n")
					col := 1 + len([]rune(input[strings.LastIndex(input[:pos.Offset], "\n")+1:pos.Offset]))
					if pos.Line != line || pos.Column != col {
						return fmt.Sprintf("err BADPOS %v", pos)
					}
					return "err"
				}
				return "ok:" + ast.V
			})
			n++
			if got != want {
				bad++
				if bad <= 200 {
					fmt.Fprintf(w, "MISMATCH\t%s\t%s\t%q\t%q\t%q\n", sc.Text(), name, lit, want, got)
				}
			}
		}
		validGoToken := form == "dq" || form == "raw" || (form == "sq" && len(p[2]) == 4)
		if validGoToken {
			try("text/scanner", func() (*qGrammar, error) { return pText.ParseString("", input) })
		}
		try("stateful", func() (*qGrammar, error) { return pState.ParseString("", input) })
	}
	fmt.Fprintf(w, "DONE\t%d\t%d\n", n, bad)
	return nil
}

type mGrammar struct {
	Toks []string `@(A | B)*`
}

type oGrammar struct {
	W []string `@(Ident | Int | String)*`
}
type wGrammar struct {
	W []string `@(Word | Str)*`
}

type uGrammar struct {
	W []string `@(Word | Other)*`
}

type mTextGrammar struct {
	Toks []string `@(Ident | Int | "+")*`
}

var mLexer = lexer.MustSimple([]lexer.SimpleRule{{Name: "A", Pattern: `a`}, {Name: "B", Pattern: `b`}, {Name: "C", Pattern: `c`}})

// mapper-run <lines>: "stream|sel1,sel2,sel3|expected call log"; three recording Map mappers with the given selections
// (and an Upper mapper check) on a lexer with token types A B C, C elided.
func mapperRun(args []string) error {
	f, err := os.Open(args[0])
	if err != nil {
		return err
	}
	defer f.Close()
	sc := bufio.NewScanner(f)
	w := bufio.NewWriter(os.Stdout)
	defer w.Flush()
	n, bad := 0, 0
	selTypes := map[string][]string{"*": nil, "A": {"A"}, "B": {"B"}, "C": {"C"}, "AB": {"A", "B"}}
	for sc.Scan() {
		p := strings.Split(sc.Text(), "|")
		if len(p) != 3 {
			return fmt.Errorf("bad line %q", sc.Text())
		}
		input := strings.ToLower(p[0])
		sels := strings.Split(p[1], ",")
		var log []string
		opts := []participle.Option{participle.Lexer(mLexer), participle.Elide("C")}
		for i, s := range sels {
			id := i + 1
			opts = append(opts, participle.Map(func(t lexer.Token) (lexer.Token, error) {
				if !t.EOF() {
					log = append(log, fmt.Sprintf("%d@%d", id, t.Pos.Offset+1))
				}
				return t, nil
			}, allSel(selTypes[s], i)...))
		}
		parser, err := participle.Build[mGrammar](opts...)
		if err != nil {
			return err
		}
		check := func(what string, f func() error) {
			log = nil
			if err := f(); err != nil {
				bad++
				fmt.Fprintf(w, "MISMATCH\t%s\t%s\terror %v\n", sc.Text(), what, err)
				return
			}
			n++
			if got := strings.Join(log, " "); got != p[2] {
				bad++
				if bad <= 100 {
					fmt.Fprintf(w, "MISMATCH\t%s\t%s\tcalls %q, specification %q\n", sc.Text(), what, got, p[2])
				}
			}
		}
		check("ParseString", func() error { _, err := parser.ParseString("", input); return err })
		check("Lex", func() error { _, err := parser.Lex("", strings.NewReader(input)); return err })
		check("ParseBytes", func() error { _, err := parser.ParseBytes("", []byte(input)); return err })
		// the same pipeline over the default text/scanner lexer: A = Ident, B = Int, C = the punctuation token "+", whose
		// type is the rune itself and has no symbol name (only catch-all mappers can select it)
		if !strings.Contains(p[1], "C") {
			tsel := map[string][]string{"*": nil, "A": {"Ident"}, "B": {"Int"}, "AB": {"Ident", "Int"}}
			var topts []participle.Option
			for i, s := range sels {
				id := i + 1
				topts = append(topts, participle.Map(func(t lexer.Token) (lexer.Token, error) {
					if !t.EOF() {
						log = append(log, fmt.Sprintf("%d@%d", id, t.Pos.Offset/2+1))
					}
					return t, nil
				}, allSel(tsel[s], i)...))
			}
			tparser, err := participle.Build[mTextGrammar](topts...)
			if err != nil {
				return err
			}
			tinput := strings.Join(strings.Split(strings.NewReplacer("a", "a", "b", "1", "c", "+").Replace(input), ""), " ")
			check("text/scanner ParseString", func() error { _, err := tparser.ParseString("", tinput); return err })
			check("text/scanner Lex", func() error { _, err := tparser.Lex("", strings.NewReader(tinput)); return err })
		}
		// Upper on the first selection: exactly the selected types are upper-cased, positions untouched
		up, err := participle.Build[mGrammar](participle.Lexer(mLexer), participle.Elide("C"), participle.Upper(allSel(selTypes[sels[0]], len(sels))...))
		if err != nil {
			return err
		}
		plain, _ := participle.Build[mGrammar](participle.Lexer(mLexer), participle.Elide("C"))
		ut, err1 := up.Lex("", strings.NewReader(input))
		pt, err2 := plain.Lex("", strings.NewReader(input))
		n++
		if err1 != nil || err2 != nil || len(ut) != len(pt) {
			bad++
			fmt.Fprintf(w, "MISMATCH\t%s\tUpper\tlexing differs\n", sc.Text())
			continue
		}
		names := lexer.SymbolsByRune(mLexer)
		for i := range ut {
			selected := sels[0] == "*" || strings.Contains(sels[0], names[pt[i].Type])
			want := pt[i].Value
			if selected {
				want = strings.ToUpper(want)
			}
			if ut[i].Value != want || ut[i].Pos != pt[i].Pos || ut[i].Type != pt[i].Type {
				bad++
				fmt.Fprintf(w, "MISMATCH\t%s\tUpper\ttoken %d is %v, expected value %q at %v\n", sc.Text(), i, ut[i], want, pt[i].Pos)
				break
			}
		}
	}
	// Upper on texts whose lower-case letters are not ASCII; mixed; already upper; digits
	{
		wl := lexer.MustSimple([]lexer.SimpleRule{{Name: "Word", Pattern: `[\pL\pN]+`}, {Name: "Other", Pattern: `[^\s\pL\pN]+`}, {Name: "ws", Pattern: `\s+`}})
		up, err1 := participle.Build[uGrammar](participle.Lexer(wl), participle.Upper("Word"))
		upAll, err2 := participle.Build[uGrammar](participle.Lexer(wl), participle.Upper())
		if err1 != nil || err2 != nil {
			return fmt.Errorf("upper parsers: %v %v", err1, err2)
		}
		for _, in := range []string{"ñ", "CAFé", "привет", "ΑΒγ", "abc", "ABC", "straße x1", "ǆ ß ÿ", "x-ñ+y"} {
			for name, p := range map[string]*participle.Parser[uGrammar]{"Upper(Word)": up, "Upper()": upAll} {
				v, err := p.ParseString("", in)
				n++
				want := strings.ToUpper(strings.Join(strings.Fields(in), " "))
				got := "err"
				if err == nil {
					got = strings.Join(v.W, " ")
				}
				if name == "Upper(Word)" {
					// only Word tokens are mapped: Other tokens keep their text (they contain no letters anyway)
					want = strings.ToUpper(strings.Join(strings.Fields(in), " "))
				}
				if strings.ReplaceAll(got, " ", "") != strings.ReplaceAll(want, " ", "") {
					bad++
					fmt.Fprintf(w, "MISMATCH\t%s\t%s\ttokens %q, expected %q\n", in, name, got, want)
				}
			}
		}
	}
	// mappers name token types of the parser's FINAL lexer, wherever the Lexer option stands in the list (the names below exist in
	// the default lexer too, with other numbers)
	{
		lx := lexer.MustSimple([]lexer.SimpleRule{{Name: "Int", Pattern: `\d+`}, {Name: "String", Pattern: `"[^"]*"`}, {Name: "Ident", Pattern: `[a-z]+`}, {Name: "ws", Pattern: `\s+`}})
		var seen []string
		watch := func(t lexer.Token) (lexer.Token, error) { seen = append(seen, t.Value); return t, nil }
		orders := map[string][]participle.Option{
			"Lexer first": {participle.Lexer(lx), participle.Unquote("String"), participle.Upper("Ident"), participle.Map(watch, "Int")},
			"Lexer last":  {participle.Unquote("String"), participle.Upper("Ident"), participle.Map(watch, "Int"), participle.Lexer(lx)},
			"Lexer amid":  {participle.Unquote("String"), participle.Lexer(lx), participle.Map(watch, "Int"), participle.Upper("Ident")},
		}
		for name, opts := range orders {
			n++
			seen = nil
			p, err := participle.Build[oGrammar](opts...)
			if err != nil {
				bad++
				fmt.Fprintf(w, "MISMATCH\toption order\t%s\tBuild: %v\n", name, err)
				continue
			}
			toks, err := p.Lex("", strings.NewReader(`ab "cd" 12 x`))
			var vals []string
			for _, t := range toks {
				if !t.EOF() {
					vals = append(vals, t.Value)
				}
			}
			if got, want := strings.Join(vals, "|")+" seen "+strings.Join(seen, ","), "AB|cd|12|X seen 12"; err != nil || got != want {
				bad++
				fmt.Fprintf(w, "MISMATCH\toption order\t%s\ttokens %q (%v), expected %q\n", name, got, err, want)
			}
		}
	}
	// lexers with many token types: the mapped type lies beyond the 64th
	for _, nrules := range []int{60, 61, 62, 63, 64, 70, 130} {
		var rules []lexer.SimpleRule
		for i := 0; i < nrules; i++ {
			rules = append(rules, lexer.SimpleRule{Name: fmt.Sprintf("K%d", i), Pattern: fmt.Sprintf("@k%d@", i)})
		}
		rules = append(rules, lexer.SimpleRule{Name: "Word", Pattern: `[a-z]+`}, lexer.SimpleRule{Name: "Str", Pattern: `"[^"]*"`}, lexer.SimpleRule{Name: "ws", Pattern: `\s+`})
		var seen []string
		last := fmt.Sprintf("K%d", nrules-1)
		p, err := participle.Build[wGrammar](participle.Lexer(lexer.MustSimple(rules)), participle.Upper("Word"), participle.Unquote("Str"),
			participle.Map(func(t lexer.Token) (lexer.Token, error) { seen = append(seen, t.Value); return t, nil }, last))
		n++
		if err != nil {
			bad++
			fmt.Fprintf(w, "MISMATCH\tmany types\t%d\tBuild: %v\n", nrules, err)
			continue
		}
		in := fmt.Sprintf(`ab @k%d@ "q" @k0@`, nrules-1)
		toks, err := p.Lex("", strings.NewReader(in))
		var vals []string
		for _, t := range toks {
			if !t.EOF() {
				vals = append(vals, t.Value)
			}
		}
		want := fmt.Sprintf("AB|@k%d@|q|@k0@ seen @k%d@", nrules-1, nrules-1)
		if got := strings.Join(vals, "|") + " seen " + strings.Join(seen, ","); err != nil || got != want {
			bad++
			fmt.Fprintf(w, "MISMATCH\tmany types\t%d rules before Word\ttokens %q (%v), expected %q\n", nrules, got, err, want)
		}
	}
	// a catch-all mapper that changes a token's TYPE: the typed mappers are chosen by the type the lexer gave the token
	{
		var log []string
		retype := participle.Map(func(t lexer.Token) (lexer.Token, error) {
			if t.Value == "a" {
				t.Type = mLexer.Symbols()["B"]
			}
			return t, nil
		})
		onA := participle.Map(func(t lexer.Token) (lexer.Token, error) { log = append(log, "A:"+t.Value); return t, nil }, "A")
		onB := participle.Map(func(t lexer.Token) (lexer.Token, error) { log = append(log, "B:"+t.Value); return t, nil }, "B")
		p, err := participle.Build[mGrammar](participle.Lexer(mLexer), participle.Elide("C"), retype, onA, onB)
		if err != nil {
			return err
		}
		for _, in := range []string{"a", "b", "ab", "bca"} {
			log = nil
			_, _ = p.Lex("", strings.NewReader(in))
			want := []string{}
			for _, ch := range in {
				if ch == 'a' {
					want = append(want, "A:a")
				} else if ch == 'b' {
					want = append(want, "B:b")
				}
			}
			n++
			if strings.Join(log, " ") != strings.Join(want, " ") {
				bad++
				fmt.Fprintf(w, "MISMATCH\t%s\tretyping catch-all mapper\ttyped mappers saw %q, expected %q (selection by the lexed type)\n", in, log, want)
			}
		}
	}
	fmt.Fprintf(w, "DONE\t%d\t%d\n", n, bad)
	return nil
}

// allSel: "every token" is an empty selection, however the caller spells it: no arguments at all, or an empty slice spread into
// the variadic parameter (every other mapper gets the second spelling)
func allSel(sel []string, i int) []string {
	if len(sel) == 0 && i%2 == 1 {
		return []string{}
	}
	return sel
}
