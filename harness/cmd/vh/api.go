package main

import (
	"bufio"
	"bytes"
	"encoding/json"
	"errors"
	"fmt"
	"io"
	"os"
	"reflect"
	"strings"
	"testing/iotest"
	"text/scanner"

	"github.com/alecthomas/participle/v2"
	"github.com/alecthomas/participle/v2/lexer"
)

func init() { commands["api-run"] = apiRun }

func tokensKey(ts []lexer.Token, names map[lexer.TokenType]string) string {
	var sb strings.Builder
	for _, t := range ts {
		fmt.Fprintf(&sb, "%s:%q@%d:%d:%d:%s ", names[t.Type], t.Value, t.Pos.Offset, t.Pos.Line, t.Pos.Column, t.Pos.Filename)
	}
	return sb.String()
}

func lexAll(l lexer.Lexer, err error) ([]lexer.Token, error) {
	if err != nil {
		return nil, err
	}
	return lexer.ConsumeAll(l)
}

// api-run <cases.json> <variant>: variant = core | generated | plain | upper | generated-upper | multi-upper.  For every grammar, lookahead and
// input, every entry point is exercised; one line per call: "id\tk\tindex\tentry point\toutcome".
func apiRun(args []string) error {
	f, err := os.Open(args[0])
	if err != nil {
		return err
	}
	defer f.Close()
	var gs []gGrammar
	if err := json.NewDecoder(bufio.NewReaderSize(f, 1<<20)).Decode(&gs); err != nil {
		return err
	}
	variant := args[1]
	var extra []participle.Option
	lexDef := lexer.Definition(coreLexer)
	if strings.HasPrefix(variant, "generated") {
		d, v := generatedMaker(&rawCase{ID: "core"})
		if d == nil {
			return fmt.Errorf("no generated core lexer: %s", v)
		}
		lexDef = d
		extra = append(extra, participle.Lexer(d))
	}
	if variant == "plain" {
		// a definition that offers ONLY Lex(filename, reader): ParseString / ParseBytes go through the reader path
		lexDef = plainDefinition{coreLexer}
		extra = append(extra, participle.Lexer(lexDef))
	}
	if strings.HasPrefix(variant, "multi") {
		// several mappers for all tokens and mappers for single token types side by side (the chain applied to a token is a
		// function of its type alone, for every call on the parser)
		id := func(t lexer.Token) (lexer.Token, error) { return t, nil }
		extra = append(extra, participle.Map(id), participle.Map(id), participle.Map(id))
	}
	if strings.HasSuffix(variant, "upper") {
		extra = append(extra, participle.Upper("Ident"))
	}
	if strings.HasPrefix(variant, "multi") {
		id := func(t lexer.Token) (lexer.Token, error) { return t, nil }
		extra = append(extra, participle.Map(id, "Int"), participle.Map(id, "Punct"))
	}
	w := bufio.NewWriterSize(os.Stdout, 1<<20)
	defer w.Flush()
	if variant == "core" {
		parseableRoot(w)
		userErrors(w)
		textScannerEntryPoints(w)
		deepAndHistoryEntryPoints(w)
	}
	for gi := range gs {
		g := &gs[gi]
		for _, k := range g.Ks {
			b, err := buildWith(g, k, extra...)
			if err != nil {
				fmt.Fprintf(w, "%s\t%d\t-\tbuild\tbuilderr %v\n", g.ID, k, strings.ReplaceAll(err.Error(), "\n", " "))
				continue
			}
			names := lexer.SymbolsByRune(b.p.Lexer())
			allS := []string{}
			for _, in := range g.Inputs {
				allS = append(allS, in.S)
			}
			// inputs beyond the case file (judged only by comparing the entry points with one another): a leading byte-order
			// mark is part of the input for every entry point alike
			for bi := 0; bi < len(g.Inputs) && bi < 3; bi++ {
				allS = append(allS, "\ufeff"+g.Inputs[bi].S)
			}
			// ... and tokens much longer than any display width (the Trace option prints tokens; it must not touch them)
			long := strings.Repeat("xy", 30)
			allS = append(allS, long, "( "+long+" 7", long+" "+strings.Repeat("9", 40)+" !")
			// ... and bytes that are not UTF-8 (the core lexer's Punct class takes them): no entry point may treat them specially
			allS = append(allS, "\xff", "a \xe9 b", "( x \xff\xfe", "\xc3")
			for i, s := range allS {
				emit := func(ep, out string) { fmt.Fprintf(w, "%s\t%d\t%d\t%s\t%s\n", g.ID, k, i, ep, out) }
				render := func(ast *DynRoot, err error, raw []lexer.Token) (res string) {
					defer func() {
						if r := recover(); r != nil {
							res = "bug"
						}
					}()
					if err != nil {
						return "err " + err.Error()
					}
					toks := map[lexer.Position]int{}
					for ti, t := range raw {
						toks[t.Pos] = ti + 1
					}
					sb := &strings.Builder{}
					b.names[reflect.TypeOf(DynRoot{})] = "DynRoot"
					canon(b.names, reflect.ValueOf(ast).Elem(), toks, sb)
					return "ok " + sb.String()
				}
				guard := func(ep string, fn func() string) {
					emit(ep, runGuarded(func() (res string) {
						defer func() {
							if r := recover(); r != nil {
								res = "bug"
							}
						}()
						return fn()
					}))
				}
				raw, lerr := b.p.Lex("fn", strings.NewReader(s))
				if lerr != nil {
					emit("Lex", "lexerr "+lerr.Error())
				} else {
					emit("Lex", tokensKey(raw, names))
				}
				tr := participle.AllowTrailing(b.trailing)
				guard("ParseString", func() string { a, e := b.p.ParseString("fn", s, tr); return render(a, e, raw) })
				guard("ParseBytes", func() string {
					// the caller reuses its buffer afterwards: what was returned must not change with it
					buf := []byte(s)
					a, e := b.p.ParseBytes("fn", buf, tr)
					for bi := range buf {
						buf[bi] = '#'
					}
					return render(a, e, raw)
				})
				guard("Parse", func() string { a, e := b.p.Parse("fn", strings.NewReader(s), tr); return render(a, e, raw) })
				// readers that deliver the same bytes differently: data together with io.EOF, one byte per Read, a reader
				// with a Name() of its own (the caller's filename wins; the reader's name is used only when none is given)
				guard("Parse(DataErrReader)", func() string {
					a, e := b.p.Parse("fn", iotest.DataErrReader(strings.NewReader(s)), tr)
					return render(a, e, raw)
				})
				guard("Parse(OneByteReader)", func() string {
					a, e := b.p.Parse("fn", iotest.OneByteReader(strings.NewReader(s)), tr)
					return render(a, e, raw)
				})
				// in-memory readers the caller has already read from: only what is left is the input (Size() / Len() of such a
				// reader still count or once counted the bytes already gone)
				guard("Parse(part-read strings.Reader)", func() string {
					r := strings.NewReader("zz" + s)
					_, _ = r.Read(make([]byte, 2))
					a, e := b.p.Parse("fn", r, tr)
					return render(a, e, raw)
				})
				guard("Parse(part-read bytes.Reader)", func() string {
					r := bytes.NewReader([]byte("\x00(" + s))
					_, _ = r.ReadByte()
					_, _ = r.ReadByte()
					a, e := b.p.Parse("fn", r, tr)
					return render(a, e, raw)
				})
				guard("Parse(named reader)", func() string {
					a, e := b.p.Parse("fn", namedReader{strings.NewReader(s), "other.txt"}, tr)
					return render(a, e, raw)
				})
				guard("Parse(no filename, reader named fn)", func() string {
					a, e := b.p.Parse("", namedReader{strings.NewReader(s), "fn"}, tr)
					return render(a, e, raw)
				})
				for _, rd := range []struct {
					ep string
					r  io.Reader
				}{{"Lex(DataErrReader)", iotest.DataErrReader(strings.NewReader(s))}, {"Lex(named reader)", namedReader{strings.NewReader(s), "other.txt"}}} {
					raw2, lerr2 := b.p.Lex("fn", rd.r)
					if lerr2 != nil {
						emit(rd.ep, "lexerr "+lerr2.Error())
					} else {
						emit(rd.ep, tokensKey(raw2, names))
					}
				}
				guard("ParseString+Trace", func() string {
					var buf bytes.Buffer
					a, e := b.p.ParseString("fn", s, tr, participle.Trace(&buf))
					return render(a, e, raw)
				})
				guard("ParseBytes+Trace", func() string {
					var buf bytes.Buffer
					a, e := b.p.ParseBytes("fn", []byte(s), tr, participle.Trace(&buf))
					return render(a, e, raw)
				})
				// the definition handed out by Parser.Lexer() is the one the parser itself uses (mappers included)
				guard("ParseFromLexer(Parser.Lexer())", func() string {
					l, err := b.p.Lexer().Lex("fn", strings.NewReader(s))
					if err != nil {
						return "err " + err.Error()
					}
					pl, err := lexer.Upgrade(l, elideTypes(b.p.Lexer())...)
					if err != nil {
						return "err " + err.Error()
					}
					a, e := b.p.ParseFromLexer(pl, tr)
					return render(a, e, raw)
				})
				if lerr == nil {
					guard("ParseFromLexer", func() string {
						pl, err := lexer.Upgrade(&sliceLexer{t: raw}, elideTypes(b.p.Lexer())...)
						if err != nil {
							return "upgrade error"
						}
						a, e := b.p.ParseFromLexer(pl, tr)
						return render(a, e, raw)
					})
					guard("ParseFromLexer+AllowTrailing", func() string {
						pl, err := lexer.Upgrade(&sliceLexer{t: raw}, elideTypes(b.p.Lexer())...)
						if err != nil {
							return "upgrade error"
						}
						a, e := b.p.ParseFromLexer(pl, participle.AllowTrailing(true))
						if e != nil {
							return "err"
						}
						_ = a
						// the caller's lexer must be at the first token the parse did not consume
						return fmt.Sprintf("ok cursor=%d peek=%d", int(pl.RawCursor())+1, tokIndexOf(raw, pl.Peek()))
					})
				}
				// the definition's own entry points
				d := lexDef
				t1, e1 := lexAll(d.Lex("fn", strings.NewReader(s)))
				defKey := func(ts []lexer.Token, e error) string {
					if e != nil {
						return "lexerr " + e.Error()
					}
					return tokensKey(ts, names)
				}
				emit("def.Lex", defKey(t1, e1))
				t1b, e1b := lexAll(d.Lex("fn", iotest.DataErrReader(strings.NewReader(s))))
				emit("def.Lex(DataErrReader)", defKey(t1b, e1b))
				pr := strings.NewReader("zz" + s)
				_, _ = pr.Read(make([]byte, 2))
				t1c, e1c := lexAll(d.Lex("fn", pr))
				emit("def.Lex(part-read reader)", defKey(t1c, e1c))
				if sd, ok := d.(lexer.StringDefinition); ok {
					t2, e2 := lexAll(sd.LexString("fn", s))
					emit("def.LexString", defKey(t2, e2))
				}
				if bd, ok := d.(lexer.BytesDefinition); ok {
					buf := []byte(s)
					t3, e3 := lexAll(bd.LexBytes("fn", buf))
					for bi := range buf {
						buf[bi] = '#'
					}
					emit("def.LexBytes", defKey(t3, e3))
				}
			}
		}
	}
	return nil
}

// plainDefinition hides the optional LexString / LexBytes methods of a definition.
type plainDefinition struct{ d lexer.Definition }

func (p plainDefinition) Lex(filename string, r io.Reader) (lexer.Lexer, error) {
	return p.d.Lex(filename, r)
}
func (p plainDefinition) Symbols() map[string]lexer.TokenType { return p.d.Symbols() }

// namedReader is a reader with a name of its own (like *os.File).
type namedReader struct {
	io.Reader
	name string
}

func (n namedReader) Name() string { return n.name }

// prWord is a root grammar type implemented by user code (Parseable): it consumes exactly one token.
type prWord struct {
	Word string
}

func (p *prWord) Parse(lex *lexer.PeekingLexer) error {
	t := lex.Next()
	if t.EOF() {
		return participle.NextMatch
	}
	p.Word = t.Value
	return nil
}

// ueItem is a nested production implemented by user code that fails with a plain Go error on the token "bad".
type ueItem struct{ W string }

func (u *ueItem) Parse(lex *lexer.PeekingLexer) error {
	t := lex.Peek()
	if t.EOF() {
		return participle.NextMatch
	}
	lex.Next()
	if t.Value == "bad" {
		return errors.New("user code says no")
	}
	u.W = t.Value
	return nil
}

type ueGrammar struct {
	Head  string    `@Ident`
	Items []*ueItem `@@*`
}

// userErrors: errors that come from user code (a nested Parseable, a token mapper) reach the caller unchanged through every entry
// point; block "usererr", every emitted outcome of one input must be the same.
func userErrors(w *bufio.Writer) {
	render := func(v *ueGrammar, err error) string {
		if err != nil {
			return fmt.Sprintf("err %T %s", err, err.Error())
		}
		var ws []string
		for _, it := range v.Items {
			ws = append(ws, it.W)
		}
		return "ok " + v.Head + ":" + strings.Join(ws, ",")
	}
	mapper := participle.Map(func(t lexer.Token) (lexer.Token, error) {
		if t.Value == "boom" {
			return t, errors.New("mapper says no")
		}
		return t, nil
	})
	for pi, opts := range [][]participle.Option{
		{participle.Lexer(coreLexer), participle.Elide("WS", "Comment")},
		{participle.Lexer(coreLexer), participle.Elide("WS", "Comment"), mapper},
	} {
		p, err := participle.Build[ueGrammar](opts...)
		if err != nil {
			fmt.Fprintf(w, "usererr\t%d\t0\tbuild\tbuilderr %v\n", pi, err)
			continue
		}
		for i, s := range []string{"x a b", "x bad y", "x a bad", "x a #c# bad", "x boom", "boom", "x a boom b", "x"} {
			emit := func(ep, out string) { fmt.Fprintf(w, "usererr\t%d\t%d\t%s\t%s\n", pi, i, ep, out) }
			v1, e1 := p.ParseString("fn", s)
			emit("ParseString", render(v1, e1))
			v2, e2 := p.ParseBytes("fn", []byte(s))
			emit("ParseBytes", render(v2, e2))
			v3, e3 := p.Parse("fn", strings.NewReader(s))
			emit("Parse", render(v3, e3))
			var buf bytes.Buffer
			v4, e4 := p.ParseString("fn", s, participle.Trace(&buf))
			emit("ParseString+Trace", render(v4, e4))
			raw, lerr := p.Lex("fn", strings.NewReader(s))
			if lerr != nil {
				// the token stream cannot be produced: every Parse entry point reports exactly this error
				emit("Lex (error)", fmt.Sprintf("err %T %s", lerr, lerr.Error()))
				continue
			}
			if pl, err := lexer.Upgrade(&sliceTokLexer{toks: raw}, p.Lexer().Symbols()["WS"], p.Lexer().Symbols()["Comment"]); err == nil {
				v5, e5 := p.ParseFromLexer(pl)
				emit("ParseFromLexer", render(v5, e5))
			}
		}
	}
}

type sliceTokLexer struct {
	toks []lexer.Token
	i    int
}

func (s *sliceTokLexer) Next() (lexer.Token, error) {
	if s.i >= len(s.toks) {
		return s.toks[len(s.toks)-1], nil
	}
	t := s.toks[s.i]
	s.i++
	return t, nil
}

// parseableRoot: ParseFromLexer on a Parseable root must leave the caller's lexer just after what the user code consumed.
func parseableRoot(w *bufio.Writer) {
	p, err := participle.Build[prWord](participle.Lexer(coreLexer), participle.Elide("WS", "Comment"))
	if err != nil {
		fmt.Fprintf(w, "parseable-root\t0\t0\tParseFromLexer+AllowTrailing\tbuilderr %v\n", err)
		return
	}
	raw, _ := p.Lex("fn", strings.NewReader("a b c"))
	pl, _ := lexer.Upgrade(&sliceLexer{t: raw}, elideTypes(p.Lexer())...)
	var words []string
	func() {
		defer func() {
			if r := recover(); r != nil {
				words = append(words, fmt.Sprintf("panic:%v", r))
			}
		}()
		for i := 0; i < 5 && !pl.Peek().EOF(); i++ {
			v, err := p.ParseFromLexer(pl, participle.AllowTrailing(true))
			if err != nil {
				words = append(words, "err:"+err.Error())
				break
			}
			words = append(words, fmt.Sprintf("%s@cursor=%d", v.Word, int(pl.RawCursor())+1))
		}
	}()
	fmt.Fprintf(w, "parseable-root\t0\t0\tParseFromLexer+AllowTrailing\t%s\n", strings.Join(words, " "))
	// a root grammar type implemented by user code: every entry point, fully accepted and rejected inputs
	for i, in := range []string{"a", "a b", "", " a "} {
		for _, ep := range []struct {
			name string
			f    func() (*prWord, error)
		}{
			{"ParseString", func() (*prWord, error) { return p.ParseString("fn", in) }},
			{"ParseBytes", func() (*prWord, error) { return p.ParseBytes("fn", []byte(in)) }},
			{"Parse", func() (*prWord, error) { return p.Parse("fn", strings.NewReader(in)) }},
		} {
			out := runGuarded(func() (res string) {
				defer func() {
					if r := recover(); r != nil {
						res = fmt.Sprintf("panic %v", r)
					}
				}()
				v, err := ep.f()
				if err != nil {
					return "err " + err.Error()
				}
				return "ok " + v.Word
			})
			fmt.Fprintf(w, "parseable-root-eps\t0\t%d\t%s\t%s\n", i, ep.name, out)
		}
	}
}

type tsGrammar struct {
	Items []string `@(Ident | Comment | Int | String | "(" | ")" | "+")*`
}

// textScannerEntryPoints: a parser over NewTextScannerLexer(configure) (comments kept): every entry point must see the
// configured lexer.
// deepAndHistoryEntryPoints: (a) a deeply nested input with and without the Trace option; (b) on ONE parser, calls without
// any ParseOption before and after a call with AllowTrailing(true): an option of one call must not carry over to the next.
func deepAndHistoryEntryPoints(w *bufio.Writer) {
	for _, e := range examples() {
		if e.name != "expr" {
			continue
		}
		for i, n := range []int{40, 4000} {
			in := e.nested(n)
			emit := func(ep, out string) { fmt.Fprintf(w, "deep\t0\t%d\t%s\t%s\n", i, ep, out) }
			run := func(opts ...participle.ParseOption) string {
				return runGuarded(func() (res string) {
					defer func() {
						if r := recover(); r != nil {
							res = fmt.Sprintf("panic %v", r)
						}
					}()
					v, err := e.parse("fn", in, opts...)
					if err != nil {
						return "err " + err.Error()
					}
					_ = v
					return "ok"
				})
			}
			emit("ParseString", run())
			emit("ParseString+Trace", run(participle.Trace(io.Discard)))
		}
	}
	p, err := participle.Build[mappedGrammar]()
	if err != nil {
		return
	}
	render := func(v *mappedGrammar, err error) string {
		if err != nil {
			return "err " + err.Error()
		}
		return "ok " + strings.Join(v.Words, "|")
	}
	for i, s := range []string{"a b 1 +", "x ) y", "1 2"} {
		emit := func(ep, out string) { fmt.Fprintf(w, "history\t0\t%d\t%s\t%s\n", i, ep, out) }
		v1, e1 := p.ParseString("fn", s)
		emit("ParseString", render(v1, e1))
		// a call WITH AllowTrailing(true) in between (through ParseFromLexer on a caller-built lexer, and through ParseString)
		if l, lerr := p.Lexer().Lex("fn", strings.NewReader(s)); lerr == nil {
			if pl, uerr := lexer.Upgrade(l); uerr == nil {
				_, _ = p.ParseFromLexer(pl, participle.AllowTrailing(true))
			}
		}
		_, _ = p.ParseString("fn", s, participle.AllowTrailing(true))
		v2, e2 := p.ParseBytes("fn", []byte(s))
		emit("ParseBytes", render(v2, e2))
		v3, e3 := p.Parse("fn", strings.NewReader(s))
		emit("Parse", render(v3, e3))
		v4, e4 := p.ParseString("fn", s, participle.Trace(io.Discard))
		emit("ParseString+Trace", render(v4, e4))
	}
}

func textScannerEntryPoints(w *bufio.Writer) {
	textScannerBlock(w, "textcfg", lexer.NewTextScannerLexer(func(s *scanner.Scanner) { s.Mode = scanner.GoTokens &^ scanner.SkipComments }))
	// the default definition, also on inputs for which text/scanner reports a diagnostic (every entry point reports it alike)
	textScannerBlock(w, "textdef", lexer.TextScannerLexer)
}

func textScannerBlock(w *bufio.Writer, block string, def lexer.Definition) {
	p, err := participle.Build[tsGrammar](participle.Lexer(def))
	if err != nil {
		fmt.Fprintf(w, "%s\t0\t0\tbuild\tbuilderr %v\n", block, err)
		return
	}
	names := lexer.SymbolsByRune(p.Lexer())
	for i, s := range []string{"a // c\nb /* x */ 1", "/* only */", "x + (y) // t", "\"s\" // c", "x \"open", "'ab' y", "a\x00b", "x \xff y", "0x + 1e+", "a /* open", "`raw", "'"} {
		emit := func(ep, out string) { fmt.Fprintf(w, "%s\t0\t%d\t%s\t%s\n", block, i, ep, out) }
		render := func(v *tsGrammar, err error) string {
			if err != nil {
				return "err " + err.Error()
			}
			return "ok " + strings.Join(v.Items, "|")
		}
		raw, lerr := p.Lex("fn", strings.NewReader(s))
		if lerr != nil {
			emit("Lex", "lexerr "+lerr.Error())
		} else {
			emit("Lex", tokensKey(raw, names))
		}
		v1, e1 := p.ParseString("fn", s)
		emit("ParseString", render(v1, e1))
		v2, e2 := p.ParseBytes("fn", []byte(s))
		emit("ParseBytes", render(v2, e2))
		v3, e3 := p.Parse("fn", strings.NewReader(s))
		emit("Parse", render(v3, e3))
		var buf bytes.Buffer
		v4, e4 := p.ParseString("fn", s, participle.Trace(&buf))
		emit("ParseString+Trace", render(v4, e4))
		t1, le1 := lexAll(def.Lex("fn", strings.NewReader(s)))
		key := func(ts []lexer.Token, e error) string {
			if e != nil {
				return "lexerr " + e.Error()
			}
			return tokensKey(ts, names)
		}
		emit("def.Lex", key(t1, le1))
		if sd, ok := def.(lexer.StringDefinition); ok {
			t2, le2 := lexAll(sd.LexString("fn", s))
			emit("def.LexString", key(t2, le2))
		}
		if bd, ok := def.(lexer.BytesDefinition); ok {
			t3, le3 := lexAll(bd.LexBytes("fn", []byte(s)))
			emit("def.LexBytes", key(t3, le3))
		}
		if block == "textdef" {
			// the package-level helpers are the default definition under other names
			t4, le4 := lexAll(lexer.Lex("fn", strings.NewReader(s)), nil)
			emit("pkg.Lex", key(t4, le4))
			t5, le5 := lexAll(lexer.LexString("fn", s), nil)
			emit("pkg.LexString", key(t5, le5))
			t6, le6 := lexAll(lexer.LexBytes("fn", []byte(s)), nil)
			emit("pkg.LexBytes", key(t6, le6))
		}
	}
}

func tokIndexOf(raw []lexer.Token, t *lexer.Token) int {
	for i := range raw {
		if raw[i].Pos == t.Pos && raw[i].Type == t.Type {
			return i + 1
		}
	}
	return 0
}

func elideTypes(d lexer.Definition) []lexer.TokenType {
	s := d.Symbols()
	return []lexer.TokenType{s["WS"], s["Comment"]}
}
