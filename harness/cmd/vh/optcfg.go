package main

import (
	"bytes"
	"fmt"
	"strings"

	"github.com/alecthomas/participle/v2"
	"github.com/alecthomas/participle/v2/lexer"
)

func init() { commands["optcfg-run"] = optCfgRun }

// slices of pointers to scalars and pointers to pointers as capture targets: whatever Build and the conversions make of them,
// parsing returns
type ptrElemGrammar struct {
	Ints   []*int     `@Int*`
	Marks  []*bool    `@"!"*`
	Floats []*float64 `( "(" @Int ")" )*`
	PP     **int      `( "=" @Int )?`
	Strs   []*string  `@Ident*`
}

type optItem struct {
	Name  string   `( @Ident`
	Nums  []string `  | @Int+`
	Punct string   `  | @Punct )`
}

type optGrammar struct {
	Items []*optItem `@@*`
}

// optcfg-run: parsers built under option lists that name token types the lexer does not have, use unusual lookaheads, elide
// nothing / everything ...: Build may refuse; a parser that WAS built must parse (value or error) through every entry point.
// One line per configuration: "name\tbuild ok|err|panic\tworst outcome of the calls (ok|err|panic: ...)".
func optCfgRun(args []string) error {
	id := func(t lexer.Token) (lexer.Token, error) { return t, nil }
	type cfg struct {
		name string
		opts []participle.Option
	}
	lx := participle.Lexer(coreLexer)
	// (the same token types plus quoted strings, for mappers that rewrite values)
	lxs := participle.Lexer(lexer.MustSimple([]lexer.SimpleRule{{Name: "Ident", Pattern: `[a-zA-Z]+`}, {Name: "Int", Pattern: `[0-9]+`}, {Name: "String", Pattern: `"(\\.|[^"])*"`},
		{Name: "Punct", Pattern: `[^\sa-zA-Z0-9#"]`}, {Name: "Comment", Pattern: `#[a-z]*#`}, {Name: "WS", Pattern: `\s+`}}))
	el := participle.Elide("WS", "Comment")
	cfgs := []cfg{
		{"plain", []participle.Option{lx}},
		{"elide-unknown", []participle.Option{lx, participle.Elide("Nope")}},
		{"elide-known-and-unknown", []participle.Option{lx, participle.Elide("WS", "Nope")}},
		{"elide-unknown-before-lexer", []participle.Option{participle.Elide("Nope"), lx}},
		{"elide-nothing", []participle.Option{lx, participle.Elide()}},
		{"elide-everything", []participle.Option{lx, participle.Elide("Ident", "Int", "Punct", "Comment", "WS")}},
		{"elide-twice", []participle.Option{lx, participle.Elide("Comment"), participle.Elide("Comment", "WS")}},
		{"elide-default-lexer-unknown", []participle.Option{participle.Elide("WS")}},
		{"elide-default-lexer-known", []participle.Option{participle.Elide("Comment")}},
		{"caseinsensitive-unknown", []participle.Option{lx, participle.CaseInsensitive("Nope")}},
		{"caseinsensitive-nothing", []participle.Option{lx, participle.CaseInsensitive()}},
		{"upper-unknown", []participle.Option{lx, participle.Upper("Nope")}},
		{"map-unknown", []participle.Option{lx, participle.Map(id, "Nope")}},
		{"map-known-and-unknown", []participle.Option{lx, participle.Map(id, "Ident", "Nope")}},
		{"unquote-default-names-absent", []participle.Option{lx, participle.Unquote()}},
		{"unquote-unknown", []participle.Option{lx, participle.Unquote("Nope")}},
		{"lookahead-0", []participle.Option{lx, participle.UseLookahead(0)}},
		{"lookahead-negative", []participle.Option{lx, participle.UseLookahead(-9)}},
		{"lookahead-max", []participle.Option{lx, participle.UseLookahead(participle.MaxLookahead)}},
		{"lookahead-twice", []participle.Option{lx, participle.UseLookahead(3), participle.UseLookahead(1)}},
		{"lexer-twice", []participle.Option{participle.Lexer(lexer.TextScannerLexer), lx}},
		{"upper-and-unquote", []participle.Option{lxs, el, participle.Upper("Ident"), participle.Unquote("String")}},
		{"unquote-and-upper", []participle.Option{lxs, el, participle.Unquote("String"), participle.Upper("Ident")}},
		{"catchalls-and-typed-mappers", []participle.Option{lxs, el, participle.Map(id), participle.Map(id), participle.Map(id), participle.Upper("Ident"), participle.Unquote("String"), participle.Map(id, "Int")}},
		{"typed-mappers-three-types", []participle.Option{lxs, el, participle.Map(id, "Int"), participle.Upper("Ident", "Punct"), participle.Unquote("String")}},
		{"no-options", nil},
	}
	inputs := []string{"", "a", "a 1 2 !", " a#x#b ", "1a", "\xff", "a\x00b", "\"s\" 'c' `r`", strings.Repeat("a ", 50), "x \"\" y", "\"a\\nb\" q 7", "\"\\q\""}
	{
		build := "ok"
		worst := "ok"
		func() {
			defer func() {
				if r := recover(); r != nil {
					build = fmt.Sprintf("panic: %v", r)
				}
			}()
			p, err := participle.Build[ptrElemGrammar](lx, participle.Elide("WS", "Comment"))
			if err != nil {
				build = "err " + strings.ReplaceAll(err.Error(), "\n", " ")
				return
			}
			for _, in := range []string{"", "1", "1 2 ! ! ( 3 ) = 4 a b", "! x", "= 7", "( 1 ) ( 2 )", "9 9 9"} {
				o := runGuarded(func() (res string) {
					defer func() {
						if r := recover(); r != nil {
							res = fmt.Sprintf("panic: %v", r)
						}
					}()
					if _, err := p.ParseString("f", in); err != nil {
						return "err"
					}
					return "ok"
				})
				if strings.HasPrefix(o, "panic") || o == "hang" {
					worst = fmt.Sprintf("%s in ParseString(%q)", o, in)
					break
				}
			}
		}()
		if build == "ok" {
			fmt.Printf("pointer-element-fields\tok\t%s\n", worst)
		} else {
			fmt.Printf("pointer-element-fields\t%s\t-\n", build)
		}
	}
	for _, c := range cfgs {
		var p *participle.Parser[optGrammar]
		build := runGuarded(func() (res string) {
			defer func() {
				if r := recover(); r != nil {
					res = fmt.Sprintf("panic: %v", r)
				}
			}()
			var err error
			p, err = participle.Build[optGrammar](c.opts...)
			if err != nil {
				p = nil
				return "err " + strings.ReplaceAll(err.Error(), "\n", " ")
			}
			return "ok"
		})
		if p == nil || build != "ok" {
			fmt.Printf("%s\t%s\t-\n", c.name, build)
			continue
		}
		worst := "ok"
		note := func(ep, in, o string) {
			if strings.HasPrefix(o, "panic") || o == "hang" {
				if !strings.HasPrefix(worst, "panic") && worst != "hang" {
					worst = fmt.Sprintf("%s in %s(%q)", o, ep, in)
				}
			} else if o == "err" && worst == "ok" {
				worst = "err"
			}
		}
		call := func(ep, in string, f func() error) {
			note(ep, in, runGuarded(func() (res string) {
				defer func() {
					if r := recover(); r != nil {
						res = fmt.Sprintf("panic: %v", r)
					}
				}()
				if err := f(); err != nil {
					return "err"
				}
				return "ok"
			}))
		}
		for _, in := range inputs {
			in := in
			call("ParseString", in, func() error { _, err := p.ParseString("f", in); return err })
			call("ParseBytes", in, func() error { _, err := p.ParseBytes("f", []byte(in)); return err })
			call("Parse", in, func() error { _, err := p.Parse("f", strings.NewReader(in)); return err })
			call("ParseString+AllowTrailing", in, func() error { _, err := p.ParseString("f", in, participle.AllowTrailing(true)); return err })
			call("ParseString+Trace", in, func() error { _, err := p.ParseString("f", in, participle.Trace(&bytes.Buffer{})); return err })
			call("Lex", in, func() error { _, err := p.Lex("f", strings.NewReader(in)); return err })
		}
		call("String", "", func() error { _ = p.String(); return nil })
		fmt.Printf("%s\t%s\t%s\n", c.name, build, worst)
	}
	return nil
}
