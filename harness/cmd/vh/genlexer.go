package main

import (
	"bufio"
	"bytes"
	"encoding/json"
	"fmt"
	"os"
	"os/exec"
	"path/filepath"
	"runtime/debug"
	"strconv"
	"strings"
	"time"

	"github.com/alecthomas/participle/v2/lexer"
)

func init() {
	commands["gen-lexers"] = genLexers
	commands["gen-compare"] = genCompare
}

func genName(id string) string {
	var sb strings.Builder
	sb.WriteString("G")
	for _, r := range id {
		if (r >= 'a' && r <= 'z') || (r >= 'A' && r <= 'Z') || (r >= '0' && r <= '9') {
			sb.WriteRune(r)
		} else {
			sb.WriteString("x")
		}
	}
	return sb.String()
}

// gen-lexers <raw.json> <participle binary> <genlex dir>: runs the real generator on every accepted definition.
func genLexers(args []string) error {
	raw, err := readRaw(args[0])
	if err != nil {
		return err
	}
	var reg bytes.Buffer
	reg.WriteString("//go:build genlex\n\npackage genlex\n\nfunc init() {\n")
	for i := range raw.Cases {
		c := &raw.Cases[i]
		def, v := safeNew(c.rules())
		if def == nil {
			fmt.Printf("GEN\t%s\tskipped: %s\n", c.ID, v)
			continue
		}
		doc, err := json.Marshal(def)
		if err != nil {
			return err
		}
		name := genName(c.ID)
		cmd := exec.Command(args[1], "gen", "lexer", "--name", name, "--tags", "genlex", "genlex")
		cmd.Stdin = bytes.NewReader(doc)
		var out, errb bytes.Buffer
		cmd.Stdout, cmd.Stderr = &out, &errb
		done := make(chan error, 1)
		if err := cmd.Start(); err != nil {
			return err
		}
		go func() { done <- cmd.Wait() }()
		select {
		case err = <-done:
		case <-time.After(60 * time.Second):
			cmd.Process.Kill()
			err = fmt.Errorf("generator hangs")
		}
		if err != nil {
			fmt.Printf("GEN\t%s\tfailed: %v %s\n", c.ID, err, strings.ReplaceAll(errb.String(), "\n", " "))
			continue
		}
		if err := os.WriteFile(filepath.Join(args[2], "g_"+name+".go"), out.Bytes(), 0o644); err != nil {
			return err
		}
		fmt.Fprintf(&reg, "\tDefs[%q] = %sLexer\n", c.ID, name)
		fmt.Printf("GEN\t%s\tok\t%s\n", c.ID, name)
	}
	reg.WriteString("}\n")
	return os.WriteFile(filepath.Join(args[2], "registry.go"), reg.Bytes(), 0o644)
}

// gen-compare <raw.json> <expect file> <extra calls>: per line "id|input|why|spec stream (or TOLERATED)" runs the real
// runtime lexer and the real generated lexer.
func genCompare(args []string) error {
	raw, err := readRaw(args[0])
	if err != nil {
		return err
	}
	extra, _ := strconv.Atoi(args[2])
	byID := map[string]*rawCase{}
	for i := range raw.Cases {
		byID[raw.Cases[i].ID] = &raw.Cases[i]
	}
	f, err := os.Open(args[1])
	if err != nil {
		return err
	}
	defer f.Close()
	sc := bufio.NewScanner(f)
	sc.Buffer(make([]byte, 1<<20), 1<<20)
	w := bufio.NewWriter(os.Stdout)
	defer w.Flush()
	type pair struct {
		rt, gen      interface{}
		rtN, genN    map[int]string
		symsCompared bool
	}
	n, tol, tolDiff, gendiff, specdiff := 0, 0, 0, 0, 0
	seenSym := map[string]bool{}
	hangs := map[string]int{}
	pool := map[string]map[string]string{}
	pairs := map[string]int{}
	for sc.Scan() {
		p := strings.SplitN(sc.Text(), "|", 4)
		if len(p) != 4 {
			return fmt.Errorf("bad expect line %q", sc.Text())
		}
		c := byID[p[0]]
		rt, _ := runtimeMaker(c)
		gen, gv := generatedMaker(c)
		if rt == nil {
			continue
		}
		if gen == nil {
			if !seenSym[p[0]] {
				seenSym[p[0]] = true
				fmt.Fprintf(w, "NOGEN\t%s\t%s\n", p[0], gv)
			}
			continue
		}
		if !seenSym[p[0]] {
			seenSym[p[0]] = true
			rs, gs := rt.Symbols(), gen.Symbols()
			same := len(rs) == len(gs)
			for k, t := range rs {
				if g, ok := gs[k]; !ok || g != t {
					same = false
				}
			}
			if !same {
				fmt.Fprintf(w, "GENSYM\t%s\truntime=%v\tgenerated=%v\n", p[0], rs, gs)
			}
		}
		in := raw.decodeInput(p[1])
		// two lexers of the same definition alive at once, advanced alternately: each must behave as if alone
		// (pool: inputs of one definition with pairwise different two-byte prefixes, so that the lexers are in different states)
		key := in
		if len(key) > 2 {
			key = key[:2]
		}
		if pool[p[0]] == nil {
			pool[p[0]] = map[string]string{}
		}
		if old, ok := pool[p[0]][key]; (!ok && len(pool[p[0]]) < 64 && len(in) >= 2) || (ok && len(in) > len(old) && pairs[p[0]] < 4000) {
			for _, other := range pool[p[0]] {
				if other == old && ok {
					continue
				}
				pairs[p[0]]++
				for _, d := range []struct {
					name string
					def  lexer.Definition
				}{{"generated", gen}, {"runtime", rt}} {
					nm := symbolNames(d.def)
					wa, wb := runLexer(d.def, nm, other, 0, "f.txt"), runLexer(d.def, nm, in, 0, "f.txt")
					if wa == "HANG" || wb == "HANG" {
						continue
					}
					ga, gb := interleaved(d.def, nm, other, in)
					if ga != wa || gb != wb {
						fmt.Fprintf(w, "INTERLEAVE\t%s\t%s\t%s lexers on %q and %q advanced alternately give %q / %q, alone %q / %q\n", p[0], p[1], d.name, other, in, ga, gb, wa, wb)
					}
				}
			}
			pool[p[0]][key] = in
		}
		n++
		if hangs[p[0]] >= 2 {
			continue
		}
		rr := runLexer(rt, symbolNames(rt), in, extra, "f.txt")
		gr := runLexer(gen, symbolNames(gen), in, extra, "f.txt")
		if rr == "HANG" || gr == "HANG" {
			hangs[p[0]]++
		}
		if p[3] == "TOLERATED" {
			tol++
			if rr != gr {
				tolDiff++
			}
			for _, bad := range []string{"PANIC", "HANG", "TOOMANY", "XEOFMOVED"} {
				if strings.Contains(gr, bad) {
					fmt.Fprintf(w, "GENBAD\t%s\t%s\t%s\t%s\t%s\n", p[0], p[1], p[2], rr, gr)
					break
				}
			}
			continue
		}
		if rr != p[3] {
			specdiff++
			if specdiff <= 50 {
				fmt.Fprintf(w, "SPECDIFF\t%s\t%s\t%s\t%s\t%s\n", p[0], p[1], p[2], p[3], rr)
			}
		}
		if gr != rr {
			gendiff++
			if gendiff <= 100000 {
				fmt.Fprintf(w, "GENDIFF\t%s\t%s\t%s\t%s\t%s\n", p[0], p[1], p[2], rr, gr)
			}
		}
	}
	fmt.Fprintf(w, "DONE\t%d\t%d\t%d\t%d\t%d\n", n, tol, tolDiff, gendiff, specdiff)
	return nil
}

func init() { commands["gen-deep"] = genDeep }

// gen-deep <raw.json> <case id> <unit symbols> <n> <max stack bytes>: lexes the unit repeated n times with the generated and
// the runtime lexer in this (child) process under a stack limit; prints the token counts.
func genDeep(args []string) error {
	raw, err := readRaw(args[0])
	if err != nil {
		return err
	}
	n, _ := strconv.Atoi(args[3])
	limit, _ := strconv.Atoi(args[4])
	debug.SetMaxStack(limit)
	for i := range raw.Cases {
		c := &raw.Cases[i]
		if c.ID != args[1] {
			continue
		}
		in := strings.Repeat(raw.decodeInput(args[2]), n)
		count := func(d lexer.Definition) string {
			if d == nil {
				return "nodef"
			}
			l, err := d.Lex("f", strings.NewReader(in))
			if err != nil {
				return "initerr"
			}
			k := 0
			for {
				t, err := l.Next()
				if err != nil {
					return fmt.Sprintf("err after %d", k)
				}
				if t.EOF() {
					return fmt.Sprintf("%d tokens EOF@%d", k, t.Pos.Offset)
				}
				k++
			}
		}
		rt, _ := runtimeMaker(c)
		gen, _ := generatedMaker(c)
		fmt.Printf("runtime\t%s\n", count(rt))
		fmt.Printf("generated\t%s\n", count(gen))
		return nil
	}
	return fmt.Errorf("no case %s", args[1])
}

// interleaved runs two lexers of ONE definition alternately (a.Next, b.Next, a.Next, ...) and returns the two streams.
func interleaved(def lexer.Definition, names map[lexer.TokenType]string, a, b string) (ra, rb string) {
	defer func() {
		if r := recover(); r != nil {
			ra, rb = fmt.Sprintf("PANIC %v", r), "PANIC"
		}
	}()
	la, e1 := def.Lex("f.txt", strings.NewReader(a))
	lb, e2 := def.Lex("f.txt", strings.NewReader(b))
	if e1 != nil || e2 != nil {
		return "LEXINITERR", "LEXINITERR"
	}
	var sa, sb strings.Builder
	doneA, doneB := false, false
	step := func(l lexer.Lexer, sb *strings.Builder, done *bool) {
		if *done {
			return
		}
		t, err := l.Next()
		if err != nil {
			pos, _ := errPos(err)
			fmt.Fprintf(sb, "ERR@%d:%d:%d", pos.Offset, pos.Line, pos.Column)
			*done = true
			return
		}
		if t.EOF() {
			fmt.Fprintf(sb, "EOF@%d:%d:%d", t.Pos.Offset, t.Pos.Line, t.Pos.Column)
			*done = true
			return
		}
		fmt.Fprintf(sb, "%s@%d:%d:%d+%d ", names[t.Type], t.Pos.Offset, t.Pos.Line, t.Pos.Column, len(t.Value))
	}
	for i := 0; i < len(a)+len(b)+4 && !(doneA && doneB); i++ {
		step(la, &sa, &doneA)
		step(lb, &sb, &doneB)
	}
	return sa.String(), sb.String()
}
