package main

import (
	"bufio"
	"encoding/json"
	"fmt"
	"github.com/alecthomas/participle/v2"
	"os"
	"reflect"
	"strings"
	"time"

	"verifharness/gengram"

	"github.com/alecthomas/participle/v2/ebnf"
)

func init() { commands["ebnf-run"] = ebnfRun }

type eTerm struct {
	Neg  bool   `json:"neg"`
	Kind string `json:"kind"`
	Text string `json:"text"`
	Look string `json:"look"`
	Expr eExpr  `json:"expr"`
	Rep  string `json:"rep"`
}
type eExpr struct {
	Alts [][]eTerm `json:"alts"`
}
type eProd struct {
	Name string `json:"name"`
	Expr eExpr  `json:"expr"`
}

func convExpr(e *ebnf.Expression) eExpr {
	out := eExpr{Alts: [][]eTerm{}}
	if e == nil {
		return out
	}
	for _, s := range e.Alternatives {
		ts := []eTerm{}
		for _, t := range s.Terms {
			et := eTerm{Neg: t.Negation, Rep: t.Repetition, Expr: eExpr{Alts: [][]eTerm{}}}
			// (read through reflection so that the harness does not depend on the exact type of the field)
			lit := fmt.Sprint(reflect.ValueOf(*t).FieldByName("Literal").Interface())
			switch {
			case t.Name != "":
				et.Kind, et.Text = "name", t.Name
			case lit != "":
				et.Kind, et.Text = "lit", lit
			case t.Token != "":
				et.Kind, et.Text = "tok", t.Token
			case t.Group != nil:
				et.Kind = "grp"
				if t.Group.Lookahead != ebnf.LookaheadAssertionNone {
					et.Look = string(rune(t.Group.Lookahead))
				}
				et.Expr = convExpr(t.Group.Expr)
			}
			ts = append(ts, et)
		}
		out.Alts = append(out.Alts, ts)
	}
	return out
}

// ebnf-run <cases.json> <out.json>: for every case with a registered named-type grammar: Build, String() under recover,
// ebnf.ParseString, print-parse-print; writes the cases back with a "real" field for the specification.
func ebnfRun(args []string) error {
	b, err := os.ReadFile(args[0])
	if err != nil {
		return err
	}
	var cases []map[string]any
	if err := json.Unmarshal(b, &cases); err != nil {
		return err
	}
	participle.MaxIterations = 2000 // (the failing parses below must not spin through a million iterations)
	for _, c := range cases {
		id := c["id"].(string)
		real := map[string]any{"status": "ok", "tree": []eProd{}, "roundtrip": false, "text": ""}
		c["real"] = real
		mk, ok := gengram.Grammars[id]
		if st, isStatic := staticEbnf[id]; isStatic {
			mk, ok = st.mk, true
			c["root"] = st.root
		}
		if !ok {
			real["status"] = "no-generated-grammar"
			continue
		}
		done := make(chan struct{})
		go func() {
			defer close(done)
			defer func() {
				if r := recover(); r != nil {
					real["status"] = fmt.Sprintf("panic: %v", r)
				}
			}()
			p, err := mk()
			if err != nil {
				real["status"] = "builderr: " + err.Error()
				return
			}
			text := p.String()
			real["text"] = text
			for _, bad := range staticForbid[id] {
				if strings.Contains(text, bad) {
					real["status"] = fmt.Sprintf("spurious: String() contains %q", bad)
					return
				}
			}
			for _, want := range staticExpect[id] {
				if !strings.Contains(text, want) {
					real["status"] = fmt.Sprintf("missing: String() does not contain %q", want)
					return
				}
			}
			for rep := 0; rep < 30 && len(staticExpect[id]) > 0; rep++ { // (map iteration order must not matter)
				if p3, err := mk(); err == nil && p3.String() != text {
					real["status"] = fmt.Sprintf("unstable: another Build of the same grammar prints %q", p3.String())
					return
				}
			}
			// String() is a pure function of the built parser: a second call, and a call after a failed parse whose error
			// message renders grammar nodes, give the same text; so does the first call on a fresh parser that failed a parse
			failParse(p)
			if again := p.String(); again != text {
				real["status"] = fmt.Sprintf("unstable: String() after a failed parse differs from the first call: %q", again)
				return
			}
			if p2, err := mk(); err == nil {
				failParse(p2)
				if first := p2.String(); first != text {
					real["status"] = fmt.Sprintf("unstable: the first String() on a parser that has failed a parse differs: %q", first)
					return
				}
			}
			tree, err := ebnf.ParseString(text)
			if err != nil {
				real["status"] = "not-parseable: " + err.Error()
				return
			}
			prods := []eProd{}
			for _, pr := range tree.Productions {
				prods = append(prods, eProd{Name: pr.Production, Expr: convExpr(pr.Expression)})
			}
			real["tree"] = prods
			tree2, err := ebnf.ParseString(tree.String())
			real["roundtrip"] = err == nil && reflect.DeepEqual(stripPos(tree), stripPos(tree2))
			// "yields an equal tree": the trees as the package delivers them, with every field they have
			if err == nil && !reflect.DeepEqual(tree, tree2) {
				real["roundtrip"] = false
			}
		}()
		select {
		case <-done:
		case <-time.After(20 * time.Second):
			real["status"] = "hang"
		}
	}
	ob, err := json.Marshal(cases)
	if err != nil {
		return err
	}
	return os.WriteFile(args[1], ob, 0o644)
}

// failParse calls ParseString on inputs that fail at different depths (the error text renders the expected node).
func failParse(p gengram.Built) {
	m := reflect.ValueOf(p).MethodByName("ParseString")
	if !m.IsValid() {
		return
	}
	for _, in := range []string{"", ")", "( (", "a a a a", "( x ) ( y", "x ! ! !", "1 2 3"} {
		func() {
			defer func() { _ = recover() }()
			m.Call([]reflect.Value{reflect.ValueOf(""), reflect.ValueOf(in)})
		}()
	}
}

func stripPos(t *ebnf.EBNF) any {
	prods := []eProd{}
	for _, pr := range t.Productions {
		prods = append(prods, eProd{Name: pr.Production, Expr: convExpr(pr.Expression)})
	}
	return prods
}

func init() { commands["ebnf-trees"] = ebnfTrees }

func buildExpr(e eExpr) *ebnf.Expression {
	out := &ebnf.Expression{}
	for _, alt := range e.Alts {
		sq := &ebnf.Sequence{}
		for _, t := range alt {
			tm := &ebnf.Term{Negation: t.Neg, Repetition: t.Rep}
			switch t.Kind {
			case "name":
				tm.Name = t.Text
			case "lit":
				// (set through reflection so that the harness does not depend on the exact type of the field)
				f := reflect.ValueOf(tm).Elem().FieldByName("Literal")
				f.Set(reflect.ValueOf(t.Text).Convert(f.Type()))
			case "tok":
				tm.Token = t.Text
			case "grp":
				g := &ebnf.SubExpression{Expr: buildExpr(t.Expr)}
				if t.Look != "" {
					g.Lookahead = ebnf.LookaheadAssertion(rune(t.Look[0]))
				}
				tm.Group = g
			}
			sq.Terms = append(sq.Terms, tm)
		}
		out.Alternatives = append(out.Alternatives, sq)
	}
	return out
}

// ebnf-trees <file>: lines of JSON {"tree": expression, "text": the specification's print of it}.  The tree is built as real
// ebnf package values under a production P; its String() is parsed back and printed again.  Per line:
// "OK|DRIFT|BAD\tindex\tdetail" (BAD: the text does not parse, parses to a different tree, or the second print differs;
// DRIFT: only the text differs from the specification's).
func ebnfTrees(args []string) error {
	f, err := os.Open(args[0])
	if err != nil {
		return err
	}
	defer f.Close()
	sc := bufio.NewScanner(f)
	sc.Buffer(make([]byte, 1<<20), 1<<24)
	n, bad, drift := 0, 0, 0
	for sc.Scan() {
		var c struct {
			Tree eExpr  `json:"tree"`
			Text string `json:"text"`
		}
		if err := json.Unmarshal(sc.Bytes(), &c); err != nil {
			return fmt.Errorf("line %d: %v", n+1, err)
		}
		n++
		res := func() (res string) {
			defer func() {
				if r := recover(); r != nil {
					res = fmt.Sprintf("BAD\tpanic: %v", r)
				}
			}()
			tree := &ebnf.EBNF{Productions: []*ebnf.Production{{Production: "P", Expression: buildExpr(c.Tree)}}}
			text := tree.String()
			t2, err := ebnf.ParseString(text)
			if err != nil {
				return fmt.Sprintf("BAD\tString() = %q does not parse: %v", text, err)
			}
			if !reflect.DeepEqual(stripPos(tree), stripPos(t2)) {
				return fmt.Sprintf("BAD\tString() = %q parses to a different tree, which prints %q", text, t2.String())
			}
			if again := t2.String(); again != text {
				return fmt.Sprintf("BAD\tString() = %q, after parsing it prints %q", text, again)
			}
			if want := "P = " + c.Text + " ."; text != want {
				return fmt.Sprintf("DRIFT\tString() = %q, specification %q", text, want)
			}
			return "OK"
		}()
		if strings.HasPrefix(res, "BAD") {
			bad++
			if bad <= 20 {
				fmt.Printf("%s\t%d\n", res, n)
			}
		} else if strings.HasPrefix(res, "DRIFT") {
			drift++
			if drift <= 3 {
				fmt.Printf("%s\t%d\n", res, n)
			}
		}
	}
	fmt.Printf("DONE\t%d\t%d\t%d\n", n, bad, drift)
	return nil
}
