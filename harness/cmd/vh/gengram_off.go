//go:build !gengram

package main

import "verifharness/gengram"

var _ = gengram.Grammars
