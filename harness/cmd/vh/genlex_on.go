//go:build genlex

package main

import (
	"verifharness/genlex"

	"github.com/alecthomas/participle/v2/lexer"
)

func generatedMaker(c *rawCase) (lexer.Definition, string) {
	d, ok := genlex.Defs[c.ID]
	if !ok {
		return nil, "no generated lexer for " + c.ID
	}
	return d, "ok"
}
