package main

import (
	"bufio"
	"encoding/json"
	"fmt"
	"math/rand"
	"os"
	"reflect"
	"regexp"
	"regexp/syntax"
	"sort"
	"strconv"
	"strings"
	"testing/iotest"
	"time"
	"unicode"
	"unicode/utf8"

	"github.com/alecthomas/participle/v2/lexer"
)

func init() {
	commands["lex-prep"] = lexPrep
	commands["lex-run"] = lexRun
	commands["lex-static"] = lexStatic
}

// ---- raw case format (written by tools/gen_lex.py) -----------------------------------------------

type rawRule struct {
	Name    string `json:"name"`
	Pattern string `json:"pattern"`
	Act     string `json:"act"` // "" | push | pop | include | return
	State   string `json:"state"`
}
type rawCase struct {
	ID    string               `json:"id"`
	Rules map[string][]rawRule `json:"rules"`
}
type alphaSym struct {
	Name  string `json:"name"`  // one ASCII letter naming the symbol in EXPECT lines
	Bytes []int  `json:"bytes"` // the bytes of the symbol in real inputs
	Code  int    `json:"code"`
}
type rawFile struct {
	Alpha []alphaSym `json:"alpha"`
	Cases []rawCase  `json:"cases"`
}

func (c *rawCase) rules() lexer.Rules {
	out := lexer.Rules{}
	for st, rs := range c.Rules {
		out[st] = []lexer.Rule{}
		for _, r := range rs {
			switch r.Act {
			case "push":
				out[st] = append(out[st], lexer.Rule{Name: r.Name, Pattern: r.Pattern, Action: lexer.Push(r.State)})
			case "pop":
				out[st] = append(out[st], lexer.Rule{Name: r.Name, Pattern: r.Pattern, Action: lexer.Pop()})
			case "include":
				out[st] = append(out[st], lexer.Include(r.State))
			case "return":
				out[st] = append(out[st], lexer.Return())
			default:
				out[st] = append(out[st], lexer.Rule{Name: r.Name, Pattern: r.Pattern})
			}
		}
	}
	return out
}

func readRaw(path string) (*rawFile, error) {
	b, err := os.ReadFile(path)
	if err != nil {
		return nil, err
	}
	var f rawFile
	if err := json.Unmarshal(b, &f); err != nil {
		return nil, err
	}
	return &f, nil
}

func (f *rawFile) decodeInput(names string) string {
	var sb strings.Builder
	for i := 0; i < len(names); i++ {
		for _, a := range f.Alpha {
			if a.Name[0] == names[i] {
				for _, b := range a.Bytes {
					sb.WriteByte(byte(b))
				}
			}
		}
	}
	return sb.String()
}

// ---- specification-side view of a case ---------------------------------------------------------------

type reTree struct {
	Op    string    `json:"op"`
	Fold  bool      `json:"fold"`
	NG    bool      `json:"ng"`
	Runes []int     `json:"runes"`
	Cap   int       `json:"cap"`
	Sub   []*reTree `json:"sub"`
}

func convTree(re *syntax.Regexp) *reTree {
	t := &reTree{Op: re.Op.String(), Fold: re.Flags&syntax.FoldCase != 0, NG: re.Flags&syntax.NonGreedy != 0, Cap: re.Cap, Runes: []int{}, Sub: []*reTree{}}
	for _, r := range re.Rune {
		t.Runes = append(t.Runes, int(r))
	}
	for _, s := range re.Sub {
		t.Sub = append(t.Sub, convTree(s))
	}
	return t
}

var backrefRE = regexp.MustCompile(`(\\+)(\d)`)

// placeholderPattern replaces every \N preceded by an odd number of backslashes by the private-use rune
// U+E000+N (the specification's back-reference marker) and returns the referenced group numbers.
func placeholderPattern(p string) (string, []int) {
	refs := []int{}
	out := backrefRE.ReplaceAllStringFunc(p, func(s string) string {
		m := backrefRE.FindStringSubmatch(s)
		if len(m[1])%2 == 0 {
			return s
		}
		n, _ := strconv.Atoi(m[2])
		refs = append(refs, n)
		return m[1][:len(m[1])-1] + string(rune(0xE000+n))
	})
	return out, refs
}

type specRule struct {
	Name     string  `json:"name"`
	Pattern  string  `json:"pattern"`
	Act      string  `json:"act"`
	State    string  `json:"state"`
	Tree     *reTree `json:"tree"`
	Ncap     int     `json:"ncap"`
	Elided   bool    `json:"elided"`
	Backrefs []int   `json:"backrefs"`
	OrgS     int     `json:"orgs"` // origin in the raw rule map: 1-based index of the state in sorted order
	OrgI     int     `json:"orgi"` // and 1-based index of the rule in that state
}
type specCase struct {
	ID     string                `json:"id"`
	States []string              `json:"states"`
	Rules  map[string][]specRule `json:"rules"`
}
type specFile struct {
	Alpha [][]any    `json:"alpha"` // <<code, width, isnl, name>>
	Cases []specCase `json:"cases"`
}

func specOf(c *rawCase) (*specCase, error) {
	oc := &specCase{ID: c.ID, Rules: map[string][]specRule{}}
	for st := range c.Rules {
		oc.States = append(oc.States, st)
	}
	sort.Strings(oc.States)
	stateIdx := map[string]int{}
	for i, st := range oc.States {
		stateIdx[st] = i + 1
	}
	for st, rs := range c.Rules {
		oc.Rules[st] = []specRule{}
		for ri, r := range rs {
			act := r.Act
			if act == "" {
				act = "none"
			}
			sr := specRule{Name: r.Name, Pattern: r.Pattern, Act: act, State: r.State, Backrefs: []int{}, OrgS: stateIdx[st], OrgI: ri + 1,
				Elided: len(r.Name) > 0 && unicode.IsLower(rune(r.Name[0]))}
			if act == "return" {
				sr.Name = "returnToParent"
			}
			if act != "return" && act != "include" {
				pp, refs := placeholderPattern(r.Pattern)
				re, err := syntax.Parse(pp, syntax.Perl)
				if err != nil {
					return nil, fmt.Errorf("%s: pattern %q: %v", c.ID, r.Pattern, err)
				}
				sr.Ncap = re.MaxCap()
				sr.Tree = convTree(re.Simplify())
				sr.Backrefs = refs
			} else {
				sr.Tree = &reTree{Op: "NoMatch", Runes: []int{}, Sub: []*reTree{}}
			}
			oc.Rules[st] = append(oc.Rules[st], sr)
		}
	}
	return oc, nil
}

func alphaSpec(alpha []alphaSym) [][]any {
	out := [][]any{}
	for _, a := range alpha {
		nl := 0
		if a.Code == '\n' {
			nl = 1
		}
		out = append(out, []any{a.Code, len(a.Bytes), nl, a.Name})
	}
	return out
}

// safeNew calls lexer.New under recover and a watchdog: the constructor is outside the properties' domain
// when it rejects (or panics on, or hangs on) a rule map.
func safeNew(rules lexer.Rules) (def *lexer.StatefulDefinition, verdict string) {
	type res struct {
		def *lexer.StatefulDefinition
		v   string
	}
	ch := make(chan res, 1)
	go func() {
		defer func() {
			if r := recover(); r != nil {
				ch <- res{nil, fmt.Sprintf("panic: %v", r)}
			}
		}()
		d, err := lexer.New(rules)
		if err != nil {
			ch <- res{nil, "error: " + err.Error()}
			return
		}
		ch <- res{d, "ok"}
	}()
	select {
	case r := <-ch:
		return r.def, r.v
	case <-time.After(5 * time.Second):
		return nil, "hang"
	}
}

// lex-prep <raw.json> <spec.json>: keeps the cases lexer.New accepts, writes the specification's view.
func lexPrep(args []string) error {
	raw, err := readRaw(args[0])
	if err != nil {
		return err
	}
	out := specFile{Alpha: alphaSpec(raw.Alpha), Cases: []specCase{}}
	for i := range raw.Cases {
		c := &raw.Cases[i]
		_, v := safeNew(c.rules())
		fmt.Printf("NEW\t%s\t%s\n", c.ID, strings.ReplaceAll(v, "\n", " "))
		if v != "ok" {
			continue
		}
		sc, err := specOf(c)
		if err != nil {
			return err
		}
		out.Cases = append(out.Cases, *sc)
	}
	b, _ := json.Marshal(out)
	return os.WriteFile(args[1], b, 0o644)
}

// ---- running the real lexer -------------------------------------------------------------------------

type lexerMaker func(c *rawCase) (lexer.Definition, string)

func runtimeMaker(c *rawCase) (lexer.Definition, string) {
	d, v := safeNew(c.rules())
	if d == nil {
		return nil, v
	}
	return d, v
}

// runLexer lexes `in` and renders the run in the specification's EXPECT format; `extra` further calls are made
// after EOF / an error.
func runLexer(def lexer.Definition, names map[lexer.TokenType]string, in string, extra int, filename string) (out string) {
	done := make(chan string, 1)
	go func() {
		var sb strings.Builder
		var l lexer.Lexer
		finish := func() { done <- sb.String() }
		defer func() {
			if r := recover(); r != nil {
				sb.WriteString("PANIC")
				finish()
			}
		}()
		var err error
		if sd, ok := def.(lexer.StringDefinition); ok && len(in)%3 != 2 {
			l, err = sd.LexString(filename, in)
		} else if len(in)%2 == 0 {
			l, err = def.Lex(filename, strings.NewReader(in))
		} else {
			// (every third input goes through the reader entry point; these readers hand over the last bytes together with io.EOF)
			l, err = def.Lex(filename, iotest.DataErrReader(strings.NewReader(in)))
		}
		if err != nil {
			sb.WriteString("LEXINITERR")
			finish()
			return
		}
		// a second lexer of the same definition, over a rotation of the input, advances in lock step: lexers of one definition
		// share nothing that lexing changes, so the stream judged below is the same with and without it
		var shadow lexer.Lexer
		if len(in) > 1 {
			rot := in[len(in)/2:] + in[:len(in)/2]
			if sd, ok := def.(lexer.StringDefinition); ok {
				shadow, _ = sd.LexString("shadow.txt", rot)
			} else {
				shadow, _ = def.Lex("shadow.txt", strings.NewReader(rot))
			}
		}
		var last lexer.Token
		status := ""
		for n := 0; n <= len(in)+1; n++ {
			if shadow != nil {
				if st, serr := shadow.Next(); serr != nil || st.EOF() {
					shadow = nil
				}
			}
			t, err := l.Next()
			if err != nil {
				pos, ok := errPos(err)
				if !ok {
					sb.WriteString("ERRNOPOS ")
				}
				fmt.Fprintf(&sb, "ERR@%d:%d:%d", pos.Offset, pos.Line, pos.Column)
				if pos.Filename != filename {
					sb.WriteString(" BADFILENAME")
				}
				status = "err"
				break
			}
			if t.EOF() {
				fmt.Fprintf(&sb, "EOF@%d:%d:%d", t.Pos.Offset, t.Pos.Line, t.Pos.Column)
				if t.Pos.Filename != filename {
					sb.WriteString(" BADFILENAME")
				}
				if t.Value != "" {
					sb.WriteString(" EOFVALUE")
				}
				last = t
				status = "eof"
				break
			}
			nm, ok := names[t.Type]
			if !ok {
				nm = fmt.Sprintf("?type%d", t.Type)
			}
			fmt.Fprintf(&sb, "%s@%d:%d:%d+%d ", nm, t.Pos.Offset, t.Pos.Line, t.Pos.Column, len(t.Value))
			if t.Pos.Offset < 0 || t.Pos.Offset+len(t.Value) > len(in) || in[t.Pos.Offset:t.Pos.Offset+len(t.Value)] != t.Value {
				sb.WriteString("BADVALUE ")
			}
			if t.Pos.Filename != filename {
				sb.WriteString("BADFILENAME ")
			}
		}
		if status == "" {
			sb.WriteString("TOOMANY")
			finish()
			return
		}
		for k := 0; k < extra; k++ {
			t, err := l.Next()
			if status == "eof" {
				if err != nil || !t.EOF() || t.Pos != last.Pos {
					sb.WriteString(" XEOFMOVED")
					break
				}
			}
		}
		finish()
	}()
	select {
	case s := <-done:
		return s
	case <-time.After(3 * time.Second):
		return "HANG"
	}
}

func errPos(err error) (lexer.Position, bool) {
	type positioned interface{ Position() lexer.Position }
	if e, ok := err.(*lexer.Error); ok {
		return e.Pos, true
	}
	if e, ok := err.(positioned); ok {
		return e.Position(), true
	}
	return lexer.Position{}, false
}

func symbolNames(def lexer.Definition) map[lexer.TokenType]string {
	out := map[lexer.TokenType]string{}
	for n, t := range def.Symbols() {
		out[t] = n
	}
	return out
}

// lex-run <raw.json> <expect file> <extra calls> [maker]: every line "id|input names|expected run"; prints
// MISMATCH lines for runs of the real lexer that differ.
func lexRun(args []string) error {
	raw, err := readRaw(args[0])
	if err != nil {
		return err
	}
	extra, _ := strconv.Atoi(args[2])
	maker := runtimeMaker
	if len(args) > 3 {
		maker = makerByName(args[3])
	}
	byID := map[string]*rawCase{}
	for i := range raw.Cases {
		byID[raw.Cases[i].ID] = &raw.Cases[i]
	}
	defs := map[string]lexer.Definition{}
	names := map[string]map[lexer.TokenType]string{}
	f, err := os.Open(args[1])
	if err != nil {
		return err
	}
	defer f.Close()
	sc := bufio.NewScanner(f)
	sc.Buffer(make([]byte, 1<<20), 1<<20)
	w := bufio.NewWriter(os.Stdout)
	defer w.Flush()
	n, bad := 0, 0
	hangs := map[string]int{}
	for sc.Scan() {
		p := strings.SplitN(sc.Text(), "|", 4)
		if len(p) != 4 {
			return fmt.Errorf("bad expect line %q", sc.Text())
		}
		c := byID[p[0]]
		if c == nil {
			return fmt.Errorf("unknown case %s", p[0])
		}
		def, ok := defs[p[0]]
		if !ok {
			d, v := maker(c)
			if d == nil {
				fmt.Fprintf(w, "NODEF\t%s\t%s\n", p[0], v)
			}
			def = d
			defs[p[0]] = d
			if d != nil {
				names[p[0]] = symbolNames(d)
			}
		}
		if def == nil {
			continue
		}
		n++
		if hangs[p[0]] >= 2 {
			continue // the definition hangs: its remaining inputs are not run (leaked goroutines spin)
		}
		got := runLexer(def, names[p[0]], raw.decodeInput(p[1]), extra, "f.txt")
		if got == "HANG" {
			hangs[p[0]]++
		}
		if got != p[3] {
			bad++
			if bad <= 300000 {
				fmt.Fprintf(w, "MISMATCH\t%s\t%s\t%s\t%s\t%s\n", p[0], p[1], p[2], p[3], got)
			}
		}
	}
	fmt.Fprintf(w, "DONE\t%d\t%d\n", n, bad)
	return nil
}

func makerByName(n string) lexerMaker {
	switch n {
	case "json-def":
		return jsonDefMaker
	case "json-rules":
		return jsonRulesMaker
	case "json-source":
		return jsonSourceMaker
	case "simple":
		return simpleMaker
	case "generated":
		return generatedMaker
	}
	return runtimeMaker
}

// stableNew builds the definition several times: lexer.New is a function of the rule set (whatever order the states are
// visited in), so every build has the same symbol table and the same rules per state; otherwise no definition is returned.
func stableNew(rules lexer.Rules) (*lexer.StatefulDefinition, string) {
	first, v := safeNew(rules)
	if first == nil {
		return nil, v
	}
	want, _ := json.Marshal(first)
	for i := 0; i < 7; i++ {
		d, _ := safeNew(rules)
		if d == nil {
			return nil, "unstable: lexer.New fails on some builds of the same rule set"
		}
		got, _ := json.Marshal(d)
		if !reflect.DeepEqual(d.Symbols(), first.Symbols()) || string(got) != string(want) {
			return nil, "unstable: lexer.New gives different definitions for the same rule set"
		}
	}
	return first, v
}

func simpleMaker(c *rawCase) (lexer.Definition, string) {
	if len(c.Rules) != 1 {
		return nil, "not a one-state map"
	}
	var rs []lexer.SimpleRule
	for _, r := range c.Rules["Root"] {
		if r.Act != "" {
			return nil, "has actions"
		}
		rs = append(rs, lexer.SimpleRule{Name: r.Name, Pattern: r.Pattern})
	}
	d, err := lexer.NewSimple(rs)
	if err != nil {
		return nil, err.Error()
	}
	return d, "ok"
}

func jsonDefMaker(c *rawCase) (lexer.Definition, string) {
	src := c.rules()
	d, v := safeNew(src)
	if d == nil {
		return nil, v
	}
	// the caller goes on using its rule map (edits a pattern, appends a rule, adds a state): the definition built
	// from it - and therefore its JSON - must not follow
	for st, rs := range src {
		for i := range rs {
			if rs[i].Pattern != "" {
				rs[i].Pattern = "zzz" + rs[i].Pattern
			}
		}
		src[st] = append(rs, lexer.Rule{Name: "LaterAddition", Pattern: `q+`})
	}
	src["LaterState"] = []lexer.Rule{{Name: "LaterRule", Pattern: `q`}}
	b, err := json.Marshal(d)
	if err != nil {
		return nil, "marshal: " + err.Error()
	}
	var rules lexer.Rules
	if err := json.Unmarshal(b, &rules); err != nil {
		return nil, "unmarshal: " + err.Error()
	}
	d2, v := stableNew(rules)
	if d2 == nil {
		return nil, "rebuilt: " + v
	}
	return d2, v
}

// jsonSourceMaker: the rule set as the user wrote it (Include rules not yet expanded) through JSON.
func jsonSourceMaker(c *rawCase) (lexer.Definition, string) {
	if d, v := safeNew(c.rules()); d == nil {
		return nil, v
	}
	b, err := json.Marshal(c.rules())
	if err != nil {
		return nil, "marshal: " + err.Error()
	}
	var rules lexer.Rules
	if err := json.Unmarshal(b, &rules); err != nil {
		return nil, "unmarshal: " + err.Error()
	}
	d2, v := stableNew(rules)
	if d2 == nil {
		return nil, "rebuilt: " + v
	}
	return d2, v
}

func jsonRulesMaker(c *rawCase) (lexer.Definition, string) {
	d, v := safeNew(c.rules())
	if d == nil {
		return nil, v
	}
	// the caller derives a variant from an earlier d.Rules() by editing it in place: a later d.Rules() is unaffected
	for st, rs := range d.Rules() {
		for i := range rs {
			if rs[i].Pattern != "" {
				rs[i].Pattern = "zzz" + rs[i].Pattern
				rs[i].Name = "Edited" + rs[i].Name
			}
		}
		_ = st
	}
	b, err := json.Marshal(d.Rules())
	if err != nil {
		return nil, "marshal: " + err.Error()
	}
	var rules lexer.Rules
	if err := json.Unmarshal(b, &rules); err != nil {
		return nil, "unmarshal: " + err.Error()
	}
	d2, v := stableNew(rules)
	if d2 == nil {
		return nil, "rebuilt: " + v
	}
	return d2, v
}

// lex-static <raw.json> <lines file>: checks of the specification's static lines against the standard library
// and the real definition:
//
//	REGEX|<case>|<state>|<rule index>|<input names>|<end>|<caps>   vs regexp (harness self-check of Regex.tla)
//	SYMS|<case>|name=num,...                                        vs def.Symbols()
func lexStatic(args []string) error {
	raw, err := readRaw(args[0])
	if err != nil {
		return err
	}
	byID := map[string]*rawCase{}
	for i := range raw.Cases {
		byID[raw.Cases[i].ID] = &raw.Cases[i]
	}
	f, err := os.Open(args[1])
	if err != nil {
		return err
	}
	defer f.Close()
	sc := bufio.NewScanner(f)
	sc.Buffer(make([]byte, 1<<20), 1<<20)
	w := bufio.NewWriter(os.Stdout)
	defer w.Flush()
	res := map[string]*regexp.Regexp{}
	nre, nsym, badre, badsym, njson, badjson := 0, 0, 0, 0, 0, 0
	for sc.Scan() {
		p := strings.Split(sc.Text(), "|")
		switch p[0] {
		case "REGEX":
			c := byID[p[1]]
			idx, _ := strconv.Atoi(p[3])
			r := c.Rules[p[2]][idx-1]
			key := r.Pattern
			re, ok := res[key]
			if !ok {
				re = regexp.MustCompile("^(?:" + r.Pattern + ")")
				res[key] = re
			}
			in := raw.decodeInput(p[4])
			m := re.FindStringSubmatchIndex(in)
			got := "0|"
			if m != nil {
				// convert byte offsets to 1-based character positions
				cp := func(b int) int {
					if b < 0 {
						return 0
					}
					n := 0
					for i := 0; i < b; n++ {
						_, wd := decodeRune(in[i:])
						i += wd
					}
					return n + 1
				}
				var cs []string
				for k := 2; k+1 < len(m); k += 2 {
					cs = append(cs, fmt.Sprintf("%d-%d", cp(m[k]), cp(m[k+1])))
				}
				got = fmt.Sprintf("%d|%s", cp(m[1]), strings.Join(cs, ","))
			}
			nre++
			if got != p[5]+"|"+p[6] {
				badre++
				if badre <= 20 {
					fmt.Fprintf(w, "REGEXDIFF\t%s\t%q\t%s\tspec=%s|%s\tregexp=%s\n", p[1], r.Pattern, p[4], p[5], p[6], got)
				}
			}
		case "JSON":
			c := byID[p[1]]
			d, v := safeNew(c.rules())
			if d == nil {
				return fmt.Errorf("case %s: %s", p[1], v)
			}
			njson++
			for _, which := range []string{"def", "rules"} {
				var b []byte
				var err error
				if which == "def" {
					b, err = json.Marshal(d)
				} else {
					b, err = json.Marshal(d.Rules())
				}
				if err != nil {
					badjson++
					fmt.Fprintf(w, "JSONDIFF\t%s\t%s\tmarshal error %v\n", p[1], which, err)
					continue
				}
				if msg := compareJSONDoc(c, p[2], b); msg != "" {
					badjson++
					fmt.Fprintf(w, "JSONDIFF\t%s\t%s\t%s\n", p[1], which, msg)
				}
			}
		case "SYMS":
			c := byID[p[1]]
			var d lexer.Definition
			var v string
			if len(args) > 2 {
				d, v = makerByName(args[2])(c)
			} else {
				d, v = runtimeMaker(c)
			}
			if d == nil {
				badsym++
				fmt.Fprintf(w, "SYMDIFF\t%s\tno definition: %s\n", p[1], v)
				continue
			}
			if len(args) > 2 {
				// the round-tripped definition must have the symbol table of the original definition
				if od, _ := runtimeMaker(c); od != nil {
					os, ds := od.Symbols(), d.Symbols()
					same := len(os) == len(ds)
					for k, t := range os {
						if g, has := ds[k]; !has || g != t {
							same = false
						}
					}
					if !same {
						badsym++
						fmt.Fprintf(w, "SYMDIFF\t%s\toriginal=%v\tround-tripped=%v\n", p[1], os, ds)
						continue
					}
				}
			}
			want := map[string]int{"EOF": -1}
			if p[2] != "" {
				for _, kv := range strings.Split(p[2], ",") {
					i := strings.LastIndex(kv, "=")
					n, _ := strconv.Atoi(kv[i+1:])
					want[kv[:i]] = n
				}
			}
			nsym++
			got := d.Symbols()
			// the property speaks of "that rule's symbol", not of particular numbers: the table must have exactly the
			// specification's names, EOF = lexer.EOF, and distinct numbers for distinct names
			// (a rule that is itself called EOF takes the name over: it has a type of its own like any other rule)
			ok := len(got) == len(want) && (got["EOF"] == lexer.EOF || want["EOF"] != -1)
			seenNum := map[lexer.TokenType]bool{}
			for k := range want {
				g, has := got[k]
				if !has || seenNum[g] {
					ok = false
				}
				seenNum[g] = true
			}
			if !ok {
				badsym++
				fmt.Fprintf(w, "SYMDIFF\t%s\tspec=%v\treal=%v\n", p[1], want, got)
			}
		}
	}
	fmt.Fprintf(w, "DONE\t%d\t%d\t%d\t%d\t%d\t%d\n", nre, badre, nsym, badsym, njson, badjson)
	return nil
}

func decodeRune(s string) (rune, int) { return utf8.DecodeRuneInString(s) }

// compareJSONDoc checks a marshalled definition / rule set against the specification's serialised form:
// want = "Root=Root#1,S1#2;S1=..." lists, per state, the raw rules (by origin) in expanded order.
func compareJSONDoc(c *rawCase, want string, doc []byte) string {
	var got map[string][]map[string]any
	if err := json.Unmarshal(doc, &got); err != nil {
		return "document is not {state: [rule...]}: " + err.Error()
	}
	states := strings.Split(want, ";")
	var sorted []string
	for st := range c.Rules {
		sorted = append(sorted, st)
	}
	sort.Strings(sorted)
	if len(got) != len(states) {
		return fmt.Sprintf("document has %d states, specification %d", len(got), len(states))
	}
	for _, st := range states {
		i := strings.Index(st, "=")
		si, _ := strconv.Atoi(st[:i])
		name, list := sorted[si-1], st[i+1:]
		rules, ok := got[name]
		if !ok {
			return "state " + name + " missing"
		}
		var orgs []string
		if list != "" {
			orgs = strings.Split(list, ",")
		}
		if len(rules) != len(orgs) {
			return fmt.Sprintf("state %s has %d rules, specification %d", name, len(rules), len(orgs))
		}
		for k, org := range orgs {
			h := strings.LastIndex(org, "#")
			idx, _ := strconv.Atoi(org[h+1:])
			osi, _ := strconv.Atoi(org[:h])
			r := c.Rules[sorted[osi-1]][idx-1]
			g := rules[k]
			gn, _ := g["name"].(string)
			gp, _ := g["pattern"].(string)
			wn := r.Name
			if r.Act == "return" {
				wn = "returnToParent"
			}
			if gn != wn || gp != r.Pattern {
				return fmt.Sprintf("state %s rule %d is (%q, %q), specification (%q, %q)", name, k+1, gn, gp, wn, r.Pattern)
			}
			ga, _ := g["action"].(map[string]any)
			kind, target := "", ""
			if ga != nil {
				kind, _ = ga["kind"].(string)
				target, _ = ga["state"].(string)
			}
			wantKind := r.Act
			if wantKind == "return" {
				wantKind = ""
			}
			if kind != wantKind || (kind == "push" && target != r.State) {
				return fmt.Sprintf("state %s rule %d has action (%q, %q), specification (%q, %q)", name, k+1, kind, target, wantKind, r.State)
			}
		}
	}
	return ""
}

func init() { commands["lex-long"] = lexLong }

// lex-long <raw.json> <seed> <maker>: long random inputs (17..80 symbols over the alphabet plus invalid bytes, ending in runs
// of invalid bytes) for every definition: the clauses of C07 that need no specification - no panic, no hang, progress,
// a located error or EOF at the end, and the same after further calls.  Prints "BAD\tid\tquoted input\toutcome".
func lexLong(args []string) error {
	raw, err := readRaw(args[0])
	if err != nil {
		return err
	}
	seed, _ := strconv.Atoi(args[1])
	maker := makerByName(args[2])
	rng := rand.New(rand.NewSource(int64(seed)))
	syms := [][]byte{}
	for _, a := range raw.Alpha {
		b := make([]byte, len(a.Bytes))
		for i, x := range a.Bytes {
			b[i] = byte(x)
		}
		syms = append(syms, b)
	}
	invalid := [][]byte{{0xFF}, {0xFE}, {0xC3}, {0xFF, 0xFE}, {0xE2, 0x82}, {0xF0, 0x9F}}
	n, bad := 0, 0
	for ci := range raw.Cases {
		c := &raw.Cases[ci]
		def, _ := maker(c)
		if def == nil {
			continue
		}
		names := symbolNames(def)
		for k := 0; k < 24; k++ {
			var in []byte
			for j, m := 0, rng.Intn(40); j < m; j++ {
				in = append(in, syms[rng.Intn(len(syms))]...)
			}
			for j, m := 0, 17+rng.Intn(40); j < m; j++ {
				if k%3 == 0 && rng.Intn(4) == 0 {
					in = append(in, syms[rng.Intn(len(syms))]...)
				} else {
					in = append(in, invalid[rng.Intn(len(invalid))]...)
				}
			}
			got := runLexer(def, names, string(in), 2, "f.txt")
			n++
			ok := !strings.Contains(got, "PANIC") && got != "HANG" && !strings.Contains(got, "BAD") && !strings.Contains(got, "ERRNOPOS") &&
				(strings.Contains(got, "ERR@") || strings.Contains(got, "EOF@"))
			if got == "HANG" && hangsByDesign(c) {
				ok = true
			}
			if !ok {
				bad++
				if bad <= 20 {
					fmt.Printf("BAD\t%s\t%q\t%s\n", c.ID, in, got)
				}
			}
		}
	}
	fmt.Printf("DONE\t%d\t%d\n", n, bad)
	return nil
}

// hangsByDesign: (reserved) definitions whose rules can loop without consuming are rejected by the lexer with an error, so
// no definition is expected to hang.
func hangsByDesign(*rawCase) bool { return false }

func init() { commands["json-errors"] = jsonErrors }

// json-errors <raw.json> <maxlen>: (1) the ERROR TEXT of a failing Next() is the same for the original definition and for the
// three definitions rebuilt from JSON, on every input up to maxlen; (2) the JSON of single rules obtained by calling
// Rule.MarshalJSON directly stays what it was when further rules are marshalled.  Lines "MISMATCH\tcase\tdetail"; "DONE\tn".
func jsonErrors(args []string) error {
	raw, err := readRaw(args[0])
	if err != nil {
		return err
	}
	maxlen, _ := strconv.Atoi(args[1])
	errText := func(def lexer.Definition, in string) (out string) {
		defer func() {
			if r := recover(); r != nil {
				out = fmt.Sprintf("panic %v", r)
			}
		}()
		l, err := def.Lex("f.txt", strings.NewReader(in))
		if err != nil {
			return "init: " + err.Error()
		}
		for n := 0; n <= len(in)+1; n++ {
			t, err := l.Next()
			if err != nil {
				return err.Error()
			}
			if t.EOF() {
				return ""
			}
		}
		return "no end"
	}
	n := 0
	for i := range raw.Cases {
		c := &raw.Cases[i]
		if hangsByDesign(c) {
			continue
		}
		orig, _ := runtimeMaker(c)
		if orig == nil {
			continue
		}
		// (2) rule by rule
		type held struct {
			b    []byte
			copy string
		}
		var hs []held
		for _, rs := range c.rules() {
			for ri := range rs {
				b, err := rs[ri].MarshalJSON()
				if err != nil {
					continue
				}
				hs = append(hs, held{b, string(b)})
			}
		}
		for _, h := range hs {
			n++
			if string(h.b) != h.copy {
				fmt.Printf("MISMATCH\t%s\tthe JSON of a rule obtained from Rule.MarshalJSON changed while other rules were marshalled: %q became %q\n", c.ID, h.copy, string(h.b))
				break
			}
		}
		// (1) error texts
		var rts []lexer.Definition
		var names []string
		for _, mk := range []string{"json-def", "json-rules", "json-source"} {
			if d, _ := makerByName(mk)(c); d != nil {
				rts = append(rts, d)
				names = append(names, mk)
			}
		}
		bad := false
		enumInputs(raw.Alpha, maxlen, func(in string) {
			if bad {
				return
			}
			want := errText(orig, in)
			for k, d := range rts {
				n++
				if got := errText(d, in); got != want {
					bad = true
					fmt.Printf("MISMATCH\t%s\tafter the %s round trip the error on input %q reads %q; the original definition says %q\n", c.ID, names[k], in, got, want)
					return
				}
			}
		})
	}
	fmt.Printf("DONE\t%d\n", n)
	return nil
}
