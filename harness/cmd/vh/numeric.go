package main

import (
	"encoding/json"
	"fmt"
	"math"
	"os"
	"reflect"
	"strconv"
	"strings"

	"github.com/alecthomas/participle/v2"
	"github.com/alecthomas/participle/v2/lexer"
)

func init() { commands["num-run"] = numRun }

type (
	nI8  int8
	nI16 int16
	nI32 int32
	nI64 int64
	nI   int
	nU8  uint8
	nU16 uint16
	nU32 uint32
	nU64 uint64
	nU   uint
	nF32 float32
	nF64 float64
)

var namedNumTypes = map[string]reflect.Type{
	"int8": reflect.TypeOf(nI8(0)), "int16": reflect.TypeOf(nI16(0)), "int32": reflect.TypeOf(nI32(0)), "int64": reflect.TypeOf(nI64(0)), "int": reflect.TypeOf(nI(0)),
	"uint8": reflect.TypeOf(nU8(0)), "uint16": reflect.TypeOf(nU16(0)), "uint32": reflect.TypeOf(nU32(0)), "uint64": reflect.TypeOf(nU64(0)), "uint": reflect.TypeOf(nU(0)),
	"float32": reflect.TypeOf(nF32(0)), "float64": reflect.TypeOf(nF64(0)),
}

var (
	numLexSingle = lexer.MustSimple([]lexer.SimpleRule{{Name: "Num", Pattern: `[^\s]+`}, {Name: "WS", Pattern: `\s+`}})
	numLexJoined = lexer.MustSimple([]lexer.SimpleRule{{Name: "Sign", Pattern: `[-+]`}, {Name: "Num", Pattern: `[^\s+-][^\s]*`}, {Name: "WS", Pattern: `\s+`}})
)

type numCase struct {
	Kind    string `json:"kind"`
	S       string `json:"s"`
	Variant string `json:"variant"` // plain | ptr | named | slice
	Shape   string `json:"shape"`   // single | joined
}

type numRootU interface{}
type numRoot struct {
	X numRootU `@@`
}

type numParser struct {
	p *participle.Parser[numRoot]
	// shape "tail": the numeric field belongs to the ROOT production itself (no union in between)
	tail func(input string) (reflect.Value, error)
}

// a repetition after the capture whose iteration takes a token and then fails: the conversion error of the capture is the error
// of the parse, wherever later attempts got to
type numTail[T any] struct {
	V    T        `@Num`
	Rest []string `( "," @"never" )*`
}

func tailParser[T any]() func(string) (reflect.Value, error) {
	p := participle.MustBuild[numTail[T]](participle.Lexer(numLexSingle), participle.Elide("WS"))
	return func(input string) (reflect.Value, error) {
		ast, err := p.ParseString("n.txt", input, participle.AllowTrailing(true))
		if err != nil {
			return reflect.Value{}, err
		}
		return reflect.ValueOf(ast).Elem().Field(0), nil
	}
}

var tailParsers = map[string]func() func(string) (reflect.Value, error){
	"int8": tailParser[int8], "int16": tailParser[int16], "int32": tailParser[int32], "int64": tailParser[int64], "int": tailParser[int],
	"uint8": tailParser[uint8], "uint16": tailParser[uint16], "uint32": tailParser[uint32], "uint64": tailParser[uint64], "uint": tailParser[uint],
	"float32": tailParser[float32], "float64": tailParser[float64],
}

func numBuild(c *numCase) (*numParser, error) {
	if c.Shape == "tail" {
		return &numParser{tail: tailParsers[c.Kind]()}, nil
	}
	t := numTypes[c.Kind]
	tag := "@Num"
	switch c.Variant {
	case "ptr":
		t = reflect.PtrTo(t)
	case "named":
		t = namedNumTypes[c.Kind]
	case "slice":
		t = reflect.SliceOf(t)
		tag = "@Num*"
	case "slicegrp": // one capture for the whole run of elements
		t = reflect.SliceOf(t)
		tag = "@(Num+)"
	case "ptrnamed":
		t = reflect.PtrTo(namedNumTypes[c.Kind])
	}
	lx := numLexSingle
	if c.Shape == "joined" || c.Shape == "joinedsp" || c.Shape == "joined0" {
		tag = "@(Sign Num)"
		lx = numLexJoined
	}
	if c.Shape == "multifirst" || c.Shape == "multilast" {
		tag = "@Num @Num"
	}
	if c.Shape == "negcap" {
		tag = `@!"never"` // the token is captured through a negation
	}
	if c.Shape == "typedwild" {
		tag = strings.ReplaceAll(tag, "@Num", `@"":Num`)
	}
	fields := []reflect.StructField{{Name: "V", Type: t, Tag: reflect.StructTag(tag)}}
	if c.Shape == "embedded3" {
		// the field sits in a struct embedded three levels deep, next to a second tagged field of another width
		l3 := reflect.StructOf([]reflect.StructField{{Name: "V", Type: t, Tag: reflect.StructTag(tag)}, {Name: "W", Type: reflect.TypeOf(int64(0)), Tag: `@Num?`}})
		l2 := reflect.StructOf([]reflect.StructField{{Name: "L3", Type: l3, Anonymous: true}})
		l1 := reflect.StructOf([]reflect.StructField{{Name: "L2", Type: l2, Anonymous: true}})
		fields = []reflect.StructField{{Name: "L1", Type: l1, Anonymous: true}}
	}
	st := reflect.StructOf(fields)
	p, err := participle.Build[numRoot](participle.Lexer(lx), participle.Elide("WS"), participle.Union[numRootU](reflect.New(st).Interface()))
	if err != nil {
		return nil, err
	}
	return &numParser{p: p}, nil
}

func numValue(v reflect.Value) string {
	for v.Kind() == reflect.Ptr || v.Kind() == reflect.Interface {
		if v.IsNil() {
			return "nil"
		}
		v = v.Elem()
	}
	switch v.Kind() {
	case reflect.Int, reflect.Int8, reflect.Int16, reflect.Int32, reflect.Int64:
		return strconv.FormatInt(v.Int(), 10)
	case reflect.Uint, reflect.Uint8, reflect.Uint16, reflect.Uint32, reflect.Uint64:
		return strconv.FormatUint(v.Uint(), 10)
	case reflect.Float32:
		return "f" + strconv.FormatUint(uint64(math.Float32bits(float32(v.Float()))), 16)
	case reflect.Float64:
		return "f" + strconv.FormatUint(math.Float64bits(v.Float()), 16)
	case reflect.Slice:
		var parts []string
		for i := 0; i < v.Len(); i++ {
			parts = append(parts, numValue(v.Index(i)))
		}
		return "[" + strings.Join(parts, ",") + "]"
	}
	return "?" + v.Kind().String()
}

// num-run <ncases.json>: per case "index\toutcome": "ok <value>" | "fail <flags>" | "panic".
// For float kinds the line also carries the strconv oracle: "\toracle=<ok fbits|fail>".
func numRun(args []string) error {
	b, err := os.ReadFile(args[0])
	if err != nil {
		return err
	}
	var f struct {
		Cases []numCase `json:"cases"`
	}
	if err := json.Unmarshal(b, &f); err != nil {
		return err
	}
	cache := map[string]*numParser{}
	for i := range f.Cases {
		c := &f.Cases[i]
		key := c.Kind + "/" + c.Variant + "/" + c.Shape
		p, ok := cache[key]
		if !ok {
			p, err = numBuild(c)
			if err != nil {
				return fmt.Errorf("build %s: %v", key, err)
			}
			cache[key] = p
		}
		input := "  " + c.S
		firstOff := 2
		if c.Variant == "slice" {
			input = " 7 " + c.S
			firstOff = 3 // each element is its own capture: the failing capture starts at the second token
		}
		if c.Variant == "slicegrp" {
			input = " 7 " + c.S
			firstOff = 1 // one capture for all elements: its first token
		}
		switch c.Shape {
		case "joined0":
			input = c.S
			firstOff = 0
		case "joinedsp":
			input = "  " + c.S[:1] + " \t " + c.S[1:] // elided tokens between the sign and the digits
		case "multifirst":
			input = "  " + c.S + " 7" // two captures into the same field: the text under test first
		case "multilast":
			input = " 7 " + c.S
			firstOff = 3
		case "tail":
			input = "  " + c.S + " , 5"
		}
		var popts []participle.ParseOption
		out := runGuarded(func() (res string) {
			defer func() {
				if r := recover(); r != nil {
					res = fmt.Sprintf("panic %v", r)
				}
			}()
			var ast *numRoot
			var err error
			var tv reflect.Value
			if p.tail != nil {
				tv, err = p.tail(input)
			} else {
				ast, err = p.p.ParseString("n.txt", input, popts...)
			}
			if err != nil {
				flags := []string{}
				pe, isPE := err.(participle.Error)
				if !isPE {
					flags = append(flags, "NOTPARTICIPLEERROR")
				} else {
					pos := pe.Position()
					if pos.Offset != firstOff || pos.Line != 1 || pos.Column != firstOff+1 {
						flags = append(flags, fmt.Sprintf("BADPOS:%d:%d:%d", pos.Offset, pos.Line, pos.Column))
					}
					if pos.Filename != "n.txt" {
						flags = append(flags, "BADFILE")
					}
				}
				if !strings.Contains(err.Error(), "strconv") && !strings.Contains(err.Error(), strconv.Quote(strings.ReplaceAll(c.S, " ", ""))) {
					flags = append(flags, "NOTNAMED")
				}
				kind := "conv"
				if _, isUT := err.(*participle.UnexpectedTokenError); isUT {
					kind = "syntax"
				}
				return "fail " + kind + " " + strings.Join(flags, ",")
			}
			if p.tail != nil {
				return "ok " + numValue(tv)
			}
			v := reflect.ValueOf(ast.X).Elem().Field(0)
			if c.Shape == "embedded3" {
				v = reflect.ValueOf(ast.X).Elem().FieldByName("V")
			}
			return "ok " + numValue(v)
		})
		line := fmt.Sprintf("%d\t%s", i, out)
		if !strings.HasPrefix(c.Kind, "float") {
			bits := map[string]int{"int8": 8, "int16": 16, "int32": 32, "int64": 64, "int": strconv.IntSize, "uint8": 8, "uint16": 16, "uint32": 32, "uint64": 64, "uint": strconv.IntSize}[c.Kind]
			if strings.HasPrefix(c.Kind, "u") {
				if n, err := strconv.ParseUint(c.S, 0, bits); err != nil {
					line += "\toracle=fail"
				} else {
					line += "\toracle=ok " + strconv.FormatUint(n, 10)
				}
			} else {
				if n, err := strconv.ParseInt(c.S, 0, bits); err != nil {
					line += "\toracle=fail"
				} else {
					line += "\toracle=ok " + strconv.FormatInt(n, 10)
				}
			}
		}
		if strings.HasPrefix(c.Kind, "float") {
			bits := 64
			if c.Kind == "float32" {
				bits = 32
			}
			txt := c.S
			if fv, err := strconv.ParseFloat(txt, bits); err != nil {
				line += "\toracle=fail"
			} else if bits == 32 {
				line += "\toracle=ok f" + strconv.FormatUint(uint64(math.Float32bits(float32(fv))), 16)
			} else {
				line += "\toracle=ok f" + strconv.FormatUint(math.Float64bits(fv), 16)
			}
		}
		fmt.Println(line)
	}
	return nil
}
