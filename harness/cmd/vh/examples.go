package main

import (
	"bufio"
	"encoding/json"
	"fmt"
	"io"
	"math/rand"
	"os"
	"reflect"
	"runtime/debug"
	"strconv"
	"strings"
	"unicode/utf8"

	"github.com/alecthomas/participle/v2"
	"github.com/alecthomas/participle/v2/lexer"
)

func init() { commands["examples-run"] = examplesRun }

// ---- realistic example grammars (fixed copies in the style of the repository's _examples) --------------------

type jsValue struct {
	Pos    lexer.Position
	Str    *string   `  @String`
	Num    *float64  `| @(Float | Int)`
	Obj    *jsObject `| @@`
	Arr    *jsArray  `| @@`
	Bool   *string   `| @("true" | "false")`
	Null   bool      `| @"null"`
	EndPos lexer.Position
}
type jsObject struct {
	Pairs []*jsPair `"{" ( @@ ( "," @@ )* )? "}"`
}
type jsPair struct {
	Key   string   `@String ":"`
	Value *jsValue `@@`
}
type jsArray struct {
	Items []*jsValue `"[" ( @@ ( "," @@ )* )? "]"`
}

type exExpr struct {
	Left  *exTerm     `@@`
	Right []*exOpTerm `@@*`
}
type exOpTerm struct {
	Op   string  `@("+" | "-")`
	Term *exTerm `@@`
}
type exTerm struct {
	Left  *exFactor     `@@`
	Right []*exOpFactor `@@*`
}
type exOpFactor struct {
	Op     string    `@("*" | "/")`
	Factor *exFactor `@@`
}
type exFactor struct {
	Pos    lexer.Position
	Num    *int      `  @Int`
	Var    *string   `| @Ident`
	Sub    *exExpr   `| "(" @@ ")"`
	Neg    *exFactor `| "-" @@`
	Tokens []lexer.Token
}

type iniFile struct {
	Props    []*iniProp    `@@*`
	Sections []*iniSection `@@*`
}
type iniSection struct {
	Name  string     `"[" @Ident "]"`
	Props []*iniProp `@@*`
}
type iniProp struct {
	Key   string    `@Ident "="`
	Value *iniValue `@@`
}
type iniValue struct {
	Str *string  `  @String`
	Num *float64 `| @Float | @Int`
}

// string interpolation with a stateful lexer
var interpLexer = lexer.MustStateful(lexer.Rules{
	"Root": {
		{Name: "String", Pattern: `"`, Action: lexer.Push("String")},
		{Name: "Ident", Pattern: `\w+`},
		{Name: "Oper", Pattern: `[-+*/()]`},
		{Name: "whitespace", Pattern: `\s+`},
	},
	"String": {
		{Name: "Escaped", Pattern: `\\.`},
		{Name: "StringEnd", Pattern: `"`, Action: lexer.Pop()},
		{Name: "Expr", Pattern: `\${`, Action: lexer.Push("StringExpr")},
		{Name: "Char", Pattern: `\$|[^$"\\]+`},
	},
	"StringExpr": {
		{Name: "ExprEnd", Pattern: `}`, Action: lexer.Pop()},
		lexer.Include("Root"),
	},
})

type ipString struct {
	Fragments []*ipFragment `"\"" @@* "\""`
}
type ipFragment struct {
	Escaped string  `(  @Escaped`
	Expr    *ipExpr ` | "${" @@ "}"`
	Text    string  ` | @Char )`
}
type ipExpr struct {
	Left  *ipTerm   `@@`
	Right []*ipOpTm `@@*`
}
type ipOpTm struct {
	Op   string  `@Oper`
	Term *ipTerm `@@`
}
type ipTerm struct {
	Str *ipString `  @@`
	Id  *string   `| @Ident`
}

type exampleParser struct {
	name     string
	parse    func(filename, in string, opts ...participle.ParseOption) (any, error)
	lex      func(in string) ([]lexer.Token, error)
	valid    []string
	str      func() string // Parser.String()
	parseRaw func(in string) (any, error)
	nested   func(n int) string // nesting depth n
	flat     func(n int) string // n items, no nesting
}

func mkExample[T any](name string, valid []string, nested, flat func(int) string, opts ...participle.Option) *exampleParser {
	p := participle.MustBuild[T](opts...)
	return &exampleParser{
		name: name,
		parse: func(fn, in string, po ...participle.ParseOption) (any, error) {
			// the three entry points the property names take turns; the reader has a name of its own, which the filename
			// the caller supplies overrides
			switch len(in) % 3 {
			case 1:
				v, err := p.ParseBytes(fn, []byte(in), po...)
				return v, err
			case 2:
				v, err := p.Parse(fn, namedReader{strings.NewReader(in), "reader-name.txt"}, po...)
				return v, err
			}
			v, err := p.ParseString(fn, in, po...)
			return v, err
		},
		lex:      func(in string) ([]lexer.Token, error) { return p.Lex("fn", strings.NewReader(in)) },
		str:      func() string { return p.String() },
		parseRaw: func(in string) (any, error) { v, err := p.ParseString("", in); return v, err },
		valid:    valid, nested: nested, flat: flat,
	}
}

func examples() []*exampleParser {
	rep := strings.Repeat
	return []*exampleParser{
		mkExample[jsValue]("json", []string{`{"a": [1, 2.5, "x", true, null], "b": {"c": []}}`, `[1,[2,[3,[4]]]]`, `"s"`, `{}`},
			func(n int) string { return rep("[", n) + "1" + rep("]", n) },
			func(n int) string { return "[" + rep("1,", n) + "1]" },
			participle.Unquote("String"), participle.UseLookahead(2)),
		mkExample[exExpr]("expr", []string{`1 + 2 * (3 - x) / 4`, `a`, `-(-1)`, `(1)`, `x * y * z - 1`},
			func(n int) string { return rep("(", n) + "1" + rep(")", n) },
			func(n int) string { return rep("1+", n) + "1" }),
		mkExample[iniFile]("ini", []string{"a = 1\nb = \"x\"\n[s]\nc = 2.5\n[t]\n", "[only]\n", "k = \"v\""},
			nil,
			func(n int) string { return rep("k = 1\n", n) },
			participle.Unquote("String")),
		mkExample[ipString]("interp", []string{`"hello ${name} and ${"nested ${deep}"} \" $ done"`, `""`, `"${a+b}"`, "\"l1\nl\u00efne ${x} \u00e9 ${y}\""},
			func(n int) string { return rep(`"${`, n) + "x" + rep(`}"`, n) },
			func(n int) string { return `"` + rep("${a}", n) + `"` },
			participle.Lexer(interpLexer)),
		// a root grammar type implemented by user code (participle.Parseable)
		mkExample[prWord]("parseable-root", []string{"a", " a ", "abc"}, nil, nil, participle.Lexer(coreLexer), participle.Elide("WS", "Comment")),
	}
}

// checkOutcome runs one parse and renders "ok" | "err <flags>" | "lexerr <flags>" | "panic ..." following C06's ErrOK.
func checkOutcome(e *exampleParser, in string) string {
	return runGuarded(func() (s string) {
		defer func() {
			if r := recover(); r != nil {
				s = fmt.Sprintf("panic %v", r)
			}
		}()
		raw, lerr := e.lex(in)
		ast, err := e.parse("fn", in)
		if err == nil {
			if lerr != nil {
				return "err BADERR:Lex fails but Parse succeeds"
			}
			if ast == nil {
				return "err BADERR:nil AST without error"
			}
			return "ok"
		}
		if lerr != nil {
			pe, ok := err.(participle.Error)
			if !ok {
				return "lexerr BADERR:notError"
			}
			if isNilAny(ast) == false {
				return "lexerr BADERR:non-nil AST"
			}
			return "lexerr" + posCheck(pe, err, in)
		}
		return "err" + errcheck(err, isNilAny(ast), in, raw)
	})
}

func isNilAny(v any) bool {
	if v == nil {
		return true
	}
	// (a typed nil pointer inside the interface value is a nil AST too, whatever the grammar type)
	rv := reflect.ValueOf(v)
	return rv.Kind() == reflect.Ptr && rv.IsNil()
}

func posCheck(pe participle.Error, err error, in string) string {
	pos := pe.Position()
	if pos.Filename != "fn" {
		return " BADERR:filename:" + pos.String()
	}
	if pos.Offset < 0 || pos.Offset > len(in) {
		return " BADERR:offset"
	}
	line := 1 + strings.Count(in[:pos.Offset], "\n")
	col := 1 + len([]rune(in[strings.LastIndex(in[:pos.Offset], "\n")+1:pos.Offset]))
	if pos.Line != line || pos.Column != col {
		return fmt.Sprintf(" BADERR:linecol %v want %d:%d", pos, line, col)
	}
	if !strings.HasPrefix(err.Error(), fmt.Sprintf("fn:%d:%d: ", pos.Line, pos.Column)) || !strings.HasSuffix(err.Error(), pe.Message()) {
		return " BADERR:text " + err.Error()
	}
	return ""
}

func mutate(rng *rand.Rand, s string) string {
	b := []byte(s)
	for k := rng.Intn(3) + 1; k > 0; k-- {
		switch rng.Intn(6) {
		case 0: // truncate
			if len(b) > 0 {
				b = b[:rng.Intn(len(b))]
			}
		case 1: // delete a byte
			if len(b) > 0 {
				i := rng.Intn(len(b))
				b = append(b[:i], b[i+1:]...)
			}
		case 2: // insert structural / odd byte
			i := rng.Intn(len(b) + 1)
			odd := []byte("{}[]()\",:=+-*/$\\\n \x00\xff\xc3")
			c := odd[rng.Intn(len(odd))]
			b = append(b[:i], append([]byte{c}, b[i:]...)...)
		case 3: // splice a copy of a fragment
			if len(b) > 1 {
				i, j := rng.Intn(len(b)), rng.Intn(len(b))
				if i > j {
					i, j = j, i
				}
				frag := append([]byte{}, b[i:j]...)
				k := rng.Intn(len(b) + 1)
				b = append(b[:k], append(frag, b[k:]...)...)
			}
		case 4: // flip a byte
			if len(b) > 0 {
				b[rng.Intn(len(b))] ^= byte(1 << rng.Intn(8))
			}
		case 5: // multi-byte text around a newline
			i := rng.Intn(len(b) + 1)
			b = append(b[:i], append([]byte([]string{"é\n", "\né", "\n\u00e9\u00e9"}[rng.Intn(3)]), b[i:]...)...)
		}
	}
	return string(b)
}

// examples-run <seed> <mutations per valid input>: "name\tinput\toutcome"
func examplesRun(args []string) error {
	seed, _ := strconv.Atoi(args[0])
	n, _ := strconv.Atoi(args[1])
	rng := rand.New(rand.NewSource(int64(seed)))
	for _, e := range examples() {
		for _, v := range e.valid {
			fmt.Printf("%s\t%q\tvalid %s\n", e.name, v, checkOutcome(e, v))
			for i := 0; i < n; i++ {
				m := mutate(rng, v)
				fmt.Printf("%s\t%q\t%s\n", e.name, m, checkOutcome(e, m))
			}
		}
		fmt.Printf("%s\t%q\t%s\n", e.name, "", checkOutcome(e, ""))
	}
	// a leading byte-order mark is input like any other byte: whatever the lexer makes of it, errors stay located
	for _, e := range examples() {
		for _, v := range e.valid[:1] {
			for _, in := range []string{"\ufeff" + v, "\ufeff" + v + " ]", "\ufeff\n" + v + "\x00"} {
				fmt.Printf("%s\t%q\t%s\n", e.name, in, checkOutcome(e, in))
			}
		}
	}
	// string literals the lexer accepts but Unquote rejects, the bad escape preceded by multi-byte text and line breaks inside the
	// token: the error must still denote a real location of the input
	for _, e := range examples() {
		if e.name != "json" && e.name != "ini" {
			continue
		}
		for _, lit := range []string{`"\400"`, `"é\400"`, `"ééé \ud800 x"`, "\"a\\\n\\400\"", `"日本語\xZZ"`, `"\u12"`, `"ok" "é\400"`} {
			in := "[" + lit + "]"
			if e.name == "ini" {
				in = "k = " + lit
			}
			fmt.Printf("%s\t%q\t%s\n", e.name, in, checkOutcome(e, in))
		}
	}
	return nil
}

// deep-run <example> <nested|flat> <n> <max stack bytes>: one parse in this (child) process under a stack limit.
func deepRun(args []string) error {
	n, _ := strconv.Atoi(args[2])
	limit, _ := strconv.Atoi(args[3])
	debug.SetMaxStack(limit)
	if args[0] == "lexflat" {
		// a long flat run of consecutive ignored tokens (comment lines separated by ignored newlines) on a stateful lexer
		def := exampleLexers()["heredoc"]
		in := strings.Repeat("// c\n", n) + "x"
		l, _ := def.LexString("f", in)
		toks := 0
		for {
			t, err := l.Next()
			if err != nil {
				fmt.Printf("lexflat\tflat\t%d\terr %v\n", n, err)
				return nil
			}
			if t.EOF() {
				break
			}
			toks++
		}
		out := "ok"
		if toks != 1 {
			out = fmt.Sprintf("err %d tokens", toks)
		}
		fmt.Printf("lexflat\tflat\t%d\t%s\n", n, out)
		return nil
	}
	if args[0] == "lexreturn" {
		// n states entered one inside the other, then a character only Return can answer: ONE call of Next leaves them all (a
		// loop in the library, so the depth costs no stack)
		def := lexer.MustStateful(lexer.Rules{
			"Root": {{Name: "Open", Pattern: `\(`, Action: lexer.Push("In")}, {Name: "X", Pattern: `x`}},
			"In":   {{Name: "Open", Pattern: `\(`, Action: lexer.Push("In")}, lexer.Return()},
		})
		in := strings.Repeat("(", n) + "x"
		l, _ := def.LexString("f", in)
		toks := 0
		for {
			t, err := l.Next()
			if err != nil {
				fmt.Printf("lexreturn\tflat\t%d\terr %v\n", n, err)
				return nil
			}
			if t.EOF() {
				break
			}
			toks++
		}
		out := "ok"
		if toks != n+1 {
			out = fmt.Sprintf("err %d tokens", toks)
		}
		fmt.Printf("lexreturn\tflat\t%d\t%s\n", n, out)
		return nil
	}
	for _, e := range examples() {
		if e.name != args[0] {
			continue
		}
		var in string
		if args[1] == "nestedtrace" {
			// the same nested input with the Trace option on: it must make no difference to the outcome
			if e.nested == nil {
				fmt.Println("skip")
				return nil
			}
			in = e.nested(n)
			plain := checkOutcome(e, in)
			traced := runGuarded(func() (res string) {
				defer func() {
					if r := recover(); r != nil {
						res = fmt.Sprintf("panic %v", r)
					}
				}()
				_, err := e.parse("fn", in, participle.Trace(io.Discard))
				if err != nil {
					return "err " + err.Error()
				}
				return "ok"
			})
			if traced != plain {
				traced = "with Trace: " + traced + "; without: " + plain
			}
			fmt.Printf("%s\t%s\t%d\t%s\n", e.name, args[1], n, traced)
			return nil
		}
		if args[1] == "nested" {
			if e.nested == nil {
				fmt.Println("skip")
				return nil
			}
			in = e.nested(n)
		} else {
			in = e.flat(n)
		}
		fmt.Printf("%s\t%s\t%d\t%s\n", e.name, args[1], n, checkOutcome(e, in))
		return nil
	}
	return fmt.Errorf("unknown example %s", args[0])
}

func init() { commands["errfacts-run"] = errfactsRun }

// errfacts-run <seed> <mutations per valid input>: one JSON event per FAILING parse of the example grammars with the raw
// facts of C06's ErrOK clause (judged by Trace_ErrOK.tla).
func errfactsRun(args []string) error {
	seed, _ := strconv.Atoi(args[0])
	n, _ := strconv.Atoi(args[1])
	rng := rand.New(rand.NewSource(int64(seed)))
	w := bufio.NewWriterSize(os.Stdout, 1<<20)
	defer w.Flush()
	enc := json.NewEncoder(w)
	emit := func(e *exampleParser, in string) {
		defer func() { _ = recover() }()
		raw, lerr := e.lex(in)
		ast, err := e.parse("fn", in)
		if err == nil {
			return
		}
		ev := map[string]any{"grammar": e.name, "input": in, "chars": charsOf(in), "off": -1, "line": 0, "col": 0, "isError": false, "fileOk": false,
			"textOk": false, "kind": "other", "tokenInStream": false, "lexFailed": lerr != nil, "astNil": isNilAny(ast)}
		if pe, ok := err.(participle.Error); ok {
			pos := pe.Position()
			ev["isError"] = true
			ev["off"], ev["line"], ev["col"] = pos.Offset, pos.Line, pos.Column
			ev["fileOk"] = pos.Filename == "fn"
			ev["textOk"] = strings.HasPrefix(err.Error(), fmt.Sprintf("fn:%d:%d: ", pos.Line, pos.Column)) && strings.HasSuffix(err.Error(), pe.Message())
			if ut, ok := err.(*participle.UnexpectedTokenError); ok {
				ev["kind"] = "unexpected"
				for _, t := range raw {
					if t.Pos == ut.Unexpected.Pos && t.Value == ut.Unexpected.Value && t.Type == ut.Unexpected.Type {
						ev["tokenInStream"] = true
					}
				}
			}
		}
		enc.Encode(ev)
	}
	for _, e := range examples() {
		for _, v := range e.valid {
			for i := 0; i < n; i++ {
				m := mutate(rng, v)
				if !utf8.ValidString(m) {
					m = strings.ToValidUTF8(m, "?") // JSON transport; invalid bytes are covered by the grammar-family part
				}
				emit(e, m)
			}
		}
		emit(e, "")
	}
	return nil
}
