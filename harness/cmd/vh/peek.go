package main

import (
	"bufio"
	"encoding/json"
	"fmt"
	"math/rand"
	"os"
	"sort"
	"strconv"
	"strings"

	"github.com/alecthomas/participle/v2/lexer"
)

func init() {
	commands["peek-replay"] = peekReplay
	commands["peek-record"] = peekRecord
}

// sliceLexer feeds a fixed token slice to lexer.Upgrade.
type sliceLexer struct {
	t []lexer.Token
	i int
}

func (s *sliceLexer) Next() (lexer.Token, error) {
	t := s.t[s.i]
	if s.i < len(s.t)-1 {
		s.i++
	}
	return t, nil
}

var peekTypes = map[byte]lexer.TokenType{'N': -2, 'E': -3, 'X': -4, '$': lexer.EOF}

// usePositiveTypes switches the harness to rune-style (positive) token types, as text/scanner based or custom lexers use.
func usePositiveTypes() {
	peekTypes = map[byte]lexer.TokenType{'N': 'N', 'E': 'E', 'X': 1000, '$': lexer.EOF}
}

// useOddTypes: the elided type is 0 (the zero value of TokenType, e.g. iota-numbered types), the other elided type lies far
// below -64 (a lexer with many rules), and EOF itself is named in the elision set (it must still end the stream).
var elideEOF bool

func useOddTypes() {
	peekTypes = map[byte]lexer.TokenType{'N': -70, 'E': 0, 'X': -100, '$': lexer.EOF}
	elideEOF = true
}

func peekLexer(kinds string) (*lexer.PeekingLexer, []lexer.Token) {
	toks := make([]lexer.Token, len(kinds))
	for i := 0; i < len(kinds); i++ {
		toks[i] = lexer.Token{Type: peekTypes[kinds[i]], Value: strconv.Itoa(i + 1), Pos: lexer.Position{Offset: i}}
	}
	el := []lexer.TokenType{peekTypes['E'], peekTypes['X']}
	if elideEOF {
		el = append(el, lexer.EOF)
	}
	pl, _ := lexer.Upgrade(&sliceLexer{t: toks}, el...)
	return pl, toks
}

func tokIdx(t *lexer.Token) int { v, _ := strconv.Atoi(t.Value); return v }

func peekPred(name string) func(lexer.Token) bool {
	set := map[lexer.TokenType]bool{}
	switch name {
	case "X":
		set[peekTypes['X']] = true
	case "N":
		set[peekTypes['N']] = true
	case "EX":
		set[peekTypes['E']], set[peekTypes['X']] = true, true
	case "NX":
		set[peekTypes['N']], set[peekTypes['X']] = true, true
	}
	return func(t lexer.Token) bool { return set[t.Type] }
}

type trip struct{ raw, nxt, cur int }

func parseTrip(s string) trip {
	p := strings.Split(s, ",")
	a, _ := strconv.Atoi(p[0])
	b, _ := strconv.Atoi(p[1])
	c, _ := strconv.Atoi(p[2])
	return trip{a, b, c}
}

func observe(pl *lexer.PeekingLexer) trip {
	return trip{int(pl.RawCursor()) + 1, tokIdx(pl.Peek()), pl.Cursor()}
}

// replayEdge performs one specification transition on a fresh real PeekingLexer and reports a
// description of the first disagreement ("" if none).
func replayEdge(f []string) (msg string) {
	defer func() {
		if r := recover(); r != nil {
			msg = fmt.Sprintf("panic: %v", r)
		}
	}()
	kinds, pre, op, arg, res, post := f[0], parseTrip(f[1]), f[3], f[4], f[5], parseTrip(f[6])
	var savedPre, savedPost []trip
	for _, s := range strings.Split(f[2], ";") {
		savedPre = append(savedPre, parseTrip(s))
	}
	for _, s := range strings.Split(f[7], ";") {
		savedPost = append(savedPost, parseTrip(s))
	}
	pl, _ := peekLexer(kinds)
	// reach the pre-state: visit the needed raw positions in increasing order, taking checkpoints
	want := map[int]bool{pre.raw: true}
	for _, s := range savedPre {
		if s.raw != 0 {
			want[s.raw] = true
		}
	}
	var order []int
	for r := range want {
		order = append(order, r)
	}
	sort.Ints(order)
	cps := map[int]lexer.Checkpoint{}
	for _, r := range order {
		if r > 1 {
			pl.FastForward(lexer.RawCursor(r - 2))
		}
		cps[r] = pl.MakeCheckpoint()
	}
	pl.LoadCheckpoint(cps[pre.raw])
	slots := make([]*lexer.Checkpoint, len(savedPre))
	for i, s := range savedPre {
		if s.raw != 0 {
			c := cps[s.raw]
			slots[i] = &c
		}
	}
	if o := observe(pl); o != pre {
		return fmt.Sprintf("pre-state %v, specification %v", o, pre)
	}
	got := ""
	switch op {
	case "Next":
		got = strconv.Itoa(tokIdx(pl.Next()))
	case "Peek":
		got = strconv.Itoa(tokIdx(pl.Peek()))
	case "RawPeek":
		got = strconv.Itoa(tokIdx(pl.RawPeek()))
	case "PeekAny":
		t, c := pl.PeekAny(peekPred(arg))
		got = strconv.Itoa(int(c) + 1)
		if tokIdx(&t) != int(c)+1 {
			return fmt.Sprintf("PeekAny returned token %d with cursor %d", tokIdx(&t), int(c)+1)
		}
	case "FastForward":
		c, _ := strconv.Atoi(arg)
		pl.FastForward(lexer.RawCursor(c - 1))
	case "Range":
		ab := strings.Split(arg, ",")
		a, _ := strconv.Atoi(ab[0])
		b, _ := strconv.Atoi(ab[1])
		r := pl.Range(lexer.RawCursor(a-1), lexer.RawCursor(b-1))
		got = strconv.Itoa(len(r))
		for i := range r {
			if tokIdx(&r[i]) != a+i {
				return fmt.Sprintf("Range(%d,%d)[%d] is token %d", a, b, i, tokIdx(&r[i]))
			}
		}
	case "MakeCheckpoint":
		s, _ := strconv.Atoi(arg)
		c := pl.MakeCheckpoint()
		slots[s-1] = &c
	case "LoadCheckpoint":
		s, _ := strconv.Atoi(arg)
		pl.LoadCheckpoint(*slots[s-1])
	default:
		return "unknown op " + op
	}
	if got != res {
		return fmt.Sprintf("%s(%s) returned %s, specification %s", op, arg, got, res)
	}
	if o := observe(pl); o != post {
		return fmt.Sprintf("after %s(%s): (raw,peek,cursor)=%v, specification %v", op, arg, o, post)
	}
	// restoring each saved checkpoint must reproduce the saved observations
	here := pl.MakeCheckpoint()
	for i, s := range savedPost {
		if s.raw == 0 {
			continue
		}
		if slots[i] == nil {
			return "harness: slot unset"
		}
		if slots[i].Cursor() != s.cur || int(slots[i].RawCursor())+1 != s.raw {
			return fmt.Sprintf("checkpoint %d holds raw=%d cursor=%d, specification %v", i+1, int(slots[i].RawCursor())+1, slots[i].Cursor(), s)
		}
		pl.LoadCheckpoint(*slots[i])
		if o := observe(pl); o != s {
			return fmt.Sprintf("after restoring checkpoint %d: %v, specification %v", i+1, o, s)
		}
	}
	pl.LoadCheckpoint(here)
	if o := observe(pl); o != post {
		return fmt.Sprintf("after restore round trip: %v, specification %v", o, post)
	}
	return ""
}

// peek-replay <edges file>: one "a|b|..." record per line (EDGE prefix stripped)
func peekReplay(args []string) error {
	if len(args) > 1 && args[1] == "odd" {
		useOddTypes()
	}
	if len(args) > 1 && args[1] == "positive" {
		usePositiveTypes()
	}
	f, err := os.Open(args[0])
	if err != nil {
		return err
	}
	defer f.Close()
	sc := bufio.NewScanner(f)
	sc.Buffer(make([]byte, 1<<20), 1<<20)
	w := bufio.NewWriter(os.Stdout)
	defer w.Flush()
	n, bad := 0, 0
	for sc.Scan() {
		line := sc.Text()
		fs := strings.Split(line, "|")
		if len(fs) != 8 {
			return fmt.Errorf("bad edge line %q", line)
		}
		n++
		if msg := replayEdge(fs); msg != "" {
			bad++
			if bad <= 50 {
				fmt.Fprintf(w, "MISMATCH\t%s\t%s\n", line, msg)
			}
		}
	}
	fmt.Fprintf(w, "DONE\t%d\t%d\n", n, bad)
	return nil
}

// peek-record <seed> <traces> <maxlen> <steps>: random operation sequences on random streams, one ndjson
// event per operation with the observations made through the public API after it.
func peekRecord(args []string) error {
	seed, _ := strconv.Atoi(args[0])
	ntraces, _ := strconv.Atoi(args[1])
	maxlen, _ := strconv.Atoi(args[2])
	steps, _ := strconv.Atoi(args[3])
	if seed%3 == 1 {
		usePositiveTypes() // every third batch of traces uses rune-style token types
	} else if seed%3 == 2 {
		useOddTypes()
	}
	rng := rand.New(rand.NewSource(int64(seed)))
	w := bufio.NewWriter(os.Stdout)
	defer w.Flush()
	enc := json.NewEncoder(w)
	kindsOf := "NEX"
	for tr := 0; tr < ntraces; tr++ {
		n := rng.Intn(maxlen + 1)
		long := tr%40 == 7 // a long stream with runs of hundreds of consecutive elided tokens (beyond any 8-bit counter)
		if long {
			n = 300 + rng.Intn(400)
		}
		b := make([]byte, n+1)
		ks := make([]string, n+1)
		bias := rng.Intn(3)
		for i := 0; i < n; i++ {
			k := kindsOf[rng.Intn(3)]
			if bias == 1 && rng.Intn(2) == 0 {
				k = 'E'
			}
			if long && i%290 > 5 {
				k = "EX"[rng.Intn(2)]
			}
			b[i] = k
			ks[i] = string(k)
		}
		b[n] = '$'
		ks[n] = "EOF"
		var pl *lexer.PeekingLexer
		var toks []lexer.Token
		func() {
			defer func() {
				if r := recover(); r != nil {
					pl = nil
				}
			}()
			pl, toks = peekLexer(string(b))
		}()
		if pl == nil {
			// constructing the lexer (lexer.Upgrade) panicked: a trace whose first observation no specification state matches
			enc.Encode(map[string]any{"ev": "reset", "toks": ks, "ret": 0, "a": 0, "b": 0, "m": "Upgrade panicked", "raw": -1, "peek": -1, "cur": -1})
			continue
		}
		ev := func(name string, ret, a, bb int, m string) {
			o := observe(pl)
			enc.Encode(map[string]any{"ev": name, "ret": ret, "a": a, "b": bb, "m": m, "raw": o.raw, "peek": o.nxt, "cur": o.cur})
		}
		o := observe(pl)
		enc.Encode(map[string]any{"ev": "reset", "toks": ks, "ret": 0, "a": 0, "b": 0, "m": "", "raw": o.raw, "peek": o.nxt, "cur": o.cur})
		cps := make([]*lexer.Checkpoint, 2)
		panicked := false
		for step := 0; step < steps && !panicked; step++ {
			// an operation that panics (reads outside the stream) is recorded as an event no specification step matches
			func() {
				defer func() {
					if r := recover(); r != nil {
						panicked = true
						enc.Encode(map[string]any{"ev": "PANIC", "ret": 0, "a": 0, "b": 0, "m": fmt.Sprint(r), "raw": 0, "peek": 0, "cur": 0})
					}
				}()
				recordStep(rng, pl, toks, cps, ev)
			}()
		}
	}
	return nil
}

func recordStep(rng *rand.Rand, pl *lexer.PeekingLexer, toks []lexer.Token, cps []*lexer.Checkpoint, ev func(name string, ret, a, bb int, m string)) {
	{
		{
			switch rng.Intn(9) {
			case 0, 1:
				ev("Next", tokIdx(pl.Next()), 0, 0, "")
			case 2:
				ev("Peek", tokIdx(pl.Peek()), 0, 0, "")
			case 3:
				ev("RawPeek", tokIdx(pl.RawPeek()), 0, 0, "")
			case 4:
				m := []string{"none", "X", "N", "EX", "NX"}[rng.Intn(5)]
				_, c := pl.PeekAny(peekPred(m))
				ev("PeekAny", int(c)+1, 0, 0, m)
				if rng.Intn(2) == 0 {
					pl.FastForward(c)
					ev("FastForward", 0, int(c)+1, 0, "")
				}
			case 5:
				c := rng.Intn(len(toks) + 1)
				pl.FastForward(lexer.RawCursor(c))
				ev("FastForward", 0, c+1, 0, "")
			case 6:
				s := rng.Intn(2)
				c := pl.MakeCheckpoint()
				cps[s] = &c
				ev("MakeCheckpoint", 0, s+1, 0, "")
			case 7:
				s := rng.Intn(2)
				if cps[s] != nil {
					pl.LoadCheckpoint(*cps[s])
					ev("LoadCheckpoint", 0, s+1, 0, "")
				}
			case 8:
				a := rng.Intn(len(toks) + 1)
				bb := a + rng.Intn(len(toks)+1-a)
				r := pl.Range(lexer.RawCursor(a), lexer.RawCursor(bb))
				ok := len(r)
				for i := range r {
					if tokIdx(&r[i]) != a+1+i {
						ok = -1
					}
				}
				ev("Range", ok, a+1, bb+1, "")
			}
		}
	}
}
