package main

import (
	"bufio"
	"bytes"
	"crypto/sha1"
	"encoding/hex"
	"encoding/json"
	"errors"
	"fmt"
	"io"
	"math/rand"
	"os"
	"runtime"
	"strconv"
	"strings"
	"sync"
	"text/scanner"
	"time"
	"unicode"

	"github.com/alecthomas/participle/v2"
	"github.com/alecthomas/participle/v2/ebnf"
	"github.com/alecthomas/participle/v2/lexer"
)

// strGrammar: nested productions inside a "must not be empty" group, an optional group and a lookahead group
type strGrammar struct {
	A *strItem    `( @@? "x"? )!`
	B []*strOther `( "(" @@* ")" )?`
	C string      `(?= "!" ) @"!"`
}
type strItem struct {
	N string   `@Ident`
	K *strLeaf `@@?`
}
type strLeaf struct {
	V string `@Int`
}
type strOther struct {
	W string `@String`
}

type customGrammar struct {
	Items []CIface `@@*`
}

type mappedGrammar struct {
	Words []string `@(Ident | String | Int)*`
}

func init() {
	commands["conc-replay"] = concReplay
	commands["conc-stress"] = concStress
	commands["conc-history"] = concHistory
}

func plainDef() *lexer.StatefulDefinition {
	return lexer.MustStateful(lexer.Rules{
		"Root": {{Name: "Open", Pattern: `<(\w+)>`, Action: lexer.Push("Body")}, {Name: "QOpen", Pattern: `([a-z])(["'])`, Action: lexer.Push("Quoted")}, {Name: "WS", Pattern: `\s+`},
			// enters Body without a group: the end rule's back-reference cannot be expanded (use E: a located error, every time)
			{Name: "Bare", Pattern: `!`, Action: lexer.Push("Body")}},
		"Body": {{Name: "End", Pattern: `</\1>`, Action: lexer.Pop()}, {Name: "Text", Pattern: `[^<]+`}},
		// the closing rule refers to two groups of the opening rule
		"Quoted": {{Name: "QClose", Pattern: `\2\1`, Action: lexer.Pop()}, {Name: "QText", Pattern: `[^"']+`}, {Name: "Quote", Pattern: `["']`}},
	})
}

// nulDef: two rules whose groups are (a NUL b) and (a)(b) with the same whole match, entering the same state.
func nulDef() *lexer.StatefulDefinition {
	return lexer.MustStateful(lexer.Rules{
		"Root": {{Name: "One", Pattern: "(a\x00b)", Action: lexer.Push("S")}, {Name: "X", Pattern: `x`, Action: lexer.Push("T")}},
		"T":    {{Name: "Two", Pattern: "(a)\x00(b)", Action: lexer.Push("S")}},
		"S":    {{Name: "End", Pattern: `\1`, Action: lexer.Pop()}, {Name: "Text", Pattern: `t`}},
	})
}

var useInput = map[string]string{"A": "<a>t</a>", "B": "<b>t</b>", "N1": "a\x00bta\x00b", "N2": "xa\x00bta", "D1": `a"hi"a`, "D2": `b"hi"b`, "E": "!t"}

// lexString lexes on the calling goroutine (the gate hooks identify processes by goroutine).
func lexString(def lexer.Definition, in string) (res string) {
	defer func() {
		if r := recover(); r != nil {
			res = fmt.Sprintf("panic %v", r)
		}
	}()
	names := symbolNames(def)
	l, err := def.Lex("c.txt", strings.NewReader(in))
	if err != nil {
		return "lexiniterr"
	}
	var sb strings.Builder
	for n := 0; n <= len(in)+1; n++ {
		t, err := l.Next()
		if err != nil {
			pos, _ := errPos(err)
			fmt.Fprintf(&sb, "ERR@%d:%d:%d", pos.Offset, pos.Line, pos.Column)
			return sb.String()
		}
		if t.EOF() {
			fmt.Fprintf(&sb, "EOF@%d:%d:%d", t.Pos.Offset, t.Pos.Line, t.Pos.Column)
			return sb.String()
		}
		fmt.Fprintf(&sb, "%s@%d:%d:%d+%d ", names[t.Type], t.Pos.Offset, t.Pos.Line, t.Pos.Column, len(t.Value))
	}
	return sb.String() + "TOOMANY"
}

func goid() int {
	var buf [64]byte
	n := runtime.Stack(buf[:], false)
	f := strings.Fields(string(buf[:n]))
	id, _ := strconv.Atoi(f[1])
	return id
}

type arrival struct {
	proc    int
	point   string
	release chan struct{}
	done    bool
}

// replaySchedule runs the calls of one SCHED line on a fresh shared definition, releasing the goroutines at the
// back-reference cache gates in the specified order.
func replaySchedule(calls []string, hist []string, steps []string) (results []string, drift string) {
	var def *lexer.StatefulDefinition
	if strings.HasPrefix(calls[0], "N") {
		def = nulDef()
	} else {
		def = plainDef()
	}
	lexer.VerifGate = nil
	for _, h := range hist {
		lexString(def, useInput[h])
	}
	arrivals := make(chan arrival, 64)
	var mu sync.Mutex
	procOf := map[int]int{}
	lexer.VerifGate = func(point, key string) {
		mu.Lock()
		p, ok := procOf[goid()]
		mu.Unlock()
		if !ok {
			return
		}
		rel := make(chan struct{})
		arrivals <- arrival{proc: p, point: strings.TrimPrefix(point, "backref."), release: rel}
		<-rel
	}
	defer func() { lexer.VerifGate = nil }()
	results = make([]string, len(calls))
	for i, c := range calls {
		i, c := i, c
		ready := make(chan struct{})
		go func() {
			mu.Lock()
			procOf[goid()] = i + 1
			mu.Unlock()
			close(ready)
			results[i] = lexString(def, useInput[c])
			arrivals <- arrival{proc: i + 1, done: true}
		}()
		<-ready
	}
	parked := map[int]*arrival{}
	finished := map[int]bool{}
	wait := func(p int) *arrival { // wait until process p is parked at a gate or finished
		for {
			if a, ok := parked[p]; ok {
				return a
			}
			if finished[p] {
				return nil
			}
			select {
			case a0 := <-arrivals:
				a := a0
				if a.done {
					finished[a.proc] = true
				} else {
					parked[a.proc] = &a
				}
			case <-time.After(5 * time.Second):
				return nil
			}
		}
	}
	for _, st := range steps {
		f := strings.Split(st, ":")
		p, _ := strconv.Atoi(f[0])
		a := wait(p)
		if a == nil {
			drift = fmt.Sprintf("process %d is not at a gate when the specification takes %s", p, st)
			break
		}
		if a.point != f[1] {
			drift = fmt.Sprintf("process %d is at %s when the specification takes %s", p, a.point, st)
		}
		delete(parked, p)
		close(a.release)
		// let the released step complete: the process parks again or finishes
		wait(p)
	}
	// release whatever is still parked (only after a drift) and wait for everyone
	deadline := time.After(10 * time.Second)
	for len(finished) < len(calls) {
		for p, a := range parked {
			close(a.release)
			delete(parked, p)
			if drift == "" {
				drift = fmt.Sprintf("process %d takes more cache steps than the specification", p)
			}
		}
		select {
		case a0 := <-arrivals:
			a := a0
			if a.done {
				finished[a.proc] = true
			} else {
				parked[a.proc] = &a
			}
		case <-deadline:
			return results, "hang"
		}
	}
	return results, drift
}

// conc-replay <lines>: "calls|history|schedule"; prints MISMATCH when a call's result differs from the same call on a fresh
// definition in isolation, DRIFT when only the gate sequence differs from the specification's.
func concReplay(args []string) error {
	f, err := os.Open(args[0])
	if err != nil {
		return err
	}
	defer f.Close()
	sc := bufio.NewScanner(f)
	w := bufio.NewWriter(os.Stdout)
	defer w.Flush()
	ref := map[string]string{}
	for u, in := range useInput {
		if strings.HasPrefix(u, "N") {
			ref[u] = lexString(nulDef(), in)
		} else {
			ref[u] = lexString(plainDef(), in)
		}
	}
	n, bad, drifts := 0, 0, 0
	for sc.Scan() {
		p := strings.Split(sc.Text(), "|")
		if len(p) != 3 {
			return fmt.Errorf("bad line %q", sc.Text())
		}
		calls := strings.Split(p[0], ",")
		var hist []string
		if p[1] != "-" {
			hist = strings.Split(p[1], ",")
		}
		var steps []string
		if p[2] != "" {
			steps = strings.Split(p[2], " ")
		}
		results, drift := replaySchedule(calls, hist, steps)
		n++
		for i, c := range calls {
			if results[i] != ref[c] {
				bad++
				fmt.Fprintf(w, "MISMATCH\t%s\tprocess %d (call %s) returned %q; the same call on a fresh definition returns %q\n", sc.Text(), i+1, c, results[i], ref[c])
			}
		}
		if drift != "" {
			drifts++
			if drifts <= 5 {
				fmt.Fprintf(w, "DRIFT\t%s\t%s\n", sc.Text(), drift)
			}
		}
	}
	fmt.Fprintf(w, "DONE\t%d\t%d\t%d\n", n, bad, drifts)
	return nil
}

// conc-history: every order of earlier sequential calls on ONE definition must leave each call's result unchanged.
// histEvents: the (call, result) observations of conc-history as ndjson for Trace_History.tla (results as digests).
var histEvents *json.Encoder

func digest(s string) string {
	h := sha1.Sum([]byte(s))
	return hex.EncodeToString(h[:8])
}

// observe records that call `call` gave `fresh` on a never-used object and `used` on an object after history `after`.
func observe2(call, after, fresh, used string) {
	if histEvents == nil {
		return
	}
	_ = histEvents.Encode(map[string]any{"ev": "fresh", "call": call, "res": digest(fresh), "after": ""})
	_ = histEvents.Encode(map[string]any{"ev": "used", "call": call, "res": digest(used), "after": after})
}

func concHistory(args []string) error {
	if len(args) > 0 {
		f, err := os.Create(args[0])
		if err != nil {
			return err
		}
		defer f.Close()
		histEvents = json.NewEncoder(f)
	}
	uses := [][]string{{"A", "B", "D1", "D2", "E"}, {"N1", "N2"}}
	for _, set := range uses {
		for _, first := range set {
			for _, second := range set {
				var def *lexer.StatefulDefinition
				var fresh *lexer.StatefulDefinition
				if strings.HasPrefix(first, "N") {
					def, fresh = nulDef(), nulDef()
				} else {
					def, fresh = plainDef(), plainDef()
				}
				lexString(def, useInput[first])
				got := lexString(def, useInput[second])
				want := lexString(fresh, useInput[second])
				status := "ok"
				if got != want {
					status = "MISMATCH"
				}
				observe2("definition.Lex "+second, "Lex "+first, want, got)
				fmt.Printf("%s\tafter %s, call %s returns %q; on a fresh definition %q\n", status, first, second, got, want)
			}
		}
	}
	// calls that FAIL half-way (a reader that breaks after delivering some bytes; a parse that panics because of a bad Elide
	// option; a mapper error) must leave nothing behind: the next call on the same object equals the call on a fresh one
	lexVia := func(def lexer.Definition, r io.Reader) string {
		names := symbolNames(def)
		l, err := def.Lex("c.txt", r)
		if err != nil {
			return "lexiniterr " + err.Error()
		}
		ts, err := lexer.ConsumeAll(l)
		if err != nil {
			return "err " + err.Error()
		}
		return tokensKey(ts, names)
	}
	{
		def := plainDef()
		want := lexVia(plainDef(), strings.NewReader(useInput["A"]))
		status, got := "ok", ""
		for round := 0; round < 60 && status == "ok"; round++ {
			lexVia(def, &flakyReader{data: "<b>partial"})
			if g1 := lexVia(def, strings.NewReader(useInput["A"])); g1 != want {
				status, got = "MISMATCH", g1
			} else if g2 := lexVia(plainDef(), strings.NewReader(useInput["A"])); g2 != want { // the leftover may be global
				status, got = "MISMATCH", g2
			} else {
				got = g1
			}
		}
		observe2("definition.Lex(reader) A", "Lex on a reader that fails half-way", want, got)
		fmt.Printf("%s\tafter Lex on a reader that fails half-way, Lex(reader) returns %q; on a fresh definition %q\n", status, got, want)
		p := participle.MustBuild[mappedGrammar]()
		wantP := fmt.Sprint(p.Parse("", strings.NewReader("a b 1")))
		status = "ok"
		for round := 0; round < 60 && status == "ok"; round++ {
			_, _ = p.Parse("", &flakyReader{data: "zz 9 "})
			if got = fmt.Sprint(p.Parse("", strings.NewReader("a b 1"))); got != wantP {
				status = "MISMATCH"
			}
		}
		observe2("parser.Parse(reader) a b 1", "Parse on a reader that fails half-way", wantP, got)
		fmt.Printf("%s\tafter Parse on a reader that fails half-way, Parse returns %q; before %q\n", status, got, wantP)
	}
	{
		call := func(p *participle.Parser[mappedGrammar]) (res string) {
			defer func() {
				if r := recover(); r != nil {
					res = fmt.Sprintf("panic %v", r)
				}
			}()
			v, err := p.ParseString("", "a b")
			return fmt.Sprint(v, err)
		}
		mk := func() *participle.Parser[mappedGrammar] {
			p, err := participle.Build[mappedGrammar](participle.Elide("NoSuchToken"))
			if err != nil {
				return nil
			}
			return p
		}
		if p := mk(); p != nil {
			first := call(p)
			second := call(p)
			fresh := call(mk())
			status := "ok"
			if second != fresh || first != fresh {
				status = "MISMATCH"
			}
			observe2("parser(Elide unknown).ParseString", "the same call, which panicked", fresh, second)
			observe2("parser(Elide unknown).ParseString", "", fresh, first)
			fmt.Printf("%s\ta parser with an Elide option naming an unknown token: first call %q, second call %q, first call on a fresh parser %q\n", status, first, second, fresh)
		}
	}
	// Parser.String() is a function of the built parser: the same before and after failing parses whose messages render
	// grammar nodes ("sub-expression ... cannot be empty", "expected ...")
	{
		mk := func() *participle.Parser[strGrammar] { return participle.MustBuild[strGrammar]() }
		fresh := mk().String()
		p := mk()
		for _, in := range []string{"", "!", "( x", "a a", "1 !", "( ) !"} {
			_, _ = p.ParseString("", in)
		}
		status, got := "ok", p.String()
		if got != fresh {
			status = "MISMATCH"
		}
		observe2("parser.String()", "six failing parses", fresh, got)
		fmt.Printf("%s\tParser.String() after failing parses is %q; on a fresh parser %q\n", status, got, fresh)
	}
	// a captured literal on a case-insensitive token type: each parse captures ITS token's text, whatever earlier parses saw
	{
		lx := lexer.MustSimple([]lexer.SimpleRule{{Name: "WS", Pattern: `\s+`}, {Name: "String", Pattern: `"[^"]*"`}, {Name: "Int", Pattern: `\d+`}, {Name: "Keyword", Pattern: `(?i)select\b`}, {Name: "Ident", Pattern: `[a-zA-Z]+`}})
		mk := func() *participle.Parser[kwGrammar] {
			return participle.MustBuild[kwGrammar](participle.Lexer(lx), participle.CaseInsensitive("Keyword"), participle.Elide("WS"))
		}
		call := func(p *participle.Parser[kwGrammar], in string) string {
			v, err := p.ParseString("", in)
			if err != nil {
				return "err " + err.Error()
			}
			return fmt.Sprintf("%+v", *v)
		}
		p := mk()
		call(p, "SELECT a")
		got, fresh := call(p, "select b"), call(mk(), "select b")
		status := "ok"
		if got != fresh {
			status = "MISMATCH"
		}
		observe2("parser(CaseInsensitive).ParseString select b", "ParseString SELECT a", fresh, got)
		fmt.Printf("%s\tafter parsing `SELECT a`, `select b` gives %q; on a fresh parser %q\n", status, got, fresh)
	}
	// an option VALUE used in several Build calls (next to other options of the same kind) configures each parser as if it had
	// been made for that Build alone
	{
		type ciGrammar struct {
			K string   `@"select":Keyword`
			F string   `@"from":Ident`
			N []string `@Ident*`
		}
		lx := lexer.MustSimple([]lexer.SimpleRule{{Name: "WS", Pattern: `\s+`}, {Name: "Keyword", Pattern: `(?i)select\b`}, {Name: "Ident", Pattern: `[a-zA-Z]+`}})
		shared := participle.CaseInsensitive("Keyword")
		elide := participle.Elide("WS")
		call := func(p *participle.Parser[ciGrammar], in string) string {
			v, err := p.ParseString("", in)
			if err != nil {
				return "err " + err.Error()
			}
			return fmt.Sprintf("%+v", *v)
		}
		_, _ = participle.Build[ciGrammar](participle.Lexer(lx), shared, participle.CaseInsensitive("Ident"), elide)
		later, err1 := participle.Build[ciGrammar](participle.Lexer(lx), shared, elide)
		fresh, err2 := participle.Build[ciGrammar](participle.Lexer(lx), participle.CaseInsensitive("Keyword"), participle.Elide("WS"))
		if err1 == nil && err2 == nil {
			for _, in := range []string{"SELECT FROM x", "select from x", "Select From"} {
				got, want := call(later, in), call(fresh, in)
				status := "ok"
				if got != want {
					status = "MISMATCH"
				}
				observe2("parser built from a shared CaseInsensitive option value .ParseString "+in, "an earlier Build used the same option value next to CaseInsensitive(Ident)", want, got)
				fmt.Printf("%s\ta parser built from an option value an earlier Build had used gives %q on %q; a parser built from fresh options %q\n", status, got, in, want)
			}
		}
	}
	// what one caller does with the result of Rules() is invisible to the next caller and to the definition
	{
		mk := func() *lexer.StatefulDefinition {
			return lexer.MustStateful(lexer.Rules{"Root": {{Name: "A", Pattern: `a`}, {Name: "B", Pattern: `b`}, {Name: "WS", Pattern: `\s+`}}})
		}
		show := func(r lexer.Rules) string {
			var sb strings.Builder
			for _, x := range r["Root"] {
				fmt.Fprintf(&sb, "%s=%s ", x.Name, x.Pattern)
			}
			return sb.String()
		}
		def := mk()
		fresh := show(mk().Rules())
		r1 := def.Rules()
		r1["Root"] = append(r1["Root"], lexer.Rule{Name: "X", Pattern: `x`})
		r2 := def.Rules()
		r2["Root"] = append(r2["Root"], lexer.Rule{Name: "Y", Pattern: `y`})
		r2["Root"][0].Pattern = "edited"
		got1 := show(r1)
		got := show(def.Rules())
		status := "ok"
		if got != fresh || got1 != fresh+"X=x " {
			status = "MISMATCH"
		}
		observe2("definition.Rules()", "two callers appended to / edited earlier results", fresh, got)
		observe2("the first caller's copy of Rules()", "a second caller appended to its own copy", fresh+"X=x ", got1)
		fmt.Printf("%s\tRules() after callers changed earlier results: %q (first caller's copy %q); on a fresh definition %q\n", status, got, got1, fresh)
	}
	// a text/scanner definition with its own identifier predicate leaves the default definition as it was
	{
		custom := lexer.NewTextScannerLexer(func(s *scanner.Scanner) {
			s.IsIdentRune = func(ch rune, i int) bool { return ch == '-' || ch == '*' || unicode.IsLetter(ch) }
		})
		lexVia := func(def lexer.Definition, in string) string {
			l, err := def.Lex("c.txt", strings.NewReader(in))
			if err != nil {
				return "lexiniterr " + err.Error()
			}
			ts, err := lexer.ConsumeAll(l)
			if err != nil {
				return "err " + err.Error()
			}
			var vals []string
			for _, t := range ts {
				vals = append(vals, t.Value)
			}
			return strings.Join(vals, "|")
		}
		want := lexVia(lexer.TextScannerLexer, "b* c-d")
		status, got := "ok", want
		for round := 0; round < 30 && status == "ok"; round++ {
			lexVia(custom, "x-y z*")
			if g := lexVia(lexer.TextScannerLexer, "b* c-d"); g != want {
				status, got = "MISMATCH", g
			}
		}
		observe2("TextScannerLexer.Lex b* c-d", "a NewTextScannerLexer definition with its own IsIdentRune lexed to the end", want, got)
		fmt.Printf("%s\tthe default text/scanner definition gives %q after a definition with its own IsIdentRune was used; before %q\n", status, got, want)
	}
	// a production implemented by user code gets a receiver of its own for every attempt, across parses as well: what an attempt
	// that declined wrote into its receiver never shows up in a later result
	{
		p, err := participle.Build[hItemList](participle.Lexer(coreLexer), participle.Elide("WS", "Comment"))
		if err == nil {
			call := func(p *participle.Parser[hItemList], in string) string {
				v, err := p.ParseString("", in)
				if err != nil {
					return "err " + err.Error()
				}
				var sb strings.Builder
				for _, it := range v.Items {
					fmt.Fprintf(&sb, "%v ", it.Seen)
				}
				return sb.String()
			}
			// (a result of ParseBytes does not change when the caller goes on using its buffer)
			{
				buf := []byte("alpha beta gamma")
				v, err := p.ParseBytes("", buf)
				if err == nil {
					show := func() string {
						var sb strings.Builder
						for _, it := range v.Items {
							fmt.Fprintf(&sb, "%v ", it.Seen)
						}
						return sb.String()
					}
					before := show()
					for i := range buf {
						buf[i] = 'z'
					}
					after := show()
					status := "ok"
					if before != after {
						status = "MISMATCH"
					}
					observe2("read the result of ParseBytes again", "the caller overwrote its buffer", before, after)
					fmt.Printf("%s\tthe result of ParseBytes reads %q after the caller overwrote its buffer; it read %q\n", status, after, before)
				}
			}
			for i := 0; i < 5; i++ {
				call(p, "a no b no")
			}
			fresh, _ := participle.Build[hItemList](participle.Lexer(coreLexer), participle.Elide("WS", "Comment"))
			got, want := call(p, "x y"), call(fresh, "x y")
			status := "ok"
			if got != want {
				status = "MISMATCH"
			}
			observe2("parser(user production).ParseString x y", "parses in which attempts of the user production declined after writing into their receiver", want, got)
			fmt.Printf("%s\tafter parses with declined attempts `x y` gives %q; on a fresh parser %q\n", status, got, want)
		}
	}
	// an error returned earlier keeps its text and position when the parser fails again elsewhere
	{
		p := participle.MustBuild[strGrammar]()
		_, err1 := p.ParseString("f1", "x")
		if err1 != nil {
			before := err1.Error()
			for _, in := range []string{"x x", "( \"s\" x", "", "x ( ( (", "a 1 1"} {
				_, _ = p.ParseString("f2", in)
			}
			after := err1.Error()
			status := "ok"
			if after != before {
				status = "MISMATCH"
			}
			observe2("read the text of an error returned earlier", "five further failing parses", before, after)
			fmt.Printf("%s\tan error returned earlier reads %q after further failing parses; it read %q\n", status, after, before)
		}
	}
	// results handed out earlier must not change when the parser is used again (no aliasing of reused storage)
	for _, e := range examples() {
		if e.name != "expr" {
			continue
		}
		first, err := e.parseRaw("(1 + x) * 2")
		if err != nil {
			fmt.Printf("MISMATCH\tretained result: first parse failed: %v\n", err)
			break
		}
		before := fmt.Sprintf("%#v", exprTokens(first))
		for i := 0; i < 50; i++ {
			_, _ = e.parseRaw("9 9 9 9 9 9 9 9 9 9 9 9 9")
			_, _ = e.parseRaw("(7)")
		}
		after := fmt.Sprintf("%#v", exprTokens(first))
		status := "ok"
		if before != after {
			status = "MISMATCH"
		}
		observe2("read the token lists of a returned AST", "100 further parses on the same parser", before, after)
		fmt.Printf("%s\ttoken lists of an AST returned earlier, after 100 further parses on the same parser: %.80s vs %.80s\n", status, after, before)
	}
	return nil
}

// flakyReader delivers its data and then fails with a non-EOF error.
type flakyReader struct {
	data string
	done bool
}

func (f *flakyReader) Read(p []byte) (int, error) {
	if f.done {
		return 0, errors.New("connection reset")
	}
	f.done = true
	return copy(p, f.data), nil
}

// exprTokens collects the Tokens fields reachable from an expression AST.
func exprTokens(v any) []string {
	out := []string{}
	var walkF func(f *exFactor)
	var walkE func(e *exExpr)
	walkF = func(f *exFactor) {
		if f == nil {
			return
		}
		for _, t := range f.Tokens {
			out = append(out, fmt.Sprintf("%d:%s", t.Pos.Offset, t.Value))
		}
		walkE(f.Sub)
		walkF(f.Neg)
	}
	walkE = func(e *exExpr) {
		if e == nil {
			return
		}
		terms := []*exTerm{e.Left}
		for _, r := range e.Right {
			terms = append(terms, r.Term)
		}
		for _, t := range terms {
			if t == nil {
				continue
			}
			walkF(t.Left)
			for _, r := range t.Right {
				walkF(r.Factor)
			}
		}
	}
	if e, ok := v.(*exExpr); ok {
		walkE(e)
	}
	return out
}

// conc-stress <seed> <goroutines> <calls per goroutine>: mixed calls on shared parsers / definitions / the ebnf package
// parser; every result is compared with its sequential reference.  Meant to be built with -race.
func concStress(args []string) error {
	seed, _ := strconv.Atoi(args[0])
	ng, _ := strconv.Atoi(args[1])
	nc, _ := strconv.Atoi(args[2])
	exs := examples()
	shared := plainDef()
	nul := nulDef()
	gen, _ := generatedMaker(&rawCase{ID: "core"})
	type job struct {
		name string
		run  func() string
	}
	var jobs []job
	for _, e := range exs {
		e := e
		for _, in := range e.valid {
			in := in
			jobs = append(jobs, job{e.name + ":" + in, func() string { return checkOutcome(e, in) }})
			bad := in + " ]"
			jobs = append(jobs, job{e.name + ":bad", func() string { return checkOutcome(e, bad) }})
		}
	}
	for u, in := range useInput {
		u, in := u, in
		if strings.HasPrefix(u, "N") {
			jobs = append(jobs, job{"backref:" + u, func() string { return lexString(nul, in) }})
		} else {
			jobs = append(jobs, job{"backref:" + u, func() string { return lexString(shared, in) }})
		}
	}
	if gen != nil {
		for _, in := range []string{"ab 12 #c# (", "x\ny", "#"} {
			in := in
			jobs = append(jobs, job{"generated:" + in, func() string { return lexString(gen, in) }})
		}
	}
	// a parser with several catch-all mappers and per-type mappers on two token types
	idm := func(t lexer.Token) (lexer.Token, error) { return t, nil }
	mapped, merr := participle.Build[mappedGrammar](participle.Map(idm), participle.Map(idm), participle.Map(idm),
		participle.Upper("Ident"), participle.Unquote("String"), participle.Map(func(t lexer.Token) (lexer.Token, error) { t.Value = "<" + t.Value + ">"; return t, nil }, "Int"))
	if merr != nil {
		return merr
	}
	for _, in := range []string{`abc "x y" 12 def`, `"q" "r" zz 7 8 9`, `a b c d e f g`, `1 2 3 "s"`} {
		in := in
		jobs = append(jobs, job{"mapped:" + in, func() string {
			v, err := mapped.ParseString("", in)
			if err != nil {
				return "err " + err.Error()
			}
			return strings.Join(v.Words, "|")
		}})
	}
	// a production implemented by user code (ParseTypeWith) inside a shared parser
	custom, cerr := participle.Build[customGrammar](participle.Lexer(coreLexer), participle.Elide("WS", "Comment"), participle.ParseTypeWith(parseCIface))
	if cerr != nil {
		return cerr
	}
	for _, in := range []string{"a b c d e f g h", "1 2 3", "x ( y ) z", "p q r s t u v w x y z a b c"} {
		in := in
		jobs = append(jobs, job{"custom:" + in, func() string {
			v, err := custom.ParseString("", in)
			if err != nil {
				return "err " + err.Error()
			}
			var ws []string
			for _, it := range v.Items {
				ws = append(ws, it.(PWord).W)
			}
			return strings.Join(ws, "|")
		}})
	}
	// deeply nested inputs parsed at the same time (a per-parse limit must not be shared between parses)
	for _, e := range exs {
		if e.name == "expr" {
			e := e
			deep := e.nested(3000)
			jobs = append(jobs, job{"deep:3000", func() string {
				_, err := e.parse("fn", deep)
				if err != nil {
					return fmt.Sprintf("err %.60s", err.Error())
				}
				return "ok"
			}})
		}
	}
	ebnfText := "A = \"a\" B* | ~<ident> (?= \"x\") .\nB = (\"b\" | A)+ ."
	jobs = append(jobs, job{"ebnf", func() string {
		t, err := ebnf.ParseString(ebnfText)
		if err != nil {
			return "err " + err.Error()
		}
		return t.String()
	}})
	jobs = append(jobs, job{"String()", func() string {
		var sb bytes.Buffer
		for _, c := range []string{"json", "expr"} {
			for _, e := range exs {
				if e.name == c && e.str != nil {
					sb.WriteString(e.str())
				}
			}
		}
		return sb.String()
	}})
	// sequential references on fresh state are the first (sequential) runs
	ref := make([]string, len(jobs))
	for i, j := range jobs {
		ref[i] = j.run()
	}
	// parsers nobody has used yet: their FIRST calls happen inside the concurrent phase (references from separate instances).
	// Production parsers (ParserForProduction) share the built parser with the root parser.
	prodJobs := func() []job {
		root := participle.MustBuild[exExpr]()
		var js []job
		js = append(js, job{"fresh-root:parse", func() string {
			v, err := root.ParseString("", "1 + 2 * (3 - x)")
			if err != nil {
				return "err " + err.Error()
			}
			return strings.Join(exprTokens(v), ",")
		}})
		js = append(js, job{"fresh-root:String", func() string { return root.String() }})
		js = append(js, job{"production:term", func() string {
			pp, err := participle.ParserForProduction[exTerm](root)
			if err != nil {
				return "err " + err.Error()
			}
			v, err := pp.ParseString("", "2 * (3 - x) / 4")
			if err != nil {
				return "err " + err.Error()
			}
			return fmt.Sprintf("%d factors", 1+len(v.Right))
		}})
		js = append(js, job{"production:factor", func() string {
			pp, err := participle.ParserForProduction[exFactor](root)
			if err != nil {
				return "err " + err.Error()
			}
			v, err := pp.ParseString("", "(1 + x)")
			if err != nil {
				return "err " + err.Error()
			}
			return fmt.Sprintf("sub=%v", v.Sub != nil)
		}})
		js = append(js, job{"production:missing", func() string {
			_, err := participle.ParserForProduction[mappedGrammar](root)
			return fmt.Sprint(err)
		}})
		return js
	}
	refProd := prodJobs()
	for _, j := range refProd {
		ref = append(ref, j.run())
	}
	jobs = append(jobs, prodJobs()...)
	nprod := len(refProd)
	var wg sync.WaitGroup
	var mu sync.Mutex
	bad := 0
	total := 0
	for g := 0; g < ng; g++ {
		wg.Add(1)
		rng := rand.New(rand.NewSource(int64(seed*1000 + g)))
		go func() {
			defer wg.Done()
			for c := 0; c < nc; c++ {
				i := rng.Intn(len(jobs))
				if c < 2 {
					i = len(jobs) - 1 - rng.Intn(nprod) // the fresh parser's first calls race with one another
				}
				got := jobs[i].run()
				mu.Lock()
				total++
				if got != ref[i] {
					bad++
					if bad <= 5 {
						fmt.Printf("MISMATCH\t%s\tconcurrent result %q differs from the sequential reference %q\n", jobs[i].name, got, ref[i])
					}
				}
				mu.Unlock()
			}
		}()
	}
	wg.Wait()
	// all goroutines parse a deeply nested input AT THE SAME TIME
	for i, j := range jobs {
		if j.name != "deep:3000" {
			continue
		}
		var wg2 sync.WaitGroup
		start := make(chan struct{})
		for g := 0; g < 8; g++ {
			wg2.Add(1)
			go func() {
				defer wg2.Done()
				<-start
				got := j.run()
				mu.Lock()
				total++
				if got != ref[i] {
					bad++
					fmt.Printf("MISMATCH\t%s (8 at once)\tconcurrent result %q differs from the sequential reference %q\n", j.name, got, ref[i])
				}
				mu.Unlock()
			}()
		}
		close(start)
		wg2.Wait()
	}
	fmt.Printf("DONE\t%d\t%d\n", total, bad)
	return nil
}

// hItem is a production implemented by user code that writes into its receiver BEFORE it decides to decline (on the token "no").
type hItem struct{ Seen []string }

func (h *hItem) Parse(lex *lexer.PeekingLexer) error {
	t := lex.Peek()
	if t.EOF() {
		return participle.NextMatch
	}
	h.Seen = append(h.Seen, t.Value)
	if t.Value == "no" {
		return participle.NextMatch
	}
	lex.Next()
	return nil
}

type hItemList struct {
	Items []*hItem `( @@ | "no" )*`
}
