// Command vh is the Go side of the /verif machinery: it replays specification behaviours into the real
// participle code (binding B1) and records traces of the real code for the trace specifications (B2).
package main

import (
	"fmt"
	"os"
)

var commands = map[string]func(args []string) error{}

func main() {
	if len(os.Args) < 2 {
		fmt.Fprintln(os.Stderr, "usage: vh <command> [args]")
		os.Exit(2)
	}
	f, ok := commands[os.Args[1]]
	if !ok {
		fmt.Fprintln(os.Stderr, "unknown command", os.Args[1])
		os.Exit(2)
	}
	if err := f(os.Args[2:]); err != nil {
		fmt.Fprintln(os.Stderr, "vh:", err)
		os.Exit(2)
	}
}
