package main

import "github.com/alecthomas/participle/v2"

// Hand-written grammars whose productions refer to one another DIRECTLY (pointer / slice fields of named struct types -
// dynamic struct types cannot do that) and local types of the same name.  The case file describes the same grammars in the
// node algebra, so Grammar.tla gives the verdict.

// S = "(" Q ")" | P S "b" | Ident ;  Q = ("a" P)* ;  P = Q "b"?      (P is nullable only through the cycle P -> Q -> P)
type lrS1 struct {
	Q *lrQ1  `(  "(" @@ ")"`
	P *lrP1  ` | @@`
	S *lrS1  `   @@ "b"`
	T string ` | @Ident )`
}
type lrQ1 struct {
	Ps []*lrP1 `( "a" @@ )*`
}
type lrP1 struct {
	Q *lrQ1 `@@ "b"?`
}

// the same with the alternatives of S in another order (P is met first)
type lrS2 struct {
	P *lrP2  `(  @@`
	S *lrS2  `   @@ "b"`
	Q *lrQ2  ` | "(" @@ ")"`
	T string ` | @Ident )`
}
type lrQ2 struct {
	Ps []*lrP2 `( "a" @@ )*`
}
type lrP2 struct {
	Q *lrQ2 `@@ "b"?`
}

// the look-alike that is NOT left recursive: a token before the second S
type lrS3 struct {
	Q *lrQ3  `(  "(" @@ ")"`
	P *lrP3  ` | @@ "a"`
	S *lrS3  `   @@ "b"`
	T string ` | @Ident )`
}
type lrQ3 struct {
	Ps []*lrP3 `( "a" @@ )*`
}
type lrP3 struct {
	Q *lrQ3 `@@ "b"?`
}

// direct self reference at the head, through a slice
type lrList struct {
	Kids []*lrList `@@*`
	Name string    `@Ident`
}

// right recursion only
type lrRight struct {
	Name string   `@Ident`
	Next *lrRight `( "(" @@ )?`
}

// two DIFFERENT struct types with the same name (declared in different scopes): the second one is left recursive
func lrSameName() (error, error) {
	type Item struct {
		Name string `@Ident`
	}
	type List struct {
		Items []*Item `"(" @@* ")"`
	}
	{
		type Item struct { // not the Item above
			Left  *Item  `(  @@ "b"`
			Right string `   @Ident`
			Atom  string ` | @Ident )`
		}
		type Root struct {
			List *List `(  @@`
			Sum  *Item ` | @@ )`
		}
		type RootOK struct {
			List *List `@@`
		}
		_, e1 := participle.Build[Root]()
		_, e2 := participle.Build[RootOK]()
		return e1, e2
	}
}

var staticLR = map[string]func() error{
	"st-cyclic-nullable-1": func() error { _, err := participle.Build[lrS1](); return err },
	"st-cyclic-nullable-2": func() error { _, err := participle.Build[lrS2](); return err },
	"st-cyclic-lookalike":  func() error { _, err := participle.Build[lrS3](); return err },
	"st-self-slice":        func() error { _, err := participle.Build[lrList](); return err },
	"st-right":             func() error { _, err := participle.Build[lrRight](); return err },
	"st-same-name":         func() error { e, _ := lrSameName(); return e },
	"st-same-name-ok":      func() error { _, e := lrSameName(); return e },
}
