package main

import (
	"bufio"
	"bytes"
	"encoding/json"
	"errors"
	"fmt"
	"math"
	"os"
	"reflect"
	"runtime/debug"
	"sort"
	"strconv"
	"strings"
	"time"

	"verifharness/corelex"

	"github.com/alecthomas/participle/v2"
	"github.com/alecthomas/participle/v2/lexer"
)

func init() {
	commands["parse-run"] = parseRun
}

type U0 interface{}
type U1 interface{}
type U2 interface{}
type U3 interface{}
type URoot interface{}
type DynRoot struct {
	X URoot `@@`
}

// CapList is a field type implemented by user code (participle.Capture): it appends the values it is given.
type CapList struct{ V []string }

func (c *CapList) Capture(values []string) error {
	for _, v := range values {
		if v == "300" {
			return fmt.Errorf("CapList does not take %q", v)
		}
	}
	c.V = append(c.V, values...)
	return nil
}

// CapElem is the element type of slices filled through Capture, one element per captured value.
type CapElem struct{ V string }

func (c *CapElem) Capture(values []string) error {
	if values[0] == "300" {
		return fmt.Errorf("CapElem does not take %q", values[0])
	}
	c.V = strings.Join(values, "")
	return nil
}

// TextList is a field type implemented by user code (encoding.TextUnmarshaler): it appends every text it is given.
type TextList struct{ V []string }

func (c *TextList) UnmarshalText(b []byte) error {
	if string(b) == "300" {
		return fmt.Errorf("TextList does not take %q", b)
	}
	c.V = append(c.V, string(b))
	return nil
}

// CIface is an interface type whose production is user code registered with participle.ParseTypeWith: it takes exactly one
// token with Next() and yields a PWord value.
type CIface interface{}

func parseCIface(lex *lexer.PeekingLexer) (CIface, error) {
	t := lex.Peek()
	if t.EOF() {
		return nil, participle.NextMatch
	}
	lex.Next()
	return PWord{W: t.Value}, nil
}

// PIdent is a grammar node implemented by user code that LOOKS by consuming: it takes the next token with Next() and
// reports "no match" (NextMatch) afterwards unless it is an Ident.  The case files use it only at the head of an alternative or
// of an optional / repeated group, where the attempt runs on a branch of the lexer that is dropped on "no match".
type PIdent struct {
	W string
	// written only on the way to "no match": every attempt gets a receiver of its own, so a value that is part of a result
	// never carries it
	Note string
}

func (p *PIdent) Parse(lex *lexer.PeekingLexer) error {
	t := lex.Next()
	if t.EOF() || identType == 0 || t.Type != identType {
		p.Note = "gave up on " + t.Value
		return participle.NextMatch
	}
	p.W = t.Value
	return nil
}

var identType = coreLexer.Symbols()["Ident"]

// PPair is a grammar node implemented by user code that takes one token, demands "!" as the next one (taking it as well) and
// otherwise FAILS after having consumed the first token - with an error that wraps participle.NextMatch (errors.Is finds the
// sentinel, == does not).  Only the sentinel itself means "no match".
type PPair struct {
	W string
}

type pairError struct {
	pos lexer.Position
	msg string
}

func (e *pairError) Error() string            { return participle.FormatError(e) }
func (e *pairError) Message() string          { return e.msg }
func (e *pairError) Position() lexer.Position { return e.pos }
func (e *pairError) Unwrap() error            { return participle.NextMatch }

func (p *PPair) Parse(lex *lexer.PeekingLexer) error {
	t := lex.Peek()
	if t.EOF() {
		return participle.NextMatch
	}
	lex.Next()
	n := lex.Peek()
	if n.EOF() || n.Value != "!" {
		return &pairError{pos: n.Pos, msg: "pair: \"!\" expected"}
	}
	lex.Next()
	p.W = t.Value
	return nil
}

// PWord is a grammar node implemented by user code (participle.Parseable): it takes exactly one token with Next().
type PWord struct {
	W string
}

func (p *PWord) Parse(lex *lexer.PeekingLexer) error {
	t := lex.Next()
	if t.EOF() {
		return participle.NextMatch
	}
	p.W = t.Value
	return nil
}

type gField struct {
	Name string `json:"name"`
	Kind string `json:"kind"`
	Arg  string `json:"arg"`
	Tag  string `json:"tag"`
}
type gProd struct {
	Name   string   `json:"name"`
	Fields []gField `json:"fields"`
}
type gGrammar struct {
	ID     string              `json:"id"`
	Prods  []gProd             `json:"prods"` // in dependency order: later prods may only be referenced by earlier ones (or via unions)
	Unions map[string][]string `json:"unions"`
	Inputs []struct {
		S    string `json:"s"`
		Toks []struct {
			T  string `json:"t"`
			V  string `json:"v"`
			El bool   `json:"el"`
		} `json:"toks"`
	} `json:"inputs"`
	MaxIter  int   `json:"maxiter"`
	Ks       []int `json:"ks"`
	CI       bool  `json:"ci"`
	Trailing bool  `json:"trailing"`
}

var coreLexer = corelex.Lexer

var ifaces = map[string]reflect.Type{
	"U0":    reflect.TypeOf((*U0)(nil)).Elem(),
	"U1":    reflect.TypeOf((*U1)(nil)).Elem(),
	"U2":    reflect.TypeOf((*U2)(nil)).Elem(),
	"U3":    reflect.TypeOf((*U3)(nil)).Elem(),
	"URoot": reflect.TypeOf((*URoot)(nil)).Elem(),
}

type built struct {
	names    map[reflect.Type]string
	p        *participle.Parser[DynRoot]
	trailing bool
}

func build(g *gGrammar, k int) (b *built, err error) { return buildWith(g, k) }

// rootIsUnion makes buildWith build Build[URoot] (an interface root type with its Union option) instead of Build[DynRoot].
var rootIsUnion bool

func buildWith(g *gGrammar, k int, extra ...participle.Option) (b *built, err error) {
	defer func() {
		if r := recover(); r != nil {
			err = fmt.Errorf("PANIC %v", r)
		}
	}()
	types := map[string]reflect.Type{}
	names := map[reflect.Type]string{}
	for i := len(g.Prods) - 1; i >= 1; i-- {
		p := g.Prods[i]
		var sf []reflect.StructField
		for _, f := range p.Fields {
			var t reflect.Type
			kind, arg := f.Kind, f.Arg
			switch kind {
			case "string":
				t = reflect.TypeOf("")
			case "strings":
				t = reflect.TypeOf([]string{})
			case "capt":
				t = reflect.TypeOf(CapList{})
			case "bool":
				t = reflect.TypeOf(true)
			case "int8", "int16", "int32", "int64", "int", "uint8", "uint16", "uint32", "uint64", "uint", "float32", "float64":
				t = numTypes[kind]
			case "int8s", "uint8s", "int16s", "int64s":
				t = reflect.SliceOf(numTypes[strings.TrimSuffix(kind, "s")])
			case "unode2":
				t = reflect.TypeOf(&PIdent{})
			case "unode3":
				t = reflect.TypeOf(&PPair{})
			case "node":
				t = reflect.PtrTo(types[arg])
			case "nodes":
				t = reflect.SliceOf(reflect.PtrTo(types[arg]))
			case "union":
				t = ifaces[arg]
			case "unions":
				t = reflect.SliceOf(ifaces[arg])
			case "cnode":
				t = reflect.TypeOf((*CIface)(nil)).Elem()
			case "cnodes":
				t = reflect.SliceOf(reflect.TypeOf((*CIface)(nil)).Elem())
			case "capts":
				t = reflect.TypeOf([]CapElem{})
			case "pcapts":
				t = reflect.TypeOf([]*CapElem{})
			case "textu":
				t = reflect.TypeOf(TextList{})
			case "pstring":
				t = reflect.PtrTo(reflect.TypeOf(""))
			case "unode":
				t = reflect.TypeOf(&PWord{})
			case "unodes":
				t = reflect.TypeOf([]*PWord{})
			case "token":
				t = reflect.TypeOf(lexer.Token{})
			case "tokens":
				t = reflect.TypeOf([]lexer.Token{})
			case "pos":
				t = reflect.TypeOf(lexer.Position{})
			default:
				return nil, fmt.Errorf("bad kind %s", f.Kind)
			}
			sf = append(sf, reflect.StructField{Name: f.Name, Type: t, Tag: reflect.StructTag(f.Tag)})
		}
		st := reflect.StructOf(sf)
		types[p.Name] = st
		names[st] = p.Name
	}
	if k == 99999 {
		k = participle.MaxLookahead // the case files' 99999 stands for the library's named constant, whatever its value
	}
	opts := []participle.Option{participle.Lexer(coreLexer), participle.Elide("WS", "Comment"), participle.UseLookahead(k)}
	unames := []string{}
	for u := range g.Unions {
		unames = append(unames, u)
	}
	sort.Strings(unames)
	for _, u := range unames {
		var members []any
		for _, m := range g.Unions[u] {
			if u == "U1" || u == "U3" {
				// members registered BY VALUE (Union[T](Member{}) instead of Union[T](&Member{}))
				members = append(members, reflect.New(types[m]).Elem().Interface())
			} else {
				members = append(members, reflect.New(types[m]).Interface())
			}
		}
		switch u {
		case "U0":
			ms := make([]U0, len(members))
			for i := range members {
				ms[i] = members[i]
			}
			opts = append(opts, participle.Union[U0](ms...))
		case "URoot":
			ms := make([]URoot, len(members))
			for i := range members {
				ms[i] = members[i]
			}
			opts = append(opts, participle.Union[URoot](ms...))
		case "U1":
			ms := make([]U1, len(members))
			for i := range members {
				ms[i] = members[i]
			}
			opts = append(opts, participle.Union[U1](ms...))
		case "U2":
			ms := make([]U2, len(members))
			for i := range members {
				ms[i] = members[i]
			}
			opts = append(opts, participle.Union[U2](ms...))
		case "U3":
			ms := make([]U3, len(members))
			for i := range members {
				ms[i] = members[i]
			}
			opts = append(opts, participle.Union[U3](ms...))
		}
	}
	if g.CI {
		// options are order independent: for every other grammar CaseInsensitive comes before Lexer
		if len(g.Prods)%2 == 0 {
			opts = append([]participle.Option{participle.CaseInsensitive("Ident")}, opts...)
		} else {
			opts = append(opts, participle.CaseInsensitive("Ident"))
		}
	}
	for _, p := range g.Prods {
		for _, f := range p.Fields {
			if f.Kind == "cnode" || f.Kind == "cnodes" {
				opts = append(opts, participle.ParseTypeWith(parseCIface))
				goto customDone
			}
		}
	}
customDone:
	opts = append(opts, extra...)
	if rootIsUnion {
		// the union itself as the root grammar type
		_, err := participle.Build[URoot](opts...)
		return nil, err
	}
	p, err := participle.Build[DynRoot](opts...)
	if err != nil {
		return nil, err
	}
	return &built{names, p, g.Trailing}, nil
}

func canon(names map[reflect.Type]string, v reflect.Value, toks map[lexer.Position]int, sb *strings.Builder) {
	switch v.Kind() {
	case reflect.String:
		fmt.Fprintf(sb, "%q", v.String())
	case reflect.Int8, reflect.Int16, reflect.Int32, reflect.Int64, reflect.Int:
		fmt.Fprintf(sb, "%d", v.Int())
	case reflect.Uint8, reflect.Uint16, reflect.Uint32, reflect.Uint64, reflect.Uint:
		fmt.Fprintf(sb, "%d", v.Uint())
	case reflect.Float32:
		sb.WriteString(strconv.FormatFloat(v.Float(), 'g', -1, 32))
	case reflect.Float64:
		sb.WriteString(strconv.FormatFloat(v.Float(), 'g', -1, 64))
	case reflect.Bool:
		if v.Bool() {
			sb.WriteString("T")
		} else {
			sb.WriteString("F")
		}
	case reflect.Ptr, reflect.Interface:
		if v.IsNil() {
			sb.WriteString("nil")
		} else {
			canon(names, v.Elem(), toks, sb)
		}
	case reflect.Slice:
		if v.IsNil() && v.Type().Elem() == reflect.TypeOf(lexer.Token{}) {
			sb.WriteString("nil") // a []lexer.Token field no capture wrote
			return
		}
		sb.WriteString("[")
		for i := 0; i < v.Len(); i++ {
			if i > 0 {
				sb.WriteString(",")
			}
			canon(names, v.Index(i), toks, sb)
		}
		sb.WriteString("]")
	case reflect.Struct:
		if v.Type() == reflect.TypeOf(lexer.Token{}) {
			t := v.Interface().(lexer.Token)
			if t == (lexer.Token{}) {
				sb.WriteString("tok0")
			} else {
				fmt.Fprintf(sb, "tok%d", toks[t.Pos])
			}
			return
		}
		if v.Type() == reflect.TypeOf(lexer.Position{}) {
			p := v.Interface().(lexer.Position)
			if p == (lexer.Position{}) {
				sb.WriteString("pos0")
			} else {
				fmt.Fprintf(sb, "pos%d", toks[p])
			}
			return
		}
		if v.Type() == reflect.TypeOf(CapElem{}) {
			fmt.Fprintf(sb, "%q", v.Field(0).String())
			return
		}
		if v.Type() == reflect.TypeOf(TextList{}) {
			canon(names, v.Field(0), toks, sb)
			return
		}
		if v.Type() == reflect.TypeOf(CapList{}) {
			canon(names, v.Field(0), toks, sb) // printed like the []string it accumulates
			return
		}
		if v.Type() == reflect.TypeOf(PIdent{}) {
			if note := v.Field(1).String(); note != "" {
				fmt.Fprintf(sb, "PIdent{W=%q;LEFTOVER=%q}", v.Field(0).String(), note)
				return
			}
			fmt.Fprintf(sb, "PIdent{W=%q}", v.Field(0).String())
			return
		}
		if v.Type() == reflect.TypeOf(PPair{}) {
			fmt.Fprintf(sb, "PPair{W=%q}", v.Field(0).String())
			return
		}
		if v.Type() == reflect.TypeOf(PWord{}) {
			fmt.Fprintf(sb, "PWord{W=%q}", v.Field(0).String())
			return
		}
		sb.WriteString(names[v.Type()])
		sb.WriteString("{")
		for i := 0; i < v.NumField(); i++ {
			if i > 0 {
				sb.WriteString(";")
			}
			sb.WriteString(v.Type().Field(i).Name)
			sb.WriteString("=")
			canon(names, v.Field(i), toks, sb)
		}
		sb.WriteString("}")
	default:
		fmt.Fprintf(sb, "?%s", v.Kind())
	}
}

func run(b *built, in string) (out string) {
	defer func() {
		if r := recover(); r != nil {
			out = "bug"
		}
	}()
	raw, err := b.p.Lex("fn", strings.NewReader(in))
	if err != nil {
		return "lexerr"
	}
	toks := map[lexer.Position]int{}
	for i, t := range raw {
		toks[t.Pos] = i + 1
	}
	ast, err := b.p.ParseString("fn", in, participle.AllowTrailing(b.trailing))
	if err != nil {
		return "err" + errcheck(err, ast == nil, in, raw)
	}
	sb := &strings.Builder{}
	b.names[reflect.TypeOf(DynRoot{})] = "DynRoot"
	canon(b.names, reflect.ValueOf(ast).Elem(), toks, sb)
	return "ok " + sb.String()
}

func errcheck(err error, astNil bool, in string, raw []lexer.Token) string {
	pe, ok := err.(participle.Error)
	if !ok {
		return " BADERR:notError"
	}
	pos := pe.Position()
	if astNil {
		return " BADERR:nilAST"
	}
	if pos.Filename != "fn" {
		return " BADERR:filename:" + pos.String()
	}
	if pos.Offset < 0 || pos.Offset > len(in) {
		return " BADERR:offset"
	}
	line := 1 + strings.Count(in[:pos.Offset], "\n")
	col := 1 + len([]rune(in[strings.LastIndex(in[:pos.Offset], "\n")+1:pos.Offset]))
	if pos.Line != line || pos.Column != col {
		return fmt.Sprintf(" BADERR:linecol %v want %d:%d", pos, line, col)
	}
	if !strings.HasPrefix(err.Error(), fmt.Sprintf("fn:%d:%d: ", pos.Line, pos.Column)) || !strings.HasSuffix(err.Error(), pe.Message()) {
		return " BADERR:text " + err.Error()
	}
	if ut, ok := err.(*participle.UnexpectedTokenError); ok {
		found := false
		for _, t := range raw {
			if t.Pos == ut.Unexpected.Pos && t.Value == ut.Unexpected.Value && t.Type == ut.Unexpected.Type {
				found = true
			}
		}
		if !found {
			return " BADERR:token"
		}
	}
	return ""
}

var numTypes = map[string]reflect.Type{
	"int8": reflect.TypeOf(int8(0)), "int16": reflect.TypeOf(int16(0)), "int32": reflect.TypeOf(int32(0)), "int64": reflect.TypeOf(int64(0)), "int": reflect.TypeOf(int(0)),
	"uint8": reflect.TypeOf(uint8(0)), "uint16": reflect.TypeOf(uint16(0)), "uint32": reflect.TypeOf(uint32(0)), "uint64": reflect.TypeOf(uint64(0)), "uint": reflect.TypeOf(uint(0)),
	"float32": reflect.TypeOf(float32(0)), "float64": reflect.TypeOf(float64(0)),
}

// runGuarded runs f under a watchdog; a hang is reported as "hang".
func runGuarded(f func() string) string { return runGuardedFor(20*time.Second, f) }

func runGuardedFor(d time.Duration, f func() string) string {
	ch := make(chan string, 1)
	go func() { ch <- f() }()
	select {
	case s := <-ch:
		return s
	case <-time.After(d):
		return "hang"
	}
}

// lexCheck compares Parser.Lex with the token stream the case file gives the specification.
func lexCheck(b *built, g *gGrammar, i int) string {
	in := g.Inputs[i]
	raw, err := b.p.Lex("fn", strings.NewReader(in.S))
	if err != nil {
		return "lexer error: " + err.Error()
	}
	names := lexer.SymbolsByRune(b.p.Lexer())
	if len(raw) != len(in.Toks) {
		return fmt.Sprintf("%d tokens, case file has %d", len(raw), len(in.Toks))
	}
	for k, t := range raw {
		if names[t.Type] != in.Toks[k].T || t.Value != in.Toks[k].V {
			return fmt.Sprintf("token %d is %s %q, case file has %s %q", k, names[t.Type], t.Value, in.Toks[k].T, in.Toks[k].V)
		}
	}
	return ""
}

// parse-run <cases.json>: for every grammar, lookahead and input prints "id\tk\tindex\toutcome".
func parseRun(args []string) error {
	if ms := os.Getenv("VH_MAXSTACK"); ms != "" {
		n, _ := strconv.Atoi(ms)
		debug.SetMaxStack(n)
	}
	f, err := os.Open(args[0])
	if err != nil {
		return err
	}
	defer f.Close()
	var gs []gGrammar
	if err := json.NewDecoder(bufio.NewReaderSize(f, 1<<20)).Decode(&gs); err != nil {
		return err
	}
	w := bufio.NewWriterSize(os.Stdout, 1<<20)
	defer w.Flush()
	budget := 40 * time.Second
	for gi := range gs {
		g := &gs[gi]
		started := time.Now()
		if g.MaxIter > 0 {
			participle.MaxIterations = g.MaxIter // package-level limit on group repetitions (default 1000000)
		}
		for ki, k := range g.Ks {
			b, err := build(g, k)
			if err != nil {
				fmt.Fprintf(w, "%s\t%d\t-\tbuilderr %v\n", g.ID, k, strings.ReplaceAll(err.Error(), "\n", " "))
				continue
			}
			for i, in := range g.Inputs {
				if time.Since(started) > budget {
					// a pathologically slow grammar (e.g. a loop spinning to MaxIterations): the rest is not judged
					fmt.Fprintf(w, "%s\t%d\t%d\tskipped\n", g.ID, k, i)
					continue
				}
				if ki == 0 {
					if msg := lexCheck(b, g, i); msg != "" {
						fmt.Fprintf(w, "%s\t%d\t%d\tLEXDIFF %s\n", g.ID, k, i, msg)
					}
				}
				s := in.S
				fmt.Fprintf(w, "%s\t%d\t%d\t%s\n", g.ID, k, i, runGuarded(func() string { return run(b, s) }))
			}
		}
	}
	return nil
}

func init() {
	commands["parse-bytes"] = parseBytes
	commands["deep-run"] = deepRun
}

func asciiOnly(s string) string {
	var sb strings.Builder
	for i := 0; i < len(s); i++ {
		if s[i] < 0x80 {
			sb.WriteByte(s[i])
		} else {
			sb.WriteString("~u")
		}
	}
	return sb.String()
}

// lexErrCheck: a lexing failure must come with a nil AST and a located lexer error.
func lexErrCheck(b *built, in string) string {
	ast, err := b.p.ParseString("fn", in)
	if err == nil {
		return "BADERR:lexer failed but ParseString succeeded"
	}
	if ast != nil {
		return "BADERR:lexing failure with non-nil AST"
	}
	pe, ok := err.(participle.Error)
	if !ok {
		return "BADERR:notError"
	}
	pos := pe.Position()
	if pos.Filename != "fn" || pos.Offset < 0 || pos.Offset > len(in) {
		return "BADERR:position " + pos.String()
	}
	line := 1 + strings.Count(in[:pos.Offset], "\n")
	col := 1 + len([]rune(in[strings.LastIndex(in[:pos.Offset], "\n")+1:pos.Offset]))
	if pos.Line != line || pos.Column != col {
		return fmt.Sprintf("BADERR:linecol %v want %d:%d", pos, line, col)
	}
	if !strings.HasPrefix(err.Error(), fmt.Sprintf("fn:%d:%d: ", pos.Line, pos.Column)) {
		return "BADERR:text " + err.Error()
	}
	return ""
}

// parse-bytes <grammars.json> <out cases.json> <maxlen> <byte,byte,...>: every byte string up to maxlen over the
// alphabet is lexed with the real lexer; strings that lex are parsed at every lookahead ("id\tk\tindex\toutcome") and
// written, with their real token streams, to the case file the specification evaluates; lexing failures are checked
// here ("id\t-\tL<n>\toutcome").
func parseBytes(args []string) error {
	f, err := os.ReadFile(args[0])
	if err != nil {
		return err
	}
	var raw []map[string]any
	var gs []gGrammar
	if err := json.Unmarshal(f, &raw); err != nil {
		return err
	}
	if err := json.Unmarshal(f, &gs); err != nil {
		return err
	}
	maxlen, _ := strconv.Atoi(args[2])
	var alpha []byte
	for _, x := range strings.Split(args[3], ",") {
		n, _ := strconv.Atoi(x)
		alpha = append(alpha, byte(n))
	}
	var inputs []string
	var rec func(p []byte)
	rec = func(p []byte) {
		inputs = append(inputs, string(p))
		if len(p) == maxlen {
			return
		}
		for _, a := range alpha {
			rec(append(append([]byte{}, p...), a))
		}
	}
	rec(nil)
	var extra []string
	if len(args) > 4 {
		eb, err := os.ReadFile(args[4])
		if err != nil {
			return err
		}
		if err := json.Unmarshal(eb, &extra); err != nil {
			return err
		}
		inputs = append(inputs, extra...)
	}
	w := bufio.NewWriterSize(os.Stdout, 1<<20)
	defer w.Flush()
	for gi := range gs {
		g := &gs[gi]
		var builts []*built
		for _, k := range g.Ks {
			b, err := build(g, k)
			if err != nil {
				fmt.Fprintf(w, "%s\t%d\t-\tbuilderr %v\n", g.ID, k, strings.ReplaceAll(err.Error(), "\n", " "))
				b = nil
			}
			builts = append(builts, b)
		}
		if builts[0] == nil {
			continue
		}
		names := lexer.SymbolsByRune(builts[0].p.Lexer())
		elided := map[string]bool{"WS": true, "Comment": true}
		outInputs := []any{}
		nlex := 0
		for _, in := range inputs {
			toks, err := builts[0].p.Lex("fn", strings.NewReader(in))
			if err != nil {
				nlex++
				res := runGuarded(func() (s string) {
					defer func() {
						if r := recover(); r != nil {
							s = fmt.Sprintf("panic %v", r)
						}
					}()
					return "lexerr " + lexErrCheck(builts[0], in)
				})
				fmt.Fprintf(w, "%s\t-\tL%d\t%s\t%q\n", g.ID, nlex, res, in)
				continue
			}
			var jt []map[string]any
			for _, t := range toks {
				nm := names[t.Type]
				jt = append(jt, map[string]any{"t": nm, "v": asciiOnly(t.Value), "fv": strings.ToLower(asciiOnly(t.Value)), "el": elided[nm]})
			}
			idx := len(outInputs)
			outInputs = append(outInputs, map[string]any{"s": asciiOnly(in), "q": strconv.Quote(in), "toks": jt})
			for ki, k := range g.Ks {
				if builts[ki] == nil {
					continue
				}
				b := builts[ki]
				fmt.Fprintf(w, "%s\t%d\t%d\t%s\n", g.ID, k, idx, runGuarded(func() string { return run(b, in) }))
			}
		}
		raw[gi]["inputs"] = outInputs
	}
	ob, err := json.Marshal(raw)
	if err != nil {
		return err
	}
	return os.WriteFile(args[1], ob, 0o644)
}

func init() { commands["build-run"] = buildRun }

// build-run <cases.json>: Build every grammar (lookahead = its first k); "id\tok" | "id\terr <message>" | "id\tpanic ..."
func buildRun(args []string) error {
	f, err := os.Open(args[0])
	if err != nil {
		return err
	}
	defer f.Close()
	var gs []gGrammar
	if err := json.NewDecoder(bufio.NewReaderSize(f, 1<<20)).Decode(&gs); err != nil {
		return err
	}
	start := 0
	if len(args) > 1 {
		start, _ = strconv.Atoi(args[1])
	}
	if ms := os.Getenv("VH_MAXSTACK"); ms != "" {
		n, _ := strconv.Atoi(ms)
		debug.SetMaxStack(n)
	}
	w := bufio.NewWriter(os.Stdout)
	defer w.Flush()
	for gi := start; gi < len(gs); gi++ {
		g := &gs[gi]
		w.Flush()
		one := func() string {
			return runGuarded(func() string {
				var err error
				if st, ok := staticLR[g.ID]; ok {
					func() {
						defer func() {
							if r := recover(); r != nil {
								err = fmt.Errorf("PANIC %v", r)
							}
						}()
						err = st()
					}()
				} else {
					_, err = build(g, g.Ks[0])
				}
				if err != nil {
					msg := strings.ReplaceAll(err.Error(), "\n", " ")
					if strings.HasPrefix(msg, "PANIC") {
						return "panic " + msg
					}
					return "err " + msg
				}
				return "ok"
			})
		}
		res := one()
		if _, ok := g.Unions["URoot"]; ok {
			// the same grammar with the union itself as root type must get the same verdict
			rootIsUnion = true
			res2 := one()
			rootIsUnion = false
			if strings.SplitN(res, " ", 2)[0] != strings.SplitN(res2, " ", 2)[0] {
				if strings.HasPrefix(res, "err") {
					res = res2 + " [with the union URoot as the root grammar type; with the struct root: " + res + "]"
				} else {
					res = res + " [with the struct root; with the union URoot as the root grammar type: " + res2 + "]"
					if strings.HasPrefix(res2, "err") {
						res = "mixed " + res
					}
				}
			}
		}
		fmt.Fprintf(w, "%s\t%s\n", g.ID, res)
	}
	return nil
}

func init() { commands["parse-events"] = parseEvents }

// parse-events <cases.json>: records the parse-context operations of every parse through the verif hooks, in the event
// syntax of ParserMachine.tla's evs variable: "id\tk\tindex\tevents".
// errorKey renders the error a parse reported as "t,u": t = 1-based index of the raw token at the error's position
// (0 = no position), u = 1 for an UnexpectedTokenError; "-" = no error, "?" = not observable this way.
func errorKey(perr, lerr error, raw []lexer.Token) string {
	if perr == nil {
		return "-"
	}
	pe, ok := perr.(participle.Error)
	if lerr != nil || !ok {
		return "?"
	}
	u := 0
	var ute *participle.UnexpectedTokenError
	if errors.As(perr, &ute) {
		u = 1
	}
	pos := pe.Position()
	if pos == (lexer.Position{}) {
		return fmt.Sprintf("0,%d", u)
	}
	for ti, t := range raw {
		if t.Pos.Offset == pos.Offset && t.Pos.Line == pos.Line && t.Pos.Column == pos.Column {
			// several tokens can share a position only if all but the last are empty; the unexpected token is named
			if ute != nil && (t.Value != ute.Unexpected.Value || t.Type != ute.Unexpected.Type) {
				continue
			}
			return fmt.Sprintf("%d,%d", ti+1, u)
		}
	}
	return "?"
}

// traceLines turns the text written by participle.Trace into a JSON list of {d, k, v}: nesting depth, node kind, the peeked
// token's text.  Lines of parenthesis-only groups (group{n}) are dropped and the depths below them re-based.
func traceLines(text string) string {
	type line struct {
		D int    `json:"d"`
		K string `json:"k"`
		V string `json:"v"`
	}
	out := []line{}
	type open struct {
		depth int
		once  bool
	}
	var stack []open
	for _, l := range strings.Split(text, "\n") {
		if l == "" {
			continue
		}
		sp := 0
		for sp < len(l) && l[sp] == ' ' {
			sp++
		}
		rest := l[sp:]
		val, err := strconv.QuotedPrefix(rest)
		if err != nil {
			return `[{"d":-1,"k":"unparsed","v":""}]`
		}
		gs := strings.TrimPrefix(rest[len(val):], " ")
		v, _ := strconv.Unquote(val)
		d := sp / 2
		for len(stack) > 0 && stack[len(stack)-1].depth >= d {
			stack = stack[:len(stack)-1]
		}
		onces := 0
		for _, o := range stack {
			if o.once {
				onces++
			}
		}
		kind := "prod"
		switch {
		case gs == "sequence{}":
			kind = "seq"
		case gs == "disjunction{}":
			kind = "alt"
		case gs == "group{n}":
			kind = "once"
		case strings.HasPrefix(gs, "group{"):
			kind = "grp"
		case gs == "capture{}":
			kind = "cap"
		case strings.HasPrefix(gs, "reference{"):
			kind = "ref"
		case strings.HasPrefix(gs, "literal{"):
			kind = "lit"
		case gs == "negation{}":
			kind = "neg"
		case gs == "lookaheadGroup{}":
			kind = "look"
		case gs == "URoot" || gs == "U0" || gs == "U1" || gs == "U2" || gs == "U3":
			kind = "union"
		case strings.HasSuffix(gs, "PIdent"):
			kind = "user2"
		case strings.HasSuffix(gs, "PPair"):
			kind = "user3"
		case strings.HasSuffix(gs, "PWord") || gs == "CIface":
			kind = "user"
		}
		stack = append(stack, open{d, kind == "once"})
		if kind != "once" {
			out = append(out, line{d - onces, kind, v})
		}
	}
	b, _ := json.Marshal(out)
	return string(b)
}

func parseEvents(args []string) error {
	f, err := os.Open(args[0])
	if err != nil {
		return err
	}
	defer f.Close()
	var gs []gGrammar
	if err := json.NewDecoder(bufio.NewReaderSize(f, 1<<20)).Decode(&gs); err != nil {
		return err
	}
	w := bufio.NewWriterSize(os.Stdout, 1<<20)
	defer w.Flush()
	var sb strings.Builder
	participle.VerifSink = func(ev string, a, b, c, d int) {
		switch ev {
		case "branch":
			fmt.Fprintf(&sb, "b,%d,%d;", a, b)
		case "accept":
			fmt.Fprintf(&sb, "a,%d,%d,%d,%d;", a, b, c, d)
		case "stop":
			fmt.Fprintf(&sb, "s,%d,%d,%d;", a, b, c)
		case "defer":
			fmt.Fprintf(&sb, "d,%d,%d,%d;", a, b, c)
		case "apply":
			fmt.Fprintf(&sb, "p,%d;", a)
		}
	}
	defer func() { participle.VerifSink = nil }()
	for gi := range gs {
		g := &gs[gi]
		for _, k := range g.Ks {
			b, err := build(g, k)
			if err != nil {
				continue
			}
			for i, in := range g.Inputs {
				sb.Reset()
				er, part := "?", "?"
				func() {
					defer func() { _ = recover() }()
					raw, lerr := b.p.Lex("fn", strings.NewReader(in.S))
					ast, perr := b.p.ParseString("fn", in.S, participle.AllowTrailing(b.trailing))
					er = errorKey(perr, lerr, raw)
					// the partial AST handed back next to a parse error, in canonical form (Z: the root value is the zero value)
					if perr != nil && lerr == nil && ast != nil {
						toks := map[lexer.Position]int{}
						for ti, t := range raw {
							toks[t.Pos] = ti + 1
						}
						psb := &strings.Builder{}
						b.names[reflect.TypeOf(DynRoot{})] = "DynRoot"
						canon(b.names, reflect.ValueOf(ast).Elem(), toks, psb)
						part = "N:" + psb.String()
						if reflect.ValueOf(ast).Elem().IsZero() {
							part = "Z:" + psb.String()
						}
					}
				}()
				evs := sb.String()
				// the node-level trace of the same parse (participle.Trace), once-groups dropped and depths re-based
				tr := "[]"
				func() {
					var buf bytes.Buffer
					defer func() {
						_ = recover() // (a grammar bug panics: the lines printed so far are the trace)
						tr = traceLines(buf.String())
					}()
					_, _ = b.p.ParseString("fn", in.S, participle.AllowTrailing(b.trailing), participle.Trace(&buf))
				}()
				fmt.Fprintf(w, "%s\t%d\t%d\t%s\t%s\t%s\t%s\n", g.ID, k, i, evs, er, tr, part)
			}
		}
	}
	return nil
}

// saturating arithmetic on lookahead values (the library's MaxLookahead is whatever the tree under test says)
func satAdd(a, b int) int {
	if a > math.MaxInt-b {
		return math.MaxInt
	}
	return a + b
}
func satMul(a, b int) int {
	if a > math.MaxInt/b {
		return math.MaxInt
	}
	return a * b
}

func init() { commands["lookahead-big"] = lookaheadBig }

type bigLA struct {
	A []string `(  @"x"+ "!"`
	B []string ` | @"x"+ "?" )`
}

// lookahead-big <n>: a failing first alternative that consumes n tokens before the second one matches, under lookaheads
// around and beyond MaxLookahead; prints "k\toutcome".
type deepLA struct {
	Sub  *deepLA `(  "(" @@ ")"`
	Name string  ` | @Ident )`
}

func lookaheadBig(args []string) error {
	n, _ := strconv.Atoi(args[0])
	// more than MaxLookahead productions open inside one another
	debug.SetMaxStack(2 << 30)
	deep := strings.Repeat("(", n+8) + "x" + strings.Repeat(")", n+8)
	for _, k := range []int{1, 3, participle.MaxLookahead, satMul(participle.MaxLookahead, 3), -1, -7} {
		res := runGuardedFor(300*time.Second, func() string {
			p, err := participle.Build[deepLA](participle.UseLookahead(k))
			if err != nil {
				return "builderr " + err.Error()
			}
			v, err := p.ParseString("", deep)
			if err != nil {
				return "err"
			}
			d := 0
			for ; v.Sub != nil; v = v.Sub {
				d++
			}
			return fmt.Sprintf("ok depth=%d name=%s", d, v.Name)
		})
		fmt.Printf("deep\t%d\t%s\n", k, res)
	}
	in := strings.Repeat("x ", n) + "?"
	for _, k := range []int{0, 1, participle.MaxLookahead, satAdd(participle.MaxLookahead, 1), satAdd(participle.MaxLookahead, 50000), -1, -7} {
		res := runGuardedFor(120*time.Second, func() string {
			p, err := participle.Build[bigLA](participle.UseLookahead(k))
			if err != nil {
				return "builderr " + err.Error()
			}
			v, err := p.ParseString("", in)
			if err != nil {
				return "err"
			}
			return fmt.Sprintf("ok A=%d B=%d", len(v.A), len(v.B))
		})
		fmt.Printf("flat\t%d\t%s\n", k, res)
	}
	// a parser for one production keeps the lookahead of the parser it was derived from (unlimited included)
	for _, k := range []int{1, 2, 3, participle.MaxLookahead, -1, -2} {
		res := runGuardedFor(60*time.Second, func() string {
			root, err := participle.Build[prodLARoot](participle.UseLookahead(k))
			if err != nil {
				return "builderr " + err.Error()
			}
			sub, err := participle.ParserForProduction[prodLACall](root)
			if err != nil {
				return "builderr " + err.Error()
			}
			v, err := sub.ParseString("", "f ( )")
			if err != nil {
				return "err"
			}
			return fmt.Sprintf("ok Star=%q Plain=%q", v.Star, v.Plain)
		})
		fmt.Printf("production\t%d\t%s\n", k, res)
	}
	return nil
}

type prodLACall struct {
	Star  string `(  @Ident "(" "*" ")"`
	Plain string ` | @Ident "(" ")" )`
}
type prodLARoot struct {
	Calls []*prodLACall `( @@ ";" )*`
}

func init() { commands["leak-big"] = leakBig }

type bigLeakAlt struct {
	A []string `(  @Ident* ";"`
	B []string ` | @Ident* "." )`
}
type bigLeakOpt struct {
	A []string `( @Ident+ ";" )?`
	B []string `@Ident* "."`
}
type bigLeakLook struct {
	A []string `(?= @Ident* ";" )?`
	B []string `@Ident* "."`
}

// leak-big: an abandoned attempt that had queued n captures (n around and beyond any plausible batch size) must leave
// nothing behind; prints "grammar\tk\tn\tlen(A)\tlen(B)|err".
func leakBig(args []string) error {
	for _, n := range []int{3, 1023, 1024, 1025, 1500, 5000} {
		in := strings.Repeat("x ", n) + "."
		for _, k := range []int{-1, satMul(participle.MaxLookahead, 2)} {
			run := func(name string, f func() (int, int, error)) {
				res := runGuardedFor(120*time.Second, func() string {
					a, b, err := f()
					if err != nil {
						return "err"
					}
					return fmt.Sprintf("%d\t%d", a, b)
				})
				fmt.Printf("%s\t%d\t%d\t%s\n", name, k, n, res)
			}
			run("alt", func() (int, int, error) {
				v, err := participle.MustBuild[bigLeakAlt](participle.UseLookahead(k)).ParseString("", in)
				if err != nil {
					return 0, 0, err
				}
				return len(v.A), len(v.B), nil
			})
			run("opt", func() (int, int, error) {
				v, err := participle.MustBuild[bigLeakOpt](participle.UseLookahead(k)).ParseString("", in)
				if err != nil {
					return 0, 0, err
				}
				return len(v.A), len(v.B), nil
			})
			run("look", func() (int, int, error) {
				v, err := participle.MustBuild[bigLeakLook](participle.UseLookahead(k)).ParseString("", in)
				if err != nil {
					return 0, 0, err
				}
				return len(v.A), len(v.B), nil
			})
		}
	}
	return nil
}

func init() { commands["elide-many"] = elideMany }

type manyG struct {
	Words []string `( @Ident | "(" | ")" )*`
}

// elide-many: a lexer with many rules (the elided types are declared last, so their token types are far below -64; also
// more than 64 rules before them) and re-spaced inputs: "rules\tinput\toutcome".
func elideMany(args []string) error {
	// a parser for one production (ParserForProduction) ignores the same elided tokens as the parser it comes from
	{
		type assign struct {
			Key string `@Ident "="`
			Val string `@Ident`
		}
		type file struct {
			As []*assign `@@*`
		}
		lx := lexer.MustSimple([]lexer.SimpleRule{{Name: "Ident", Pattern: `[a-z]+`}, {Name: "Punct", Pattern: `[=()]`}, {Name: "Comment", Pattern: `#[a-z]*#`}, {Name: "Whitespace", Pattern: `\s+`}})
		root, err := participle.Build[file](participle.Lexer(lx), participle.Elide("Comment", "Whitespace"))
		if err != nil {
			return err
		}
		sub, err := participle.ParserForProduction[assign](root)
		if err != nil {
			return err
		}
		for _, in := range []string{"a=b", "a = b", " a #c# = b ", "a=\nb#z#"} {
			v, err := sub.ParseString("", in)
			res := "err"
			if err == nil {
				res = v.Key + "," + v.Val
			}
			fmt.Printf("production\t%q\t%s\n", in, res)
		}
	}
	// two parsers built from one caller-owned slice of names (with spare capacity), each adding a further Elide of its own: the
	// first parser keeps eliding what IT was told to
	{
		lx := lexer.MustSimple([]lexer.SimpleRule{{Name: "Ident", Pattern: `[a-z]+`}, {Name: "Punct", Pattern: `[()]`}, {Name: "Other", Pattern: `!`}, {Name: "Comment", Pattern: `#[a-z]*#`}, {Name: "Whitespace", Pattern: `\s+`}})
		names := make([]string, 1, 8)
		names[0] = "Whitespace"
		p1, err := participle.Build[manyG](participle.Lexer(lx), participle.Elide(names...), participle.Elide("Comment"))
		if err != nil {
			return err
		}
		if _, err := participle.Build[manyG](participle.Lexer(lx), participle.Elide(names...), participle.Elide("Other")); err != nil {
			return err
		}
		for _, in := range []string{"(a b c)", "( a  b\tc )", " (a #x# b c) ", "(a\nb#y#c)#z#", "#q#(a b c)"} {
			v, err := p1.ParseString("", in)
			res := "err"
			if err == nil {
				res = strings.Join(v.Words, ",")
			}
			fmt.Printf("shared-names\t%q\t%s\n", in, res)
		}
	}
	for _, nrules := range []int{5, 57, 58, 59, 60, 61, 62, 63, 64, 65, 70, 130} {
		var rules []lexer.SimpleRule
		for i := 0; i < nrules; i++ {
			rules = append(rules, lexer.SimpleRule{Name: fmt.Sprintf("K%d", i), Pattern: fmt.Sprintf("@k%d@", i)})
		}
		rules = append(rules, lexer.SimpleRule{Name: "Ident", Pattern: `[a-z]+`}, lexer.SimpleRule{Name: "Punct", Pattern: `[()]`},
			lexer.SimpleRule{Name: "Comment", Pattern: `#[a-z]*#`}, lexer.SimpleRule{Name: "Whitespace", Pattern: `\s+`})
		p, err := participle.Build[manyG](participle.Lexer(lexer.MustSimple(rules)), participle.Elide("Comment", "Whitespace"))
		if err != nil {
			return err
		}
		for _, in := range []string{"(a b c)", "( a  b\tc )", " (a #x# b c) ", "(a\nb#y#c)#z#", "#q#(a b c)"} {
			v, err := p.ParseString("", in)
			res := "err"
			if err == nil {
				res = strings.Join(v.Words, ",")
			}
			fmt.Printf("%d\t%q\t%s\n", nrules, in, res)
		}
	}
	return nil
}

func init() { commands["posfields-static"] = posfieldsStatic }

type posBase struct {
	Pos    lexer.Position
	EndPos lexer.Position
	Tokens []lexer.Token
}
type nodePlain struct {
	Pos    lexer.Position
	EndPos lexer.Position
	Tokens []lexer.Token
	Name   string       `@Ident`
	Kids   []*nodePlain `( "(" @@* ")" )?`
}

// the node's own fields shadow those of an embedded struct declared before them (Go: the shallowest field wins)
type nodeShadow struct {
	posBase
	Pos    lexer.Position
	EndPos lexer.Position
	Tokens []lexer.Token
	Name   string        `@Ident`
	Kids   []*nodeShadow `( "(" @@* ")" )?`
}

// the injected fields carry struct tags of other packages and the explicit "no grammar here" tag
type nodeTagged struct {
	Pos    lexer.Position `parser:"" json:"pos"`
	EndPos lexer.Position `parser:"" json:"end,omitempty"`
	Tokens []lexer.Token  `parser:"" json:"-"`
	Name   string         `parser:"@Ident" json:"name"`
	Kids   []*nodeTagged  `parser:"( '(' @@* ')' )?" json:"kids"`
}

// position fields declared with interface types that lexer.Position converts to
type nodeIfacePos struct {
	Pos    fmt.Stringer
	EndPos any
	Tokens []lexer.Token
	Name   string          `@Ident`
	Kids   []*nodeIfacePos `( "(" @@* ")" )?`
}

// only the embedded struct has them: they are the node's (promoted) fields
type nodePromoted struct {
	posBase
	Name string          `@Ident`
	Kids []*nodePromoted `( "(" @@* ")" )?`
}

// posfields-static: Pos / EndPos / Tokens of nodes that embed a struct carrying fields of the same names must equal those of the
// plain node type; prints "OK|BAD\tinput\tdetail".
func posfieldsStatic(args []string) error {
	pp := participle.MustBuild[nodePlain]()
	ps := participle.MustBuild[nodeShadow]()
	pr := participle.MustBuild[nodePromoted]()
	key := func(p lexer.Position, e lexer.Position, t []lexer.Token) string {
		return fmt.Sprintf("%d-%d/%d", p.Offset, e.Offset, len(t))
	}
	var walkP func(n *nodePlain, out *[]string)
	walkP = func(n *nodePlain, out *[]string) {
		*out = append(*out, key(n.Pos, n.EndPos, n.Tokens))
		for _, k := range n.Kids {
			walkP(k, out)
		}
	}
	var walkS func(n *nodeShadow, out *[]string)
	walkS = func(n *nodeShadow, out *[]string) {
		*out = append(*out, key(n.Pos, n.EndPos, n.Tokens))
		for _, k := range n.Kids {
			walkS(k, out)
		}
	}
	var walkR func(n *nodePromoted, out *[]string)
	walkR = func(n *nodePromoted, out *[]string) {
		*out = append(*out, key(n.Pos, n.EndPos, n.Tokens))
		for _, k := range n.Kids {
			walkR(k, out)
		}
	}
	// node positions do not depend on how many token types the lexer has (the elided type numbered -64 and its neighbours)
	{
		mk := func(n int) *participle.Parser[nodePlain] {
			var rules []lexer.SimpleRule
			for i := 0; i < n; i++ {
				rules = append(rules, lexer.SimpleRule{Name: fmt.Sprintf("K%d", i), Pattern: fmt.Sprintf("@k%d@", i)})
			}
			rules = append(rules, lexer.SimpleRule{Name: "Ident", Pattern: `[a-z]+`}, lexer.SimpleRule{Name: "Punct", Pattern: `[()]`},
				lexer.SimpleRule{Name: "Comment", Pattern: `#[a-z]*#`}, lexer.SimpleRule{Name: "Whitespace", Pattern: `\s+`})
			p, err := participle.Build[nodePlain](participle.Lexer(lexer.MustSimple(rules)), participle.Elide("Comment", "Whitespace"))
			if err != nil {
				return nil
			}
			return p
		}
		ref := mk(5)
		for _, n := range []int{57, 58, 59, 60, 61, 62, 63, 64} {
			p := mk(n)
			for _, in := range []string{"a ( b c )", " a(b #x# (c d) e ( f ) )  ", "#q# x ( #r# y )"} {
				var a, b []string
				v1, e1 := ref.ParseString("", in)
				v2, e2 := p.ParseString("", in)
				if e1 != nil || e2 != nil || p == nil {
					fmt.Printf("BAD\t%q\tlexer with %d rules before Ident: parse errors %v %v\n", in, n, e1, e2)
					continue
				}
				walkP(v1, &a)
				walkP(v2, &b)
				status := "OK"
				if strings.Join(a, " ") != strings.Join(b, " ") {
					status = "BAD"
				}
				fmt.Printf("%s\t%q\tlexer with 5 rules before Ident %v; with %d rules %v\n", status, in, a, n, b)
			}
		}
	}
	// the token lists and positions of an AST stay what they were when further documents are parsed with the same parser
	{
		first, err := pp.ParseString("one.txt", "alpha ( beta gamma ( delta ) )")
		if err == nil {
			snap := func(n *nodePlain) string {
				var sb strings.Builder
				var walk func(n *nodePlain)
				walk = func(n *nodePlain) {
					fmt.Fprintf(&sb, "%s@%d-%d[", n.Name, n.Pos.Offset, n.EndPos.Offset)
					for _, t := range n.Tokens {
						fmt.Fprintf(&sb, "%s:%d:%s ", t.Value, t.Pos.Offset, t.Pos.Filename)
					}
					sb.WriteString("]")
					for _, k := range n.Kids {
						walk(k)
					}
				}
				walk(n)
				return sb.String()
			}
			before := snap(first)
			for i := 0; i < 40; i++ {
				_, _ = pp.ParseString("two.txt", "one ( two three four five ( six seven ) eight ) ")
				_, _ = pp.ParseString("three.txt", "x")
				_, _ = pp.ParseString("bad.txt", "( ( (")
			}
			status := "OK"
			if after := snap(first); after != before {
				status = "BAD"
				before = "before " + before + "; after further parses " + after
			}
			fmt.Printf("%s\t\"retained AST\"\t%s\n", status, before)
		}
	}
	// a lexer that emits no tokens for white space (text/scanner): EndPos is the position of the next token of the stream (the
	// EOF token's after the last one), Pos that of the node's first token - whatever line breaks lie between them
	for _, in := range []string{"a (\n b\n\n  c )", "a\n", "a ( b\n)\n\n", "a (\n\tb (\n c\n )\n d )"} {
		v, err := pp.ParseString("f", in)
		toks, lerr := pp.Lex("f", strings.NewReader(in))
		if err != nil || lerr != nil {
			fmt.Printf("BAD\t%q\tparse / lex errors %v %v\n", in, err, lerr)
			continue
		}
		at := map[int]int{}
		for i, t := range toks {
			at[t.Pos.Offset] = i
		}
		status, detail := "OK", ""
		var walk func(n *nodePlain)
		walk = func(n *nodePlain) {
			if len(n.Tokens) == 0 {
				status, detail = "BAD", "a node without tokens"
				return
			}
			last := n.Tokens[len(n.Tokens)-1]
			next := toks[at[last.Pos.Offset]+1]
			if n.Pos != n.Tokens[0].Pos || n.EndPos != next.Pos {
				status = "BAD"
				detail += fmt.Sprintf("node %s: Pos %v (first token %v), EndPos %v (next token of the stream %v); ", n.Name, n.Pos, n.Tokens[0].Pos, n.EndPos, next.Pos)
			}
			for _, k := range n.Kids {
				walk(k)
			}
		}
		walk(v)
		fmt.Printf("%s\t%q\ttext/scanner lexer, line breaks between tokens: %s\n", status, in, detail)
	}
	pt := participle.MustBuild[nodeTagged]()
	var walkT func(n *nodeTagged, out *[]string)
	walkT = func(n *nodeTagged, out *[]string) {
		*out = append(*out, key(n.Pos, n.EndPos, n.Tokens))
		for _, k := range n.Kids {
			walkT(k, out)
		}
	}
	for _, in := range []string{"a", "a ( b c )", " a(b(c d) e ( f ) )  "} {
		var a, d []string
		v1, e1 := pp.ParseString("", in)
		v4, e4 := pt.ParseString("", in)
		if e1 != nil || e4 != nil {
			fmt.Printf("BAD\t%q\tparse errors %v %v\n", in, e1, e4)
			continue
		}
		walkP(v1, &a)
		walkT(v4, &d)
		status := "OK"
		if strings.Join(a, " ") != strings.Join(d, " ") {
			status = "BAD"
		}
		fmt.Printf("%s\t%q\tplain %v; fields with foreign / empty parser tags %v\n", status, in, a, d)
	}
	if pi, err := participle.Build[nodeIfacePos](); err == nil {
		var walkI func(n *nodeIfacePos, out *[]string)
		walkI = func(n *nodeIfacePos, out *[]string) {
			p, _ := n.Pos.(lexer.Position)
			e, _ := n.EndPos.(lexer.Position)
			*out = append(*out, key(p, e, n.Tokens))
			for _, k := range n.Kids {
				walkI(k, out)
			}
		}
		for _, in := range []string{"a", "a ( b c )", " a(b(c d) e ( f ) )  "} {
			var a, d []string
			v1, e1 := pp.ParseString("", in)
			v4, e4 := pi.ParseString("", in)
			if e1 != nil || e4 != nil {
				fmt.Printf("BAD\t%q\tparse errors %v %v\n", in, e1, e4)
				continue
			}
			walkP(v1, &a)
			walkI(v4, &d)
			status := "OK"
			if strings.Join(a, " ") != strings.Join(d, " ") {
				status = "BAD"
			}
			fmt.Printf("%s\t%q\tplain %v; Pos / EndPos of interface types %v\n", status, in, a, d)
		}
	}
	for _, in := range []string{"a", "a ( b c )", " a(b(c d) e ( f ) )  ", "x ( )"} {
		var a, b, c []string
		v1, e1 := pp.ParseString("", in)
		v2, e2 := ps.ParseString("", in)
		v3, e3 := pr.ParseString("", in)
		if e1 != nil || e2 != nil || e3 != nil {
			fmt.Printf("BAD\t%q\tparse errors %v %v %v\n", in, e1, e2, e3)
			continue
		}
		walkP(v1, &a)
		walkS(v2, &b)
		walkR(v3, &c)
		status := "OK"
		if strings.Join(a, " ") != strings.Join(b, " ") || strings.Join(a, " ") != strings.Join(c, " ") {
			status = "BAD"
		}
		fmt.Printf("%s\t%q\tplain %v; own fields shadowing an embedded struct %v; fields promoted from an embedded struct %v\n", status, in, a, b, c)
	}
	return nil
}

func init() { commands["option-order"] = optionOrder }

type kwGrammar struct {
	K string   `@"select":Keyword`
	N []string `@Ident*`
	S string   `@String?`
}

// option-order: Build options given in every order must give the same parser; prints "OK|BAD\tinput\tdetail".
func optionOrder(args []string) error {
	lx := lexer.MustSimple([]lexer.SimpleRule{
		{Name: "WS", Pattern: `\s+`}, {Name: "Int", Pattern: `\d+`}, {Name: "String", Pattern: `"[^"]*"`},
		{Name: "Keyword", Pattern: `(?i)select\b`}, {Name: "Ident", Pattern: `[a-zA-Z]+`},
	})
	opts := []struct {
		name string
		o    participle.Option
	}{
		{"Lexer", participle.Lexer(lx)}, {"CaseInsensitive", participle.CaseInsensitive("Keyword")}, {"Elide", participle.Elide("WS")},
		{"Unquote", participle.Unquote("String")}, {"Upper", participle.Upper("Ident")},
	}
	inputs := []string{"select x", "SELECT x y", `Select y "q r"`, "sElEcT", "x select"}
	ref := map[string]string{}
	perm := []int{0, 1, 2, 3, 4}
	var rec func(k int)
	bad := 0
	rec = func(k int) {
		if k == len(perm) {
			var os []participle.Option
			names := []string{}
			for _, i := range perm {
				os = append(os, opts[i].o)
				names = append(names, opts[i].name)
			}
			p, err := participle.Build[kwGrammar](os...)
			for _, in := range inputs {
				res := ""
				if err != nil {
					res = "builderr " + err.Error()
				} else if v, perr := p.ParseString("", in); perr != nil {
					res = "err " + perr.Error()
				} else {
					res = fmt.Sprintf("ok %+v", *v)
				}
				if r0, ok := ref[in]; !ok {
					ref[in] = res
				} else if r0 != res && bad < 5 {
					bad++
					fmt.Printf("BAD\t%q\twith the options in the order %v: %s; in the order Lexer, CaseInsensitive, Elide, Unquote, Upper: %s\n", in, names, res, r0)
				}
			}
			return
		}
		for i := k; i < len(perm); i++ {
			perm[k], perm[i] = perm[i], perm[k]
			rec(k + 1)
			perm[k], perm[i] = perm[i], perm[k]
		}
	}
	rec(0)
	for _, in := range inputs {
		fmt.Printf("OK\t%q\t%s\n", in, ref[in])
	}
	return nil
}
