//go:build !genlex

package main

import "github.com/alecthomas/participle/v2/lexer"

func generatedMaker(c *rawCase) (lexer.Definition, string) {
	return nil, "harness built without generated lexers"
}
