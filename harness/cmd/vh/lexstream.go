package main

import (
	"bufio"
	"encoding/json"
	"fmt"
	"os"
	"strconv"
	"strings"
	"testing/iotest"
	"text/scanner"
	"unicode"
	"unicode/utf8"

	"github.com/alecthomas/participle/v2/lexer"
)

func init() {
	commands["lexstream-record"] = lexstreamRecord
	commands["advance-replay"] = advanceReplay
	commands["posadd-replay"] = posAddReplay
}

func charsOf(in string) [][]int {
	out := [][]int{}
	for i := 0; i < len(in); {
		r, w := utf8.DecodeRuneInString(in[i:])
		nl := 0
		if r == '\n' {
			nl = 1
		}
		out = append(out, []int{int(r), w, nl})
		i += w
	}
	return out
}

// recordStream lexes `in` with def and, if lexing succeeds, writes one trace (reset, tok..., eof).
func recordStream(enc *json.Encoder, def lexer.Definition, label string, nodrop bool, in string) (tokens int, ok bool) {
	type ev = map[string]any
	var evs []ev
	func() {
		defer func() {
			if r := recover(); r != nil {
				evs = nil
			}
		}()
		const fn = "dir/file.x"
		var callerBuf []byte
		var toks []lexer.Token
		// token values are judged after the caller has reused its buffer (LexBytes must not alias it)
		defer func() {
			for i := range callerBuf {
				callerBuf[i] = '#'
			}
			for i, t := range toks {
				if i < len(evs) && evs[i]["ev"] == "tok" {
					evs[i]["vok"] = t.Pos.Offset >= 0 && t.Pos.Offset+len(t.Value) <= len(in) && in[t.Pos.Offset:t.Pos.Offset+len(t.Value)] == t.Value
				}
			}
		}()
		var l lexer.Lexer
		var err error
		sd, isStr := def.(lexer.StringDefinition)
		bd, isBytes := def.(lexer.BytesDefinition)
		mk := func(in string, main bool) (l lexer.Lexer, err error) {
			switch {
			case label == "text/pkg.LexString":
				l = lexer.LexString(fn, in) // the package-level helpers of the text/scanner lexer
			case label == "text/pkg.LexBytes":
				l = lexer.LexBytes(fn, []byte(in))
			case label == "text/pkg.LexWithScanner":
				sc := &scanner.Scanner{}
				sc.Init(strings.NewReader(in))
				l = lexer.LexWithScanner(fn, sc)
			case strings.HasSuffix(label, "/dataerr"):
				l, err = def.Lex(fn, iotest.DataErrReader(strings.NewReader(in))) // the last bytes arrive together with io.EOF
			case strings.HasSuffix(label, "/onebyte"):
				l, err = def.Lex(fn, iotest.OneByteReader(strings.NewReader(in)))
			case strings.HasSuffix(label, "/reader") || !isStr:
				l, err = def.Lex(fn, strings.NewReader(in))
			case strings.HasSuffix(label, "/bytes") && isBytes:
				buf := []byte(in)
				if main {
					callerBuf = buf
				}
				l, err = bd.LexBytes(fn, buf)
			default:
				l, err = sd.LexString(fn, in)
			}
			return
		}
		l, err = mk(in, true)
		if err != nil {
			return
		}
		for n := 0; n <= len(in)+1; n++ {
			t, err := l.Next()
			if err != nil {
				evs = nil
				return
			}
			if t.EOF() {
				evs = append(evs, ev{"ev": "eof", "off": t.Pos.Offset, "len": 0, "line": t.Pos.Line, "col": t.Pos.Column, "vok": t.Value == "", "fok": t.Pos.Filename == fn})
				ok = true
				// a lexer that has reached the end stays there, whatever other lexers of the same kind do meanwhile: a second
				// lexer is created and read, then this one is asked again (anything but the same EOF is one more event, which
				// no trace of LexStream allows after the end)
				const otherIn = "b a\n7"
				if o, oerr := mk(otherIn, false); oerr == nil && o != nil {
					ot, oterr := o.Next()
					t2, err2 := l.Next()
					if err2 != nil || !t2.EOF() || t2.Pos != t.Pos || t2.Value != "" {
						evs = append(evs, ev{"ev": "tok", "off": t2.Pos.Offset, "len": len(t2.Value), "line": t2.Pos.Line, "col": t2.Pos.Column, "vok": false, "fok": false})
					}
					if oterr == nil && !ot.EOF() && (ot.Pos.Offset < 0 || ot.Pos.Offset+len(ot.Value) > len(otherIn) || otherIn[ot.Pos.Offset:ot.Pos.Offset+len(ot.Value)] != ot.Value) {
						evs = append(evs, ev{"ev": "tok", "off": ot.Pos.Offset, "len": len(ot.Value), "line": ot.Pos.Line, "col": ot.Pos.Column, "vok": false, "fok": false})
					}
				}
				return
			}
			toks = append(toks, t)
			vok := t.Pos.Offset >= 0 && t.Pos.Offset+len(t.Value) <= len(in) && in[t.Pos.Offset:t.Pos.Offset+len(t.Value)] == t.Value
			evs = append(evs, ev{"ev": "tok", "off": t.Pos.Offset, "len": len(t.Value), "line": t.Pos.Line, "col": t.Pos.Column, "vok": vok, "fok": t.Pos.Filename == fn})
		}
		// no EOF within len(in)+1 tokens: leave the trace unfinished so that it is rejected
		ok = true
	}()
	if !ok {
		return 0, false
	}
	enc.Encode(ev{"ev": "reset", "chars": charsOf(in), "nodrop": nodrop, "lexer": label, "input": in, "off": 0, "len": 0, "line": 0, "col": 0, "vok": true, "fok": true})
	for _, e := range evs {
		e["chars"] = [][]int{}
		e["nodrop"] = false
		enc.Encode(e)
	}
	return len(evs), true
}

func enumInputs(alpha []alphaSym, maxlen int, f func(string)) {
	var rec func(prefix []byte, n int)
	rec = func(prefix []byte, n int) {
		f(string(prefix))
		if n == maxlen {
			return
		}
		for _, a := range alpha {
			p := append([]byte{}, prefix...)
			for _, b := range a.Bytes {
				p = append(p, byte(b))
			}
			rec(p, n+1)
		}
	}
	rec(nil, 0)
}

// lexstream-record <raw.json> <maxlen> <kinds: comma list of stateful,simple,text,textcfg> [extra inputs file]
func lexstreamRecord(args []string) error {
	raw, err := readRaw(args[0])
	if err != nil {
		return err
	}
	maxlen, _ := strconv.Atoi(args[1])
	kinds := map[string]bool{}
	for _, k := range strings.Split(args[2], ",") {
		kinds[k] = true
	}
	var extraInputs []string
	if len(args) > 3 {
		b, err := os.ReadFile(args[3])
		if err != nil {
			return err
		}
		if err := json.Unmarshal(b, &extraInputs); err != nil {
			return err
		}
	}
	w := bufio.NewWriterSize(os.Stdout, 1<<20)
	defer w.Flush()
	enc := json.NewEncoder(w)
	type lx struct {
		def    lexer.Definition
		label  string
		nodrop bool
	}
	var lexers []lx
	for i := range raw.Cases {
		c := &raw.Cases[i]
		nodrop := true
		for _, rs := range c.Rules {
			for _, r := range rs {
				if len(r.Name) > 0 && unicode.IsLower(rune(r.Name[0])) {
					nodrop = false
				}
			}
		}
		if kinds["stateful"] {
			if d, _ := safeNew(c.rules()); d != nil {
				lexers = append(lexers, lx{d, "stateful:" + c.ID, nodrop})
				lexers = append(lexers, lx{d, "stateful:" + c.ID + "/reader", nodrop})
				lexers = append(lexers, lx{d, "stateful:" + c.ID + "/dataerr", nodrop})
				lexers = append(lexers, lx{d, "stateful:" + c.ID + "/onebyte", nodrop})
			}
		}
		if kinds["generated"] {
			if d, _ := generatedMaker(c); d != nil {
				lexers = append(lexers, lx{d, "generated:" + c.ID, nodrop})
				lexers = append(lexers, lx{d, "generated:" + c.ID + "/reader", nodrop})
				lexers = append(lexers, lx{d, "generated:" + c.ID + "/bytes", nodrop})
			}
		}
		if kinds["simple"] {
			if d, _ := simpleMaker(c); d != nil {
				lexers = append(lexers, lx{d, "simple:" + c.ID, nodrop})
			}
		}
	}
	if kinds["text"] {
		lexers = append(lexers, lx{lexer.TextScannerLexer, "text", false})
	}
	if kinds["textcfg"] {
		lexers = append(lexers, lx{lexer.NewTextScannerLexer(func(s *scanner.Scanner) {
			s.Mode = scanner.GoTokens &^ scanner.SkipComments
		}), "textcfg", false})
	}
	if kinds["textquiet"] {
		// a scanner whose Error callback does not fail the lexing (undecodable bytes become tokens of their own)
		lexers = append(lexers, lx{lexer.NewTextScannerLexer(func(s *scanner.Scanner) {
			s.Error = func(*scanner.Scanner, string) {}
		}), "textquiet", false})
		lexers = append(lexers, lx{lexer.TextScannerLexer, "text/dataerr", false})
		for _, lb := range []string{"text/pkg.LexString", "text/pkg.LexBytes", "text/pkg.LexWithScanner"} {
			lexers = append(lexers, lx{lexer.TextScannerLexer, lb, false})
		}
	}
	traces, events := 0, 0
	for _, l := range lexers {
		f := func(in string) {
			n, ok := recordStream(enc, l.def, l.label, l.nodrop, in)
			if ok {
				traces++
				events += n + 1
			}
		}
		enumInputs(raw.Alpha, maxlen, f)
		for _, in := range extraInputs {
			f(in)
		}
	}
	fmt.Fprintf(os.Stderr, "TRACES\t%d\t%d\n", traces, events)
	return nil
}

// advance-replay <alpha raw.json> <edges file>: lines "input names|i|j|off:line:col|off:line:col"; applies the real
// Position.Advance to the span input[i..j) from the first position and compares with the second.
func advanceReplay(args []string) error {
	raw, err := readRaw(args[0])
	if err != nil {
		return err
	}
	f, err := os.Open(args[1])
	if err != nil {
		return err
	}
	defer f.Close()
	sc := bufio.NewScanner(f)
	n, bad := 0, 0
	parse := func(s string) lexer.Position {
		p := strings.Split(s, ":")
		a, _ := strconv.Atoi(p[0])
		b, _ := strconv.Atoi(p[1])
		c, _ := strconv.Atoi(p[2])
		return lexer.Position{Offset: a, Line: b, Column: c}
	}
	for sc.Scan() {
		p := strings.Split(sc.Text(), "|")
		i, _ := strconv.Atoi(p[1])
		j, _ := strconv.Atoi(p[2])
		span := raw.decodeInput(p[0][i-1 : j-1])
		pos := parse(p[3])
		pos.Advance(span)
		n++
		if pos != parse(p[4]) {
			bad++
			if bad <= 20 {
				fmt.Printf("MISMATCH\t%s\tAdvance(%q) from %s gives %d:%d:%d, specification %s\n", sc.Text(), span, p[3], pos.Offset, pos.Line, pos.Column, p[4])
			}
		}
	}
	fmt.Printf("DONE\t%d\t%d\n", n, bad)
	return nil
}

// posadd-replay <file>: lines "off:line:col|off:line:col|off:line:col" = p, q, the specification's Add(p, q); applies the real
// Position.Add (the filename of the receiver must survive).
func posAddReplay(args []string) error {
	f, err := os.Open(args[0])
	if err != nil {
		return err
	}
	defer f.Close()
	sc := bufio.NewScanner(f)
	n, bad := 0, 0
	parse := func(s string) lexer.Position {
		p := strings.Split(s, ":")
		a, _ := strconv.Atoi(p[0])
		b, _ := strconv.Atoi(p[1])
		c, _ := strconv.Atoi(p[2])
		return lexer.Position{Offset: a, Line: b, Column: c}
	}
	for sc.Scan() {
		p := strings.Split(sc.Text(), "|")
		if len(p) != 3 {
			continue
		}
		pp, q, want := parse(p[0]), parse(p[1]), parse(p[2])
		pp.Filename, want.Filename = "outer.x", "outer.x"
		q.Filename = "inner.y"
		got := pp.Add(q)
		n++
		if got != want {
			bad++
			if bad <= 20 {
				fmt.Printf("MISMATCH\t%s\tPosition %s .Add(%s) gives %s %d:%d:%d, specification %s\n", sc.Text(), p[0], p[1], got.Filename, got.Offset, got.Line, got.Column, p[2])
			}
		}
	}
	fmt.Printf("DONE\t%d\t%d\n", n, bad)
	return nil
}
