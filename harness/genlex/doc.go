// Package genlex receives, at check time, the lexers emitted by `participle gen lexer` for the C05 family
// (files g_*.go) and a registry mapping case ids to definitions.  It is empty in the repository.
package genlex

import "github.com/alecthomas/participle/v2/lexer"

// Defs maps a case id to its generated definition (filled by registry.go, build tag genlex).
var Defs = map[string]lexer.Definition{}
