module verifharness

go 1.18

require github.com/alecthomas/participle/v2 v2.0.0

replace github.com/alecthomas/participle/v2 => /repo
