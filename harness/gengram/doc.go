// Package gengram receives, at check time, Go source with named struct types generated from grammar case files
// (tools/codegen.py) and a registry of constructors.  It is empty in the repository.
package gengram

import "fmt"

// Built is what the checks need from a parser built from named types.
type Built interface {
	fmt.Stringer
}

// Grammars maps a case id to a constructor (filled by generated files, build tag gengram).
var Grammars = map[string]func() (Built, error){}
