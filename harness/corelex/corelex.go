// Package corelex holds the token lexer shared by the dynamic and the generated grammar families.
package corelex

import "github.com/alecthomas/participle/v2/lexer"

// Lexer: Ident, Int, Punct (one character), Comment (#...#, elided), WS (elided).
var Lexer = lexer.MustSimple([]lexer.SimpleRule{
	{Name: "Ident", Pattern: `[a-zA-Z]+`}, {Name: "Int", Pattern: `[0-9]+`}, {Name: "Punct", Pattern: `[^\sa-zA-Z0-9#]`}, {Name: "Comment", Pattern: `#[a-z]*#`}, {Name: "WS", Pattern: `\s+`},
})
